import CasModel.Proofs.FScript
/-
  FFault: the state a FAILED call leaves behind — memory as the error paths of Fault.lean leave it,
  disk as far as the script got — is tied to the machine with failed appends (`FTied`).
  Part 1: helpers (free events, index metadata, prefixes of a checkpoint script).
-/
namespace CasModel
open Ghost

variable (H : Bytes → Bytes) (kind : KeyKind) (sz : Bytes → Nat) (N : Nat)

/-- bookkeeping fields of the index that no invariant mentions -/
def Mem.meta (m : Mem) (lp ss : Nat) : Mem :=
  { m with idx := { m.idx with lastPersisted := lp, serializedSize := ss } }

theorem FTied.meta (m : Mem) (fs : FSys (KMap Bytes) Bytes) (h : Hist Bytes) (d : Disk)
    (t : FTied H kind sz N m fs h d) (lp ss : Nat) : FTied H kind sz N (m.meta lp ss) fs h d :=
  ⟨t.cfg, t.kindEq, t.nEq, t.next, t.st, idxInv_meta kind sz m.idx t.inv lp ss, t.active, t.buf, t.pendSeg⟩

theorem FTied.free (m : Mem) (fs : FSys (KMap Bytes) Bytes) (h : Hist Bytes) (d : Disk)
    (t : FTied H kind sz N m fs h d) (e : Ev) (h1 : e.segFree = true) (h2 : e.indexFree = true) :
    FTied H kind sz N m fs h (d.apply e) := by
  refine ⟨t.cfg.free H kind sz N fs h d e h1 h2, t.kindEq, t.nEq, t.next, t.st, t.inv, t.active, t.buf, ?_⟩
  intro hne
  obtain ⟨a, old, a1, a2, a3, a4⟩ := t.pendSeg hne
  exact ⟨a, old, a1, a2, a3, a4.of_data H d _ a old 0 (segData_segFree d t.cfg.rel.wf e h1 a)⟩

theorem FTied.freeAll (m : Mem) (fs : FSys (KMap Bytes) Bytes) (h : Hist Bytes) (d : Disk)
    (t : FTied H kind sz N m fs h d) (evs : List Ev)
    (hf : ∀ e ∈ evs, e.segFree = true ∧ e.indexFree = true) :
    FTied H kind sz N m fs h (d.applyAll evs) := by
  induction evs generalizing d with
  | nil => exact t
  | cons e evs ih =>
    rw [Disk.applyAll_cons]
    exact ih _ (t.free H kind sz N m fs h d e (hf e (by simp)).1 (hf e (by simp)).2)
      (fun e' he' => hf e' (by simp [he']))

/-- what holds after every prefix of a script run by memory `m` -/
def FPost (m : Mem) (hm failed : Recs Bytes) (d : Disk) : Prop :=
  ∃ fs h, FTied H kind sz N m fs h d ∧ h.hm = hm ∧ h.failed = failed

theorem allPre_ffree (m : Mem) (fs : FSys (KMap Bytes) Bytes) (h : Hist Bytes) (d : Disk)
    (t : FTied H kind sz N m fs h d) (evs : List Ev)
    (hf : ∀ e ∈ evs, e.segFree = true ∧ e.indexFree = true) :
    AllPre (FPost H kind sz N m h.hm h.failed) d evs := by
  induction evs generalizing d with
  | nil => exact allPre_nil _ _ ⟨fs, h, t, rfl, rfl⟩
  | cons e evs ih =>
    refine allPre_cons (FPost H kind sz N m h.hm h.failed) _ _ _ ⟨fs, h, t, rfl, rfl⟩ ?_
    exact ih _ (t.free H kind sz N m fs h d e (hf e (by simp)).1 (hf e (by simp)).2)
      (fun e' he' => hf e' (by simp [he']))

theorem FTied.prune (m : Mem) (fs : FSys (KMap Bytes) Bytes) (h : Hist Bytes) (d : Disk)
    (t : FTied H kind sz N m fs h d) (j : Nat) (hj : j < Ghost.segOf N fs.sys.g.snapVer)
    (hja : ∀ a, m.active = some a → a ≠ j) :
    ∃ fs', fs'.sys.g.snapVer = fs.sys.g.snapVer ∧ FTied H kind sz N m fs' h (d.apply (.unlink (.seg j))) := by
  obtain ⟨fs1, h1, h2, h2', h3, g1, c1⟩ := t.cfg.prune H kind sz N fs h d j hj
  refine ⟨fs1, h3, c1, t.kindEq, t.nEq, by rw [h1, t.next], by rw [h2, t.st], t.inv, ?_,
    by rw [h2']; exact t.buf, ?_⟩
  · intro a ha
    obtain ⟨a1, a2, old, a3⟩ := t.active a ha
    exact ⟨a1, a2, old, by rw [g1 a (hja a ha)]; exact a3⟩
  · intro hne
    rw [h2'] at hne ⊢
    obtain ⟨a, old, a1, a2, a3, a4⟩ := t.pendSeg hne
    refine ⟨a, old, a1, a2, by rw [g1 a (hja a a1)]; exact a3, ?_⟩
    apply a4.of_data H d _ a old 0
    rw [segData_unlink d t.cfg.rel.wf]
    simp [hja a a1]

theorem allPre_fprunes (m : Mem) (fs : FSys (KMap Bytes) Bytes) (h : Hist Bytes) (d : Disk)
    (t : FTied H kind sz N m fs h d) (js : List Nat)
    (hjs : ∀ j ∈ js, j < Ghost.segOf N fs.sys.g.snapVer)
    (hja : ∀ a, m.active = some a → ∀ j ∈ js, a ≠ j) :
    AllPre (FPost H kind sz N m h.hm h.failed) d (js.map (fun j => Ev.unlink (.seg j))) := by
  induction js generalizing fs d with
  | nil => exact allPre_nil _ _ ⟨fs, h, t, rfl, rfl⟩
  | cons j js ih =>
    refine allPre_cons (FPost H kind sz N m h.hm h.failed) _ _ _ ⟨fs, h, t, rfl, rfl⟩ ?_
    obtain ⟨fs1, v1, t1⟩ := t.prune H kind sz N m fs h d j (hjs j (by simp))
      (fun a ha => hja a ha j (by simp))
    exact ih fs1 _ t1 (fun j' hj' => by rw [v1]; exact hjs j' (by simp [hj']))
      (fun a ha j' hj' => hja a ha j' (by simp [hj']))

/-- **every prefix of a checkpoint script**, run by a memory with a failed append in its past and
    whatever index bookkeeping the error path left (`last_persisted_version` is set before the
    snapshot is written): memory and disk stay tied. -/
theorem checkpoint_fpre (so : StrictOrder kind.lt) (reason : CkptReason) (m : Mem)
    (fs : FSys (KMap Bytes) Bytes) (h : Hist Bytes) (d dAny : Disk)
    (t : FTied H kind sz N m fs h d) (hsave : SaveOK kind m.idx) (hver : m.next < U64)
    (lp ss : Nat) :
    AllPre (FPost H kind sz N (m.meta lp ss) h.hm h.failed) d (checkpointScript reason m dAny).1 := by
  unfold checkpointScript
  cases hct : ckptTarget reason m.next m.idx.lastPersisted with
  | none => exact allPre_nil _ _ ⟨fs, h, t.meta H kind sz N m fs h d lp ss, rfl, rfl⟩
  | some tv =>
    simp only
    have htv : tv = m.next - 1 ∧ 1 < m.next := by
      have key : ∀ b : Bool, (if (b && decide (m.next > 1)) = true then some (m.next - 1) else none)
          = some tv → tv = m.next - 1 ∧ 1 < m.next := by
        intro b hb
        by_cases hc : (b && decide (m.next > 1)) = true
        · simp only [hc, ↓reduceIte, Option.some.injEq] at hb
          simp only [Bool.and_eq_true, decide_eq_true_eq] at hc
          exact ⟨hb.symm, hc.2⟩
        · simp [hc] at hb
      exact key _ hct
    obtain ⟨htv1, htv2⟩ := htv
    let bytes := serIndex (entriesOf m.idx.map) tv
    let save := [Ev.creat .indexTmp true, .write .indexTmp bytes, .sync .indexTmp]
    have hsfree : ∀ e ∈ save, e.segFree = true ∧ e.indexFree = true := by
      intro e he
      simp only [save, List.mem_cons, List.not_mem_nil, or_false] at he
      rcases he with he | he | he <;> subst he <;> simp [Ev.segFree, Ev.indexFree]
    have tm := t.meta H kind sz N m fs h d lp ss
    have t3 := tm.freeAll H kind sz N _ fs h d save hsfree
    have c3 := t3.cfg
    have hd3 : d.applyAll save = ((d.apply (.creat .indexTmp true)).apply (.write .indexTmp bytes)).apply
        (.sync .indexTmp) := rfl
    have htmp : ∃ synced, (d.applyAll save).get .indexTmp = some ⟨bytes, synced⟩ := by
      refine ⟨bytes.length, ?_⟩
      rw [hd3, Disk.get_sync, Disk.get_write, Disk.get_creat]
      simp only [↓reduceIte]
      cases d.get .indexTmp <;> simp
    obtain ⟨synced, htmp⟩ := htmp
    have hsv : Saveable kind m.idx (fs.sys.next - 1) := by
      rw [t.next]; exact hsave _ (by omega)
    have htmp' : (d.applyAll save).get .indexTmp =
        some ⟨serIndex (entriesOf m.idx.map) (fs.sys.next - 1), synced⟩ := by
      rw [htmp, t.next, ← htv1]
    obtain ⟨fs4, n4, s4, p4, v4, g4, c4⟩ := c3.install H kind sz N so fs h _ m.idx t.inv t.st.symm
      (by rw [t.next]; exact htv2) hsv synced htmp'
    have hseg4 : ∀ i, segData ((d.applyAll save).apply (.rename .indexTmp .index)) i =
        segData (d.applyAll save) i :=
      segData_segFree _ c3.rel.wf _ (by simp [Ev.segFree])
    have t4 : FTied H kind sz N (m.meta lp ss) fs4 { h with hd := h.hm }
        ((d.applyAll save).apply (.rename .indexTmp .index)) := by
      refine ⟨c4, t.kindEq, t.nEq, by rw [n4, t.next]; rfl, by rw [s4, t.st]; rfl, tm.inv, ?_,
        by rw [p4]; exact t.buf, ?_⟩
      · intro a ha
        obtain ⟨a1, a2, old, a3⟩ := t.active a ha
        exact ⟨a1, a2, old, by rw [g4]; exact a3⟩
      · intro hne
        rw [p4] at hne ⊢
        obtain ⟨a, old, a1, a2, a3, a4⟩ := t3.pendSeg hne
        exact ⟨a, old, a1, a2, by rw [g4]; exact a3, a4.of_data H _ _ a old 0 (hseg4 a)⟩
    let prune : List Ev :=
      if m.idx.lastPersisted ≠ 0 ∧ tv ≤ m.idx.lastPersisted then []
      else ((segIds dAny).filter (· < segOf m.cfg.N tv)).map (fun j => Ev.unlink (.seg j))
    have hprune : ∃ js : List Nat, prune = js.map (fun j => Ev.unlink (.seg j)) ∧
        ∀ j ∈ js, j < Ghost.segOf N fs4.sys.g.snapVer := by
      by_cases hc : m.idx.lastPersisted ≠ 0 ∧ tv ≤ m.idx.lastPersisted
      · exact ⟨[], by simp [prune, hc], by simp⟩
      · refine ⟨(segIds dAny).filter (· < segOf m.cfg.N tv), by simp [prune, hc], ?_⟩
        intro j hj
        simp only [List.mem_filter, decide_eq_true_eq] at hj
        rw [v4, t.next, ← htv1, ← t.nEq]
        exact hj.2
    obtain ⟨js, hjs1, hjs2⟩ := hprune
    have hbelow : ∀ a, (m.meta lp ss).active = some a → ∀ j ∈ js, a ≠ j := by
      intro a ha j hj
      obtain ⟨a1, _, _⟩ := t.active a ha
      have := hjs2 j hj
      rw [v4, t.next] at this
      omega
    have hsplit : [Ev.creat .indexTmp true, .write .indexTmp bytes, .sync .indexTmp,
        .rename .indexTmp .index] ++ prune =
        save ++ ([Ev.rename .indexTmp .index] ++ js.map (fun j => Ev.unlink (.seg j))) := by
      rw [hjs1]; rfl
    show AllPre _ d ([Ev.creat .indexTmp true, .write .indexTmp bytes, .sync .indexTmp,
        .rename .indexTmp .index] ++ prune)
    rw [hsplit]
    refine allPre_append (FPost H kind sz N (m.meta lp ss) h.hm h.failed) _ _ _
      (allPre_ffree H kind sz N _ fs h d tm save hsfree) ?_
    refine allPre_cons (FPost H kind sz N (m.meta lp ss) h.hm h.failed) _ _ _ ⟨fs, h, t3, rfl, rfl⟩ ?_
    exact allPre_fprunes H kind sz N _ fs4 _ _ t4 js hjs2 hbelow


/-! ### Part 2: what a failed append leaves behind -/

/-- the part of `FTied` that does not mention the disk -/
structure MemBasics (m : Mem) (fs : FSys (KMap Bytes) Bytes) : Prop where
  kindEq : m.cfg.kind = kind
  nEq : m.cfg.N = N
  next : fs.sys.next = m.next
  st : fs.sys.st = m.idx.map
  inv : IdxInv kind.lt sz m.idx

/-- memory after a failed append (`failedAppend` of Fault.lean): the version is consumed, the
    writer is `active` with `buf` retained, the put's blob stays protected -/
def failedMem (m : Mem) (op : Op Bytes) (active : Option Nat) (buf : Bytes) : Mem :=
  { m with next := m.next + 1, active := active, walBuf := buf,
           protectedFailed := m.protectedFailed ++ putHash op }

/-- the append failed before anything of the record existed and the writer is gone
    (seal / sync of the old segment / creation of the new one failed) -/
theorem FTied.lostNone (m : Mem) (fs : FSys (KMap Bytes) Bytes) (h : Hist Bytes) (d' : Disk)
    (t : MemBasics kind sz N m fs) (hpe : fs.pend = [])
    (c' : FCfg H kind sz N fs h d') (op : Op Bytes) (p : Bytes) :
    FTied H kind sz N (failedMem m op none [])
      ⟨{ fs.sys with next := m.next + 1 }, fs.pend⟩
      { h with failed := h.failed ++ [(m.next, p)] } d' := by
  have c2 := c'.failLost H kind sz N fs h d' p
  rw [t.next] at c2
  refine ⟨c2, t.kindEq, t.nEq, by simp [failedMem, t.next], t.st, t.inv, ?_, ?_, ?_⟩
  · intro a ha; simp [failedMem] at ha
  · simp [failedMem, hpe, pendBytes, encodeAll]
  · intro hne; simp [hpe] at hne

/-- the record's write failed: its bytes stay in the writer of the target segment (a record too
    large for the buffer is lost instead) -/
theorem FTied.keep (m : Mem) (fs : FSys (KMap Bytes) Bytes) (h : Hist Bytes) (d' : Disk)
    (t : MemBasics kind sz N m fs) (hpe : fs.pend = [])
    (c' : FCfg H kind sz N fs h d') (old : Recs Bytes)
    (hold : segGet fs.sys.g.segs (Ghost.segOf N m.next) = some old)
    (op : Op Bytes) (p : Bytes) (hp : RecOK kind sz p) (hwf : (⟨m.next, p⟩ : Rec).WF) :
    FTied H kind sz N (failedMem m op (some (Ghost.segOf N m.next)) (encodeEntry H ⟨m.next, p⟩))
      ⟨{ fs.sys with next := fs.sys.next + 1 }, fs.pend ++ [(fs.sys.next, p)]⟩
      { h with failed := h.failed ++ [(fs.sys.next, p)] } d' := by
  have c2 := c'.failKeep H kind sz N fs h d' p hp (by rw [t.next]; exact hwf)
  have hk : SegFile H d' (Ghost.segOf N m.next) old 0 := by
    rcases c'.unsealed _ old hold with x | x
    · exact x
    · rw [t.next] at x; omega
  refine ⟨c2, t.kindEq, t.nEq, by simp [failedMem, t.next], t.st, t.inv, ?_, ?_, ?_⟩
  · intro a ha
    simp only [failedMem, Option.some.injEq] at ha
    subst ha
    exact ⟨by simp [failedMem], by simp only [failedMem]; have := hwf.1; simp only at this; omega,
      old, hold⟩
  · simp [failedMem, hpe, pendBytes, encodeAll, t.next]
  · intro _
    refine ⟨_, old, rfl, ?_, hold, hk⟩
    intro q hq
    simp only [hpe, List.nil_append, List.mem_singleton] at hq
    subst hq
    simp [t.next]

theorem FTied.lostSome (m : Mem) (fs : FSys (KMap Bytes) Bytes) (h : Hist Bytes) (d' : Disk)
    (t : MemBasics kind sz N m fs) (hpe : fs.pend = [])
    (c' : FCfg H kind sz N fs h d') (old : Recs Bytes)
    (hold : segGet fs.sys.g.segs (Ghost.segOf N m.next) = some old)
    (op : Op Bytes) (p : Bytes) (hwf : (⟨m.next, p⟩ : Rec).WF) :
    FTied H kind sz N (failedMem m op (some (Ghost.segOf N m.next)) [])
      ⟨{ fs.sys with next := m.next + 1 }, fs.pend⟩
      { h with failed := h.failed ++ [(m.next, p)] } d' := by
  have c2 := c'.failLost H kind sz N fs h d' p
  rw [t.next] at c2
  refine ⟨c2, t.kindEq, t.nEq, by simp [failedMem, t.next], t.st, t.inv, ?_, ?_, ?_⟩
  · intro a ha
    simp only [failedMem, Option.some.injEq] at ha
    subst ha
    exact ⟨by simp [failedMem], by simp only [failedMem]; have := hwf.1; simp only at this; omega,
      old, hold⟩
  · simp [failedMem, hpe, pendBytes, encodeAll]
  · intro hne; simp [hpe] at hne

/-- the record was written but its sync failed: the record is on disk, memory never applied it -/
theorem FTied.ghost (hH : Hash32 H) (m : Mem) (fs : FSys (KMap Bytes) Bytes) (h : Hist Bytes)
    (d' : Disk) (t : MemBasics kind sz N m fs) (hpe : fs.pend = [])
    (c' : FCfg H kind sz N fs h d') (old : Recs Bytes)
    (hold : segGet fs.sys.g.segs (Ghost.segOf N m.next) = some old)
    (op : Op Bytes) (p : Bytes) (hp : RecOK kind sz p) (hwf : (⟨m.next, p⟩ : Rec).WF) :
    ∃ fs' h', FTied H kind sz N (failedMem m op (some (Ghost.segOf N m.next)) []) fs' h'
        (d'.apply (.write (.seg (Ghost.segOf N m.next)) (encodeEntry H ⟨m.next, p⟩))) ∧
      h'.hm = h.hm ∧ h'.failed = h.failed ++ [(m.next, p)] := by
  have c2 := c'.failKeep H kind sz N fs h d' p hp (by rw [t.next]; exact hwf)
  have hk : SegFile H d' (Ghost.segOf N m.next) old 0 := by
    rcases c'.unsealed _ old hold with x | x
    · exact x
    · rw [t.next] at x; omega
  rw [hpe, t.next] at c2
  obtain ⟨fs3, n3, s3, p3, v3, g3, g3', k3, c3⟩ := c2.flush H kind sz N hH _ _ d' (m.next, p) []
    (by simp) old hold hk
  refine ⟨fs3, _, ⟨c3, t.kindEq, t.nEq, by rw [n3]; simp [failedMem, t.next], by rw [s3]; exact t.st,
    t.inv, ?_, ?_, ?_⟩, ?_, ?_⟩
  · intro a ha
    simp only [failedMem, Option.some.injEq] at ha
    subst ha
    exact ⟨by simp [failedMem], by simp only [failedMem]; have := hwf.1; simp only at this; omega,
      _, g3⟩
  · simp [failedMem, p3, pendBytes, encodeAll]
  · intro hne; simp [p3] at hne
  · simp only [fhistAfter, List.nil_append]; split <;> rfl
  · simp only [fhistAfter, List.nil_append]; split <;> rfl


/-! ### Part 3: where the failing call sits in the commit script -/

theorem cut_cases {α : Type} (A B pre : List α) (e : α) (post : List α)
    (h : A ++ B = pre ++ e :: post) :
    (∃ post', A = pre ++ e :: post' ∧ post = post' ++ B) ∨
    (∃ pre', pre = A ++ pre' ∧ B = pre' ++ e :: post) := by
  rcases List.append_eq_append_iff.mp h with ⟨a', h1, h2⟩ | ⟨c', h1, h2⟩
  · exact Or.inr ⟨a', h1, h2⟩
  · cases c' with
    | nil =>
      right
      exact ⟨[], by simpa using h1.symm, by simpa using h2.symm⟩
    | cons x xs =>
      simp only [List.cons_append, List.cons.injEq] at h2
      obtain ⟨hx, hp⟩ := h2
      subst hx
      exact Or.inl ⟨xs, h1, hp⟩

theorem cut1 {α : Type} (x : α) (pre : List α) (e : α) (post : List α)
    (h : [x] = pre ++ e :: post) : pre = [] ∧ e = x := by
  cases pre with
  | nil => simp at h; exact ⟨rfl, h.1.symm⟩
  | cons a as => simp at h

theorem cut2 {α : Type} (x y : α) (pre : List α) (e : α) (post : List α)
    (h : [x, y] = pre ++ e :: post) : (pre = [] ∧ e = x) ∨ (pre = [x] ∧ e = y) := by
  cases pre with
  | nil => simp at h; exact Or.inl ⟨rfl, h.1.symm⟩
  | cons a as =>
    simp only [List.cons_append, List.cons.injEq] at h
    obtain ⟨ha, h⟩ := h
    obtain ⟨h1, h2⟩ := cut1 y as e post h
    right; subst ha h1; exact ⟨rfl, h2⟩

theorem cut3 {α : Type} (x y z : α) (pre : List α) (e : α) (post : List α)
    (h : [x, y, z] = pre ++ e :: post) :
    (pre = [] ∧ e = x) ∨ (pre = [x] ∧ e = y) ∨ (pre = [x, y] ∧ e = z) := by
  cases pre with
  | nil => simp at h; exact Or.inl ⟨rfl, h.1.symm⟩
  | cons a as =>
    simp only [List.cons_append, List.cons.injEq] at h
    obtain ⟨ha, h⟩ := h
    subst ha
    rcases cut2 y z as e post h with ⟨h1, h2⟩ | ⟨h1, h2⟩
    · right; left; subst h1; exact ⟨rfl, h2⟩
    · right; right; subst h1; exact ⟨rfl, h2⟩

/-- the events of a checkpoint script: index.tmp is built and renamed, segments are unlinked -/
theorem checkpointScript_shapes (reason : CkptReason) (m : Mem) (d : Disk) :
    ∀ e ∈ (checkpointScript reason m d).1,
      e = .creat .indexTmp true ∨ (∃ bs, e = .write .indexTmp bs) ∨ e = .sync .indexTmp ∨
      e = .rename .indexTmp .index ∨ ∃ j, e = .unlink (.seg j) := by
  intro e he
  unfold checkpointScript at he
  split at he
  · cases he
  · simp only [List.mem_append, List.mem_cons, List.not_mem_nil, or_false] at he
    rcases he with (he | he | he | he) | he
    · exact Or.inl he
    · exact Or.inr (Or.inl ⟨_, he⟩)
    · exact Or.inr (Or.inr (Or.inl he))
    · exact Or.inr (Or.inr (Or.inr (Or.inl he)))
    · split at he
      · cases he
      · simp only [List.mem_map] at he
        obtain ⟨j, _, rfl⟩ := he
        exact Or.inr (Or.inr (Or.inr (Or.inr ⟨j, rfl⟩)))

theorem Mem.meta_self (m : Mem) : m.meta m.idx.lastPersisted m.idx.serializedSize = m := rfl

/-- the record is durable and applied; the failing call is a blob deletion or a call of the
    rollover checkpoint: memory holds the new index (with whatever bookkeeping the error path
    left), the disk is the script up to the failing call -/
theorem applied_fpre (so : StrictOrder kind.lt) (m1 : Mem) (fs : FSys (KMap Bytes) Bytes)
    (h : Hist Bytes) (d dAny : Disk) (t : FTied H kind sz N m1 fs h d) (hsave : SaveOK kind m1.idx)
    (hver : m1.next < U64) (dels : List Ev) (hdels : ∀ e ∈ dels, ∃ hh, e = Ev.unlink (.cas hh))
    (roll : Prop) [Decidable roll] (lp ss : Nat) :
    AllPre (FPost H kind sz N (m1.meta lp ss) h.hm h.failed) d
      (dels ++ (if roll then checkpointScript .rollover m1 dAny else ([], m1)).1) := by
  have hdfree : ∀ e ∈ dels, e.segFree = true ∧ e.indexFree = true := by
    intro e he
    obtain ⟨hh, rfl⟩ := hdels e he
    simp [Ev.segFree, Ev.indexFree]
  refine allPre_append (FPost H kind sz N (m1.meta lp ss) h.hm h.failed) _ _ _
    (allPre_ffree H kind sz N _ fs h d (t.meta H kind sz N m1 fs h d lp ss) dels hdfree) ?_
  have t4 := t.freeAll H kind sz N m1 fs h d dels hdfree
  by_cases hr : roll
  · rw [if_pos hr]
    exact checkpoint_fpre H kind sz N so .rollover m1 fs h _ dAny t4 hsave hver lp ss
  · rw [if_neg hr]
    exact allPre_nil _ _ ⟨fs, h, t4.meta H kind sz N m1 fs h _ lp ss, rfl, rfl⟩


theorem FCfg.of_cfg (sys : Sys (KMap Bytes) Bytes) (hist : Recs Bytes) (d : Disk)
    (c : Cfg H kind sz N sys hist d) (failed : Recs Bytes) :
    FCfg H kind sz N ⟨sys, []⟩ ⟨hist, hist, failed⟩ d := by
  have g := c.good
  obtain ⟨m1, m2, m3, m4⟩ := g.mem c.up
  refine ⟨?_, c.rel, c.histOK, by simp, c.up, ?_⟩
  · exact {
      ginv := g.ginv, sorted := g.sorted, placed := g.placed, sub := List.Sublist.refl _
      fromFailed := fun e he => Or.inl he
      runs := g.runs, pendFailed := by simp, pendOK := by simp, down := by simp
      pendIncr := List.Pairwise.nil, pendAbove := by simp
      mem := fun _ => ⟨m1, m2, m3, m4, by simp⟩ }
  · intro i recs hg
    rcases c.unsealed i recs hg with x | ⟨e, he, hlt⟩
    · exact Or.inl x
    · right
      have := m2 e he
      have := segOf_mono N (show e.1 + 1 ≤ sys.next by omega)
      show i < Ghost.segOf N sys.next
      omega

theorem walEventsBuf_clean (m : Mem) (p : Bytes) (hb : m.walBuf = []) :
    walEventsBuf H N m p = rollEvents m.active (Ghost.segOf N m.next) ++
      [Ev.write (.seg (Ghost.segOf N m.next)) (encodeEntry H ⟨m.next, p⟩),
       .sync (.seg (Ghost.segOf N m.next))] := by
  unfold walEventsBuf rollEvents
  have hb1 : ∀ x : Bytes, bufWrites [] x = [x] := by intro x; simp [bufWrites]
  by_cases hs : m.active = some (Ghost.segOf N m.next)
  · simp [hs, hb, hb1]
  · simp only [hs, ↓reduceIte, hb, hb1]
    cases m.active <;> simp

/-- what a failed commit leaves behind, stated for the continuation: memory and disk are tied to
    the machine with failed appends; either memory is unchanged and the operation's record is the
    (only) failed one, or memory holds the operation and nothing failed as far as the log goes -/
def FaultPost (m : Mem) (hist : Recs Bytes) (p : Bytes) (op : Op Bytes) (m2 : Mem) (d2 : Disk) : Prop :=
  ∃ fs h, FTied H kind sz N m2 fs h d2 ∧ m2.next = m.next + 1 ∧
    ((h.hm = hist ∧ h.failed = [(m.next, p)] ∧ m2.idx.map = m.idx.map) ∨
     (h.hm = hist ++ [(m.next, p)] ∧ h.failed = [] ∧ m2.idx.map = mapApply kind.lt m.idx.map op))


end CasModel
