import CasModel.Keys
import CasModel.Proofs.MapLemmas
/-
  KeyOrder: the key order of every key kind is a strict total order on ALL byte strings.
  This discharges, once and for all, the hypothesis `StrictOrder kind.lt` that the index theorems
  carry (BTreeMap's contract on `Ord`).  For integer kinds the order is the numeric one on keys of
  the kind's width (the only keys an index of that kind can hold); it is extended to byte strings
  of other lengths (length first, bytes last) only so that the law holds without a side condition.
-/
namespace CasModel

theorem u8_lt_irrefl (a : UInt8) : ¬ a < a := by
  simp

theorem u8_eq_of_not_lt (a b : UInt8) (h1 : ¬ a < b) (h2 : ¬ b < a) : a = b := by
  have h1' : b ≤ a := UInt8.not_lt.mp h1
  have h2' : a ≤ b := UInt8.not_lt.mp h2
  exact UInt8.le_antisymm h2' h1'

theorem bytesLt_irrefl (a : Bytes) : bytesLt a a = false := by
  induction a with
  | nil => rfl
  | cons x xs ih => simp [bytesLt, ih]

theorem bytesLt_total (a b : Bytes) : bytesLt a b = true ∨ a = b ∨ bytesLt b a = true := by
  induction a generalizing b with
  | nil =>
    cases b with
    | nil => right; left; rfl
    | cons y ys => left; rfl
  | cons x xs ih =>
    cases b with
    | nil => right; right; rfl
    | cons y ys =>
      simp only [bytesLt]
      by_cases c1 : x < y
      · left; simp [c1]
      · by_cases c2 : y < x
        · right; right; simp [c2]
        · have e := u8_eq_of_not_lt x y c1 c2
          subst e
          simp only [c1, ↓reduceIte]
          rcases ih ys with h | h | h
          · left; exact h
          · right; left; rw [h]
          · right; right; exact h

theorem bytesLt_trans (a b c : Bytes) (h1 : bytesLt a b = true) (h2 : bytesLt b c = true) :
    bytesLt a c = true := by
  induction a generalizing b c with
  | nil =>
    cases b with
    | nil => simp [bytesLt] at h1
    | cons y ys =>
      cases c with
      | nil => simp [bytesLt] at h2
      | cons z zs => rfl
  | cons x xs ih =>
    cases b with
    | nil => simp [bytesLt] at h1
    | cons y ys =>
      cases c with
      | nil => simp [bytesLt] at h2
      | cons z zs =>
        simp only [bytesLt] at h1 h2 ⊢
        by_cases c1 : x < y
        · by_cases c2 : y < z
          · have : x < z := UInt8.lt_trans c1 c2
            simp [this]
          · simp only [c2, ↓reduceIte] at h2
            by_cases c3 : z < y
            · simp [c3] at h2
            · have e := u8_eq_of_not_lt y z c2 c3
              subst e
              simp [c1]
        · simp only [c1, ↓reduceIte] at h1
          by_cases c1' : y < x
          · simp [c1'] at h1
          · have e := u8_eq_of_not_lt x y c1 c1'
            subst e
            simp only [c1', ↓reduceIte] at h1
            by_cases c2 : x < z
            · simp [c2]
            · simp only [c2, ↓reduceIte] at h2 ⊢
              by_cases c3 : z < x
              · simp [c3] at h2
              · simp only [c3, ↓reduceIte] at h2 ⊢
                exact ih ys zs h1 h2

theorem bytesLt_strict : StrictOrder bytesLt :=
  ⟨bytesLt_irrefl, bytesLt_trans, bytesLt_total⟩

/-- a strict total order from a rank into a linear order, refined by `bytesLt` on ties -/
theorem strict_of_rank {R : Type} (rlt : R → R → Prop) [DecidableRel rlt]
    (irr : ∀ a, ¬ rlt a a) (tr : ∀ a b c, rlt a b → rlt b c → rlt a c)
    (tot : ∀ a b, rlt a b ∨ a = b ∨ rlt b a) (rank : Bytes → R) :
    StrictOrder (fun a b => if rlt (rank a) (rank b) then true
                            else if rlt (rank b) (rank a) then false else bytesLt a b) := by
  refine ⟨?_, ?_, ?_⟩
  · intro a
    simp [irr, bytesLt_irrefl]
  · intro a b c h1 h2
    by_cases ab : rlt (rank a) (rank b)
    · by_cases bc : rlt (rank b) (rank c)
      · simp [tr _ _ _ ab bc]
      · simp only [bc, ↓reduceIte] at h2
        by_cases cb : rlt (rank c) (rank b)
        · simp [cb] at h2
        · have e : rank b = rank c := by
            rcases tot (rank b) (rank c) with t | t | t
            · exact absurd t bc
            · exact t
            · exact absurd t cb
          rw [← e]; simp [ab]
    · simp only [ab, ↓reduceIte] at h1
      by_cases ba : rlt (rank b) (rank a)
      · simp [ba] at h1
      · simp only [ba, ↓reduceIte] at h1
        have e : rank a = rank b := by
          rcases tot (rank a) (rank b) with t | t | t
          · exact absurd t ab
          · exact t
          · exact absurd t ba
        rw [e]
        by_cases bc : rlt (rank b) (rank c)
        · simp [bc]
        · simp only [bc, ↓reduceIte] at h2 ⊢
          by_cases cb : rlt (rank c) (rank b)
          · simp [cb] at h2
          · simp only [cb, ↓reduceIte] at h2 ⊢
            exact bytesLt_trans a b c h1 h2
  · intro a b
    by_cases ab : rlt (rank a) (rank b)
    · left; simp [ab]
    · by_cases ba : rlt (rank b) (rank a)
      · right; right; simp [ba]
      · simp only [ab, ba, ↓reduceIte]
        rcases bytesLt_total a b with t | t | t
        · left; exact t
        · right; left; exact t
        · right; right
          have : ¬ rlt (rank b) (rank a) := ba
          simp [ab, ba, t]

end CasModel

namespace CasModel

theorem pairLt_irrefl (a : Nat × Int) : ¬ pairLt a a := by
  unfold pairLt; omega

theorem pairLt_trans (a b c : Nat × Int) (h1 : pairLt a b) (h2 : pairLt b c) : pairLt a c := by
  unfold pairLt at *; omega

theorem pairLt_total (a b : Nat × Int) : pairLt a b ∨ a = b ∨ pairLt b a := by
  unfold pairLt
  obtain ⟨a1, a2⟩ := a
  obtain ⟨b1, b2⟩ := b
  simp only [Prod.mk.injEq]
  omega

/-- **the key order of every kind is a strict total order** -/
theorem keyOrder_strict (kind : KeyKind) : StrictOrder kind.lt := by
  cases kind with
  | uint w =>
    exact strict_of_rank pairLt pairLt_irrefl pairLt_trans pairLt_total
      (fun a => (a.length, (leNat a : Int)))
  | sint w =>
    exact strict_of_rank pairLt pairLt_irrefl pairLt_trans pairLt_total
      (fun a => (a.length, signedVal a))
  | bytes => exact bytesLt_strict
  | string => exact bytesLt_strict
  | fixed n => exact bytesLt_strict

/-- on keys of the kind's width the order is the numeric one (what `Ord` of the Rust type gives) -/
theorem keyOrder_uint_valid (w : Nat) (a b : Bytes) (ha : a.length = w) (hb : b.length = w)
    (hne : leNat a ≠ leNat b) : KeyKind.lt (.uint w) a b = decide (leNat a < leNat b) := by
  simp only [KeyKind.lt, pairLt, ha, hb, Nat.lt_irrefl, true_and, false_or, Int.ofNat_lt]
  by_cases c : leNat a < leNat b
  · simp [c]
  · have : leNat b < leNat a := by omega
    simp [c, this]

theorem keyOrder_sint_valid (w : Nat) (a b : Bytes) (ha : a.length = w) (hb : b.length = w)
    (hne : signedVal a ≠ signedVal b) : KeyKind.lt (.sint w) a b = decide (signedVal a < signedVal b) := by
  simp only [KeyKind.lt, pairLt, ha, hb, Nat.lt_irrefl, true_and, false_or]
  by_cases c : signedVal a < signedVal b
  · simp [c]
  · have : signedVal b < signedVal a := by omega
    simp [c, this]

end CasModel
