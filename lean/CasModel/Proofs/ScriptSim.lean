import CasModel.Proofs.Simulation
/-
  ScriptSim: the event scripts of Store.lean (`logAndApply` = the commit of a put / remove /
  remove_range incl. segment rollover and rollover checkpoint; `checkpointScript`) simulated by
  the record-level machine, event by event.

  Main results (`logAndApply_crash_atomic`, `checkpoint_crash_safe`): from a store whose memory
  and disk are tied to a machine state, after ANY prefix of the script the disk recovers — by the
  byte-level recovery function `logical`, without panic — to the key map after the logged history
  or after that history plus the operation's single record (nothing else), and after the whole
  script memory and disk are tied again (so the statement composes over histories).
-/
namespace CasModel
open Ghost

/-! ### prefixes of scripts -/

def AllPre (P : Disk → Prop) (d : Disk) (evs : List Ev) : Prop :=
  ∀ j, P (d.applyAll (evs.take j))

theorem allPre_nil (P : Disk → Prop) (d : Disk) (h : P d) : AllPre P d [] := by
  intro j; simpa [Disk.applyAll] using h

theorem allPre_cons (P : Disk → Prop) (d : Disk) (e : Ev) (es : List Ev) (h0 : P d)
    (h : AllPre P (d.apply e) es) : AllPre P d (e :: es) := by
  intro j
  cases j with
  | zero => simpa [Disk.applyAll] using h0
  | succ j => simpa [Disk.applyAll_cons] using h j

theorem allPre_append (P : Disk → Prop) (d : Disk) (a b : List Ev) (ha : AllPre P d a)
    (hb : AllPre P (d.applyAll a) b) : AllPre P d (a ++ b) := by
  intro j
  rw [List.take_append, Disk.applyAll_append]
  by_cases c : j ≤ a.length
  · have : j - a.length = 0 := by omega
    rw [this, List.take_zero]
    exact ha j
  · have : a.take j = a := List.take_of_length_le (by omega)
    rw [this]
    exact hb (j - a.length)

theorem allPre_last (P : Disk → Prop) (d : Disk) (evs : List Ev) (h : AllPre P d evs) :
    P (d.applyAll evs) := by
  have := h evs.length
  rwa [List.take_length] at this

variable (H : Bytes → Bytes) (kind : KeyKind) (sz : Bytes → Nat) (N : Nat)

/-- the disk abstracts to a Good machine state whose logged history is one of `hists` -/
def Recoverable (hists : List (Recs Bytes)) (d : Disk) : Prop :=
  ∃ sys hist, hist ∈ hists ∧ DCfg H kind sz N sys hist d

theorem Cfg.toRec {sys : Sys (KMap Bytes) Bytes} {hist : Recs Bytes} {d : Disk}
    (c : Cfg H kind sz N sys hist d) (hists : List (Recs Bytes)) (h : hist ∈ hists) :
    Recoverable H kind sz N hists d := ⟨sys, hist, h, c.toDCfg⟩

theorem DCfg.toRec {sys : Sys (KMap Bytes) Bytes} {hist : Recs Bytes} {d : Disk}
    (c : DCfg H kind sz N sys hist d) (hists : List (Recs Bytes)) (h : hist ∈ hists) :
    Recoverable H kind sz N hists d := ⟨sys, hist, h, c⟩

theorem allPre_free (sys : Sys (KMap Bytes) Bytes) (hist : Recs Bytes) (d : Disk)
    (c : Cfg H kind sz N sys hist d) (hists : List (Recs Bytes)) (hh : hist ∈ hists)
    (evs : List Ev) (h : ∀ e ∈ evs, e.segFree = true ∧ e.indexFree = true) :
    AllPre (Recoverable H kind sz N hists) d evs := by
  induction evs generalizing d with
  | nil => exact allPre_nil _ _ (c.toRec H kind sz N hists hh)
  | cons e evs ih =>
    apply allPre_cons _ _ _ _ (c.toRec H kind sz N hists hh)
    exact ih _ (c.free H kind sz N sys hist d e (h e (by simp)).1 (h e (by simp)).2)
      (fun e' he' => h e' (by simp [he']))

/-! ### memory tied to the machine -/

structure Tied (m : Mem) (sys : Sys (KMap Bytes) Bytes) (hist : Recs Bytes) (d : Disk) : Prop where
  cfg : Cfg H kind sz N sys hist d
  kindEq : m.cfg.kind = kind
  nEq : m.cfg.N = N
  next : sys.next = m.next
  st : sys.st = m.idx.map
  inv : IdxInv kind.lt sz m.idx
  active : ∀ a, m.active = some a →
    a = Ghost.segOf N (m.next - 1) ∧ 1 < m.next ∧ (∃ p, (m.next - 1, p) ∈ hist) ∧
      ∃ old, segGet sys.g.segs a = some old
  persisted : m.idx.lastPersisted = sys.g.snapVer

theorem idxInv_meta (s : IndexState Bytes) (inv : IdxInv kind.lt sz s) (lp ss : Nat) :
    IdxInv kind.lt sz { s with lastPersisted := lp, serializedSize := ss } :=
  ⟨inv.sorted, inv.mapSz, inv.rcNodup, inv.rcOK, inv.unique, inv.total⟩

/-! ### the prune list of a checkpoint -/

theorem prune_block (sys : Sys (KMap Bytes) Bytes) (hist : Recs Bytes) (d : Disk)
    (c : Cfg H kind sz N sys hist d) (hists : List (Recs Bytes)) (hh : hist ∈ hists)
    (js : List Nat) (hjs : ∀ j ∈ js, j < Ghost.segOf N sys.g.snapVer) :
    AllPre (Recoverable H kind sz N hists) d (js.map (fun j => Ev.unlink (.seg j))) ∧
    ∃ sys', sys'.next = sys.next ∧ sys'.st = sys.st ∧ sys'.g.snapVer = sys.g.snapVer ∧
      (∀ i, (∀ j ∈ js, i ≠ j) → segGet sys'.g.segs i = segGet sys.g.segs i) ∧
      Cfg H kind sz N sys' hist (d.applyAll (js.map (fun j => Ev.unlink (.seg j)))) := by
  induction js generalizing sys d with
  | nil => exact ⟨allPre_nil _ _ (c.toRec H kind sz N hists hh), sys, rfl, rfl, rfl, fun _ _ => rfl, c⟩
  | cons j js ih =>
    obtain ⟨sys1, hact, h1, h2, h3, c1⟩ := c.prune H kind sz N sys hist d j (hjs j (by simp))
    obtain ⟨a, sys', g1, g2, g3, g4, c'⟩ := ih sys1 _ c1 (fun j' hj' => by
      rw [h3]; exact hjs j' (by simp [hj']))
    refine ⟨allPre_cons _ _ _ _ (c.toRec H kind sz N hists hh) a, sys', by rw [g1, h1], by rw [g2, h2],
      by rw [g3, h3], ?_, c'⟩
    intro i hi
    rw [g4 i (fun j' hj' => hi j' (by simp [hj']))]
    -- sys1's segments are sys's minus j
    simp only [act, hjs j (by simp), ↓reduceIte, Option.some.injEq] at hact
    subst hact
    simp only
    rw [segGet_removeSeg _ c.rel.segs.sorted]
    have : ¬ i = j := hi j (by simp)
    simp [this]

/-! ### checkpoint -/

/-- what `save` needs of the state it serialises (keys decode, fields fit) at every version -/
def SaveOK (s : IndexState Bytes) : Prop := ∀ ver, ver < U64 → Saveable kind s ver

theorem checkpoint_sim (so : StrictOrder kind.lt) (reason : CkptReason) (m : Mem)
    (sys : Sys (KMap Bytes) Bytes) (hist : Recs Bytes) (d dAny : Disk)
    (t : Tied H kind sz N m sys hist d) (hsave : SaveOK kind m.idx) (hver : m.next < U64)
    (hists : List (Recs Bytes)) (hh : hist ∈ hists) :
    AllPre (Recoverable H kind sz N hists) d (checkpointScript reason m dAny).1 ∧
    ∃ sys', Tied H kind sz N (checkpointScript reason m dAny).2 sys' hist
      (d.applyAll (checkpointScript reason m dAny).1) := by
  unfold checkpointScript
  cases hct : ckptTarget reason m.next m.idx.lastPersisted with
  | none =>
    simp only
    exact ⟨allPre_nil _ _ (t.cfg.toRec H kind sz N hists hh), sys, t⟩
  | some tv =>
    simp only
    -- the target is the last assigned version
    have htv : tv = m.next - 1 ∧ 1 < m.next := by
      have key : ∀ b : Bool, (if (b && decide (m.next > 1)) = true then some (m.next - 1) else none)
          = some tv → tv = m.next - 1 ∧ 1 < m.next := by
        intro b hb
        by_cases hc : (b && decide (m.next > 1)) = true
        · simp only [hc, ↓reduceIte, Option.some.injEq] at hb
          simp only [Bool.and_eq_true, decide_eq_true_eq] at hc
          exact ⟨hb.symm, hc.2⟩
        · simp [hc] at hb
      exact key _ hct
    obtain ⟨htv1, htv2⟩ := htv
    let bytes := serIndex (entriesOf m.idx.map) tv
    -- the three events that build index.tmp
    have c0 := t.cfg
    have e1 : (Ev.creat .indexTmp true).segFree = true ∧ (Ev.creat .indexTmp true).indexFree = true := by
      simp [Ev.segFree, Ev.indexFree]
    have e2 : (Ev.write .indexTmp bytes).segFree = true ∧ (Ev.write .indexTmp bytes).indexFree = true := by
      simp [Ev.segFree, Ev.indexFree]
    have e3 : (Ev.sync .indexTmp).segFree = true ∧ (Ev.sync .indexTmp).indexFree = true := by
      simp [Ev.segFree, Ev.indexFree]
    have c1 := c0.free H kind sz N sys hist d _ e1.1 e1.2
    have c2 := c1.free H kind sz N sys hist _ _ e2.1 e2.2
    have c3 := c2.free H kind sz N sys hist _ _ e3.1 e3.2
    -- contents of index.tmp before the rename
    have htmp : ∃ synced, (((d.apply (.creat .indexTmp true)).apply (.write .indexTmp bytes)).apply
        (.sync .indexTmp)).get .indexTmp = some ⟨bytes, synced⟩ := by
      refine ⟨bytes.length, ?_⟩
      rw [Disk.get_sync, Disk.get_write, Disk.get_creat]
      simp only [↓reduceIte]
      cases d.get .indexTmp <;> simp
    obtain ⟨synced, htmp⟩ := htmp
    have hsv : Saveable kind m.idx (sys.next - 1) := by
      rw [t.next]; exact hsave _ (by omega)
    have htmp' : (((d.apply (.creat .indexTmp true)).apply (.write .indexTmp bytes)).apply
        (.sync .indexTmp)).get .indexTmp = some ⟨serIndex (entriesOf m.idx.map) (sys.next - 1), synced⟩ := by
      rw [htmp, t.next, ← htv1]
    obtain ⟨sys4, _, n4, s4, v4, g4, c4⟩ := c3.install H kind sz N so sys hist _ m.idx t.inv t.st.symm
      (by rw [t.next]; exact htv2) hsv synced htmp'
    -- prune
    let prune : List Ev :=
      if m.idx.lastPersisted ≠ 0 ∧ tv ≤ m.idx.lastPersisted then []
      else ((segIds dAny).filter (· < segOf m.cfg.N tv)).map (fun j => Ev.unlink (.seg j))
    have hprune : ∃ js : List Nat, prune = js.map (fun j => Ev.unlink (.seg j)) ∧
        ∀ j ∈ js, j < Ghost.segOf N sys4.g.snapVer := by
      by_cases hc : m.idx.lastPersisted ≠ 0 ∧ tv ≤ m.idx.lastPersisted
      · exact ⟨[], by simp [prune, hc], by simp⟩
      · refine ⟨(segIds dAny).filter (· < segOf m.cfg.N tv), by simp [prune, hc], ?_⟩
        intro j hj
        simp only [List.mem_filter, decide_eq_true_eq] at hj
        rw [v4, t.next, ← htv1, ← t.nEq]
        exact hj.2
    obtain ⟨js, hjs1, hjs2⟩ := hprune
    obtain ⟨pa, sys5, n5, s5, v5, g5, c5⟩ := prune_block H kind sz N sys4 hist _ c4 hists hh js hjs2
    have hsplit : [Ev.creat .indexTmp true, .write .indexTmp bytes, .sync .indexTmp,
        .rename .indexTmp .index] ++ prune =
        [Ev.creat .indexTmp true] ++ ([Ev.write .indexTmp bytes] ++ ([Ev.sync .indexTmp] ++
          ([Ev.rename .indexTmp .index] ++ js.map (fun j => Ev.unlink (.seg j))))) := by
      rw [hjs1]; rfl
    show AllPre _ d ([Ev.creat .indexTmp true, .write .indexTmp bytes, .sync .indexTmp,
        .rename .indexTmp .index] ++ prune) ∧ _
    rw [hsplit]
    refine ⟨?_, sys5, ?_⟩
    · apply allPre_cons _ _ _ _ (c0.toRec H kind sz N hists hh)
      apply allPre_cons _ _ _ _ (c1.toRec H kind sz N hists hh)
      apply allPre_cons _ _ _ _ (c2.toRec H kind sz N hists hh)
      apply allPre_cons _ _ _ _ (c3.toRec H kind sz N hists hh)
      exact pa
    · simp only [List.singleton_append, Disk.applyAll_cons]
      refine ⟨c5, t.kindEq, t.nEq, by rw [n5, n4, t.next], by rw [s5, s4, t.st],
        idxInv_meta kind sz m.idx t.inv _ _, ?_, ?_⟩
      · intro a ha
        obtain ⟨h1, h1', hp, old, h2⟩ := t.active a ha
        refine ⟨h1, h1', hp, old, ?_⟩
        -- the active segment is not pruned: every pruned id is below the segment of version tv
        rw [g5 a (fun j hj => by
          have := hjs2 j hj
          rw [v4, t.next] at this
          omega), g4]
        exact h2
      · show tv = sys5.g.snapVer
        rw [v5, v4, t.next, htv1]

end CasModel

namespace CasModel
open Ghost

variable (H : Bytes → Bytes) (kind : KeyKind) (sz : Bytes → Nat) (N : Nat)

/-- the segment part of a commit: seal the previous segment if the version moves on, make the
    target segment file exist -/
def rollEvents (active : Option Nat) (target : Nat) : List Ev :=
  if active = some target then []
  else (match active with
        | some old => [Ev.write (.seg old) sentinel, .sync (.seg old)]
        | none => []) ++ [Ev.creat (.seg target) false]

theorem roll_sim (m : Mem) (sys : Sys (KMap Bytes) Bytes) (hist : Recs Bytes) (d : Disk)
    (t : Tied H kind sz N m sys hist d) (hists : List (Recs Bytes)) (hh : hist ∈ hists) :
    AllPre (Recoverable H kind sz N hists) d (rollEvents m.active (Ghost.segOf N m.next)) ∧
    ∃ sys1, sys1.next = m.next ∧ sys1.st = sys.st ∧ sys1.g.snapVer = sys.g.snapVer ∧
      Cfg H kind sz N sys1 hist (d.applyAll (rollEvents m.active (Ghost.segOf N m.next))) ∧
      ∃ old, segGet sys1.g.segs (Ghost.segOf N m.next) = some old := by
  unfold rollEvents
  by_cases hact : m.active = some (Ghost.segOf N m.next)
  · simp only [hact, ↓reduceIte]
    obtain ⟨_, _, _, old, ho⟩ := t.active _ hact
    exact ⟨allPre_nil _ _ (t.cfg.toRec H kind sz N hists hh), sys, t.next, rfl, rfl, t.cfg, old, ho⟩
  · simp only [hact, ↓reduceIte]
    cases ha : m.active with
    | none =>
      simp only [List.nil_append]
      obtain ⟨sys1, _, n1, s1, v1, c1, ho⟩ := t.cfg.ensure H kind sz N sys hist d false (Or.inl rfl)
      rw [t.next] at c1 ho
      refine ⟨allPre_cons _ _ _ _ (t.cfg.toRec H kind sz N hists hh)
        (allPre_nil _ _ (c1.toRec H kind sz N hists hh)), sys1, by rw [n1, t.next], s1, v1, c1, ho⟩
    | some old =>
      obtain ⟨ho1, ho2, ⟨pp, hpp⟩, _⟩ := t.active old ha
      have hlt : ∃ e ∈ hist, old < Ghost.segOf N (e.1 + 1) := by
        refine ⟨(m.next - 1, pp), hpp, ?_⟩
        have hle : old ≤ Ghost.segOf N m.next := by
          rw [ho1]; exact segOf_mono N (by omega)
        have hne : old ≠ Ghost.segOf N m.next := by
          intro c; rw [ha, c] at hact; exact hact rfl
        have e1 : m.next - 1 + 1 = m.next := by omega
        simp only [e1]
        omega
      have c1 := t.cfg.seal H kind sz N sys hist d old hlt
      have c2 := c1.free H kind sz N sys hist _ (.sync (.seg old)) (by simp [Ev.segFree])
        (by simp [Ev.indexFree])
      obtain ⟨sys1, _, n1, s1, v1, c3, ho⟩ := c2.ensure H kind sz N sys hist _ false (Or.inl rfl)
      rw [t.next] at c3 ho
      refine ⟨?_, sys1, by rw [n1, t.next], s1, v1, c3, ho⟩
      apply allPre_cons _ _ _ _ (t.cfg.toRec H kind sz N hists hh)
      apply allPre_cons _ _ _ _ (c1.toRec H kind sz N hists hh)
      apply allPre_cons _ _ _ _ (c2.toRec H kind sz N hists hh)
      exact allPre_nil _ _ (c3.toRec H kind sz N hists hh)

theorem logAndApply_eq (m : Mem) (d : Disk) (op : Op Bytes) (raw : RawOp) (idx' : IndexState Bytes)
    (unref : List Bytes) (ha : applyOp m.cfg.kind.lt m.idx op = .ok (idx', unref)) :
    ∃ dels ck, (∀ e ∈ dels, ∃ h, e = Ev.unlink (.cas h)) ∧
      (ck = (if (if m.next > 1 then segOf m.cfg.N (m.next - 1) else 0) ≠ segOf m.cfg.N m.next
             then checkpointScript .rollover
               { m with idx := idx', next := m.next + 1, active := some (segOf m.cfg.N m.next) }
               (((d.applyAll (rollEvents m.active (segOf m.cfg.N m.next) ++
                  [Ev.write (.seg (segOf m.cfg.N m.next)) (encodeEntry H ⟨m.next, serWalOp raw⟩),
                   .sync (.seg (segOf m.cfg.N m.next))])).applyAll dels))
             else ([], { m with idx := idx', next := m.next + 1,
                                active := some (segOf m.cfg.N m.next) }))) ∧
      logAndApply H m d op raw = .ok
        (rollEvents m.active (segOf m.cfg.N m.next) ++
          [Ev.write (.seg (segOf m.cfg.N m.next)) (encodeEntry H ⟨m.next, serWalOp raw⟩),
           .sync (.seg (segOf m.cfg.N m.next))] ++ dels ++ ck.1, ck.2) := by
  unfold logAndApply
  simp only [ha]
  refine ⟨_, _, ?_, rfl, rfl⟩
  intro e he
  simp only [List.mem_map, List.mem_filter] at he
  obtain ⟨h, _, rfl⟩ := he
  exact ⟨h, rfl⟩

end CasModel

namespace CasModel
open Ghost

variable (H : Bytes → Bytes) (kind : KeyKind) (sz : Bytes → Nat) (N : Nat)

/-- **one logged operation, event by event.** From tied memory/disk, for the script of any
    put / remove / remove_range commit (segment rollover and rollover checkpoint included):
    after EVERY prefix of the script the disk is recoverable to the old history or to the old
    history plus this operation's single record, and after the whole script memory and disk are
    tied again, to the extended history. -/
theorem logAndApply_sim (so : StrictOrder kind.lt) (hH : Hash32 H) (m : Mem)
    (sys : Sys (KMap Bytes) Bytes) (hist : Recs Bytes) (d : Disk)
    (t : Tied H kind sz N m sys hist d) (op : Op Bytes) (raw : RawOp)
    (hraw : raw.WF) (hconv : fromRaw kind raw = some op) (hop : OpOK sz op)
    (hwf : (⟨m.next, serWalOp raw⟩ : Rec).WF)
    (hsave : ∀ idx' un, applyOp kind.lt m.idx op = .ok (idx', un) → SaveOK kind idx')
    (hver : m.next + 1 < U64) :
    ∃ evs m', logAndApply H m d op raw = .ok (evs, m') ∧
      AllPre (Recoverable H kind sz N [hist, hist ++ [(m.next, serWalOp raw)]]) d evs ∧
      ∃ sys', Tied H kind sz N m' sys' (hist ++ [(m.next, serWalOp raw)]) (d.applyAll evs) := by
  obtain ⟨idx', unref, ha, sok, _⟩ := applyOp_spec so sz m.idx t.inv op hop
  have ha' : applyOp m.cfg.kind.lt m.idx op = .ok (idx', unref) := by rw [t.kindEq]; exact ha
  obtain ⟨dels, ck, hdels, hck, hrun⟩ := logAndApply_eq H m d op raw idx' unref ha'
  have hseg : segOf m.cfg.N m.next = Ghost.segOf N m.next := by rw [t.nEq]; rfl
  rw [hseg] at hrun hck
  refine ⟨_, _, hrun, ?_⟩
  -- the record
  let p := serWalOp raw
  have hp : RecOK kind sz p :=
    ⟨raw, op, by have := C16_walop_roundtrip raw hraw []; rwa [List.append_nil] at this, hconv, hop⟩
  let hists := [hist, hist ++ [(m.next, p)]]
  have hh0 : hist ∈ hists := by simp [hists]
  have hh1 : hist ++ [(m.next, p)] ∈ hists := by simp [hists]
  -- roll
  obtain ⟨pre1, sys1, n1, s1, v1, c1, old, ho⟩ := roll_sim H kind sz N m sys hist d t hists hh0
  -- append + sync
  have hwf' : (⟨sys1.next, p⟩ : Rec).WF := by rw [n1]; exact hwf
  rw [← n1] at ho
  obtain ⟨sys2, _, n2, st2, v2, g2, c2⟩ := c1.append H kind sz N hH sys1 hist _ p hp hwf' old ho
  rw [n1] at c2 g2 n2
  have c3 := c2.free H kind sz N sys2 _ _ (.sync (.seg (Ghost.segOf N m.next)))
    (by simp [Ev.segFree]) (by simp [Ev.indexFree])
  -- blob deletions
  have hdfree : ∀ e ∈ dels, e.segFree = true ∧ e.indexFree = true := by
    intro e he
    obtain ⟨h, rfl⟩ := hdels e he
    simp [Ev.segFree, Ev.indexFree]
  have c4 := c3.freeAll H kind sz N sys2 _ _ dels hdfree
  have pre4 := allPre_free H kind sz N sys2 _ _ c3 hists hh1 dels hdfree
  -- memory after the operation is tied to sys2
  have hmap : idx'.map = mapApply kind.lt m.idx.map op := applyOp_map kind.lt m.idx idx' op unref ha
  have hst2 : sys2.st = idx'.map := by
    have : stepM kind sys1.st p = .ok (mapApply kind.lt sys1.st op) := by
      obtain ⟨raw', op', h1, h2, _⟩ := hp
      have e1 : raw' = raw := by
        have := C16_walop_roundtrip raw hraw []
        rw [List.append_nil] at this
        rw [this] at h1; injection h1 with h1; exact h1.symm
      subst e1
      rw [hconv] at h2; injection h2 with h2; subst h2
      simp [stepM, h1, hconv]
    rw [this] at st2
    injection st2 with st2
    rw [← st2, s1, t.st, hmap]
  let m1 : Mem := { m with idx := idx', next := m.next + 1, active := some (Ghost.segOf N m.next) }
  let evs1 := rollEvents m.active (Ghost.segOf N m.next) ++
    [Ev.write (.seg (Ghost.segOf N m.next)) (encodeEntry H ⟨m.next, p⟩),
     .sync (.seg (Ghost.segOf N m.next))] ++ dels
  have hd4 : d.applyAll evs1 =
      ((((d.applyAll (rollEvents m.active (Ghost.segOf N m.next))).apply
        (.write (.seg (Ghost.segOf N m.next)) (encodeEntry H ⟨m.next, p⟩))).apply
        (.sync (.seg (Ghost.segOf N m.next)))).applyAll dels) := by
    simp only [evs1, Disk.applyAll_append, Disk.applyAll_cons, Disk.applyAll_nil]
  have t1 : Tied H kind sz N m1 sys2 (hist ++ [(m.next, p)]) (d.applyAll evs1) := by
    rw [hd4]
    refine ⟨c4, t.kindEq, t.nEq, n2, hst2, sok.inv, ?_, ?_⟩
    · intro a haa
      simp only [m1, Option.some.injEq] at haa
      subst haa
      refine ⟨by simp [m1], by simp only [m1]; have := hwf.1; simp only at this; omega,
        ⟨p, by simp [m1]⟩, _, g2⟩
    · show idx'.lastPersisted = sys2.g.snapVer
      rw [sok.persisted, t.persisted, v2, v1]
  -- prefixes of the first part
  have preA : AllPre (Recoverable H kind sz N hists) d evs1 := by
    apply allPre_append _ _ _ _ (allPre_append _ _ _ _ pre1 ?_) ?_
    · apply allPre_cons _ _ _ _ (c1.toRec H kind sz N hists hh0)
      apply allPre_cons _ _ _ _ (c2.toRec H kind sz N hists hh1)
      exact allPre_nil _ _ (c3.toRec H kind sz N hists hh1)
    · simp only [Disk.applyAll_append, Disk.applyAll_cons, Disk.applyAll_nil]
      exact pre4
  -- rollover checkpoint
  by_cases hroll : (if m.next > 1 then segOf m.cfg.N (m.next - 1) else 0) ≠ Ghost.segOf N m.next
  · rw [if_pos hroll] at hck
    have hsv : SaveOK kind m1.idx := hsave idx' unref ha
    obtain ⟨preB, sys', t'⟩ := checkpoint_sim H kind sz N so .rollover m1 sys2 _ (d.applyAll evs1)
      (((d.applyAll (rollEvents m.active (Ghost.segOf N m.next) ++
                  [Ev.write (.seg (Ghost.segOf N m.next)) (encodeEntry H ⟨m.next, serWalOp raw⟩),
                   .sync (.seg (Ghost.segOf N m.next))])).applyAll dels))
      t1 hsv (by simp only [m1]; omega) hists hh1
    rw [hck]
    exact ⟨allPre_append _ _ _ _ preA preB, sys', by rw [Disk.applyAll_append d evs1]; exact t'⟩
  · rw [if_neg hroll] at hck
    rw [hck]
    simp only [List.append_nil]
    exact ⟨preA, sys2, t1⟩

end CasModel

namespace CasModel
open Ghost

variable (H : Bytes → Bytes) (kind : KeyKind) (sz : Bytes → Nat) (N : Nat)

/-- memory tied to a machine state holds the ordered-map replay of the logged history -/
theorem Tied.mem_eq {m : Mem} {sys : Sys (KMap Bytes) Bytes} {hist : Recs Bytes} {d : Disk}
    (t : Tied H kind sz N m sys hist d) : run (stepM kind) [] hist = .ok m.idx.map := by
  have := (t.cfg.good.mem t.cfg.up).1
  rw [t.st] at this
  exact this

/-- a store that was just created: no index file, an empty first segment, nothing logged -/
theorem tied_fresh (cfg : Config) (d : Disk) (hw : d.WF) (hk : cfg.kind = kind) (hn : cfg.N = N)
    (hseg : ∀ i, segData d i = if i = 0 then some [] else none) (hidx : d.get .index = none) :
    Tied H kind sz N { cfg := cfg } ⟨⟨0, [], [(0, [])]⟩, true, [], 1⟩ [] d := by
  have hgood : Good (stepM kind) [] N [] (⟨⟨0, [], [(0, [])]⟩, true, [], 1⟩ : Sys (KMap Bytes) Bytes) := by
    apply reachable_good (stepM kind) [] N [.open_, .ensure] (emptySys []) [] (good_empty _ _ _)
    simp [runActs, act, emptySys, recover, replayFrom, flat, histAfter, segInsert, Ghost.segOf]
  have hsr : SegRel H d [(0, [])] := by
    apply SegRel.of_get H d _ (by simp [SegSorted])
    · intro i
      rw [has_seg_iff, hseg i]
      by_cases c : i = 0
      · subst c; simp [segGet]
      · have c' : ¬ 0 = i := fun x => c x.symm
        simp [segGet, c, c']
    · intro i recs hg
      by_cases c : i = 0
      · subst c
        simp only [segGet, ↓reduceIte, Option.some.injEq] at hg
        subst hg
        exact ⟨0, (segFile_iff H d 0 [] 0).mpr ⟨[], by rw [hseg 0]; simp [encodeAll, zeros], by simp, rfl⟩⟩
      · have c' : ¬ 0 = i := fun x => c x.symm
        simp [segGet, c'] at hg
  refine ⟨⟨⟨hgood, ⟨hw, hsr, ?_⟩, by simp, ?_⟩, rfl⟩, hk, hn, rfl, rfl, IdxInv.init sz, by simp, rfl⟩
  · refine ⟨recomputeStats {} 0, by simp [loadSnapshot, hidx], rfl, rfl, ?_⟩
    exact ⟨List.Pairwise.nil, by simp [recomputeStats], by simp [recomputeStats, rcKeys],
      by simp [recomputeStats, rcGet], by simp [recomputeStats, recomputeUnique],
      by simp [recomputeStats, recomputeUnique, rcKeys]⟩
  · intro i recs hg
    left
    by_cases c : i = 0
    · subst c
      simp only [segGet, ↓reduceIte, Option.some.injEq] at hg
      subst hg
      exact (segFile_iff H d 0 [] 0).mpr ⟨[], by rw [hseg 0]; simp [encodeAll, zeros], by simp, rfl⟩
    · have c' : ¬ 0 = i := fun x => c x.symm
      simp [segGet, c'] at hg

end CasModel
