import CasModel.Proofs.OpenSim
/-
  The usage guard of one `open`, checked ON THE IMAGE IT RUNS ON: a settings file that passes the
  gate is found, and the index recovery reads from this image fits the on-disk fields of the
  snapshot `open` may write (key count < 2^32, entries well formed, next version < 2^64).
  (A guard of this kind quantified over ALL disks would be unsatisfiable — some disk holds 2^32
  records — and would make every theorem that assumes it vacuous; this one is a finite condition
  on one image.)
-/
namespace CasModel
open Ghost

variable (H : Bytes → Bytes) (kind : KeyKind)

def OpenOK (cfg : Config) (dj : Disk) : Prop :=
  ∃ e1 pre, settingsGate cfg dj = .ok (e1, pre) ∧
    ∀ a, logical H kind (dj.applyAll e1) = .ok a → SaveOK kind a.idx ∧ a.highest + 1 < U64

end CasModel
