import CasModel.Codec
namespace CasModel

@[simp] theorem takeBytes_append (a b : Bytes) :
    takeBytes a.length (a ++ b) = .ok (a, b) := by
  simp [takeBytes]

theorem takeBytes_append' (n : Nat) (a b : Bytes) (h : a.length = n) :
    takeBytes n (a ++ b) = .ok (a, b) := by
  subst h; simp

@[simp] theorem readU32_leBytes (n : Nat) (r : Bytes) :
    readU32 (leBytes 4 n ++ r) = .ok (n % U32, r) := by
  simp [readU32, takeBytes_append' 4 _ _ (leBytes_length 4 n), leNat_leBytes]

@[simp] theorem readU64_leBytes (n : Nat) (r : Bytes) :
    readU64 (leBytes 8 n ++ r) = .ok (n % U64, r) := by
  simp [readU64, takeBytes_append' 8 _ _ (leBytes_length 8 n), leNat_leBytes]

theorem readLenBytes_serKey (k r : Bytes) (h : KeyWF k) :
    readLenBytes (serKey k ++ r) = .ok (k, r) := by
  unfold KeyWF at h
  simp [readLenBytes, serKey, List.append_assoc, Nat.mod_eq_of_lt h]

theorem readKeys_serKeys (ks : List Bytes) (r : Bytes) (h : ∀ k ∈ ks, KeyWF k) :
    readKeys ks.length (serKeys ks ++ r) = .ok (ks, r) := by
  induction ks with
  | nil => simp [readKeys, serKeys]
  | cons k ks ih =>
    have hk : KeyWF k := h k (by simp)
    have hks : ∀ k' ∈ ks, KeyWF k' := fun k' hk' => h k' (by simp [hk'])
    simp [readKeys, serKeys, List.append_assoc, readLenBytes_serKey _ _ hk, ih hks]

theorem readEntries_serEntries (es : List Entry) (r : Bytes) (h : ∀ e ∈ es, EntryWF e) :
    readEntries es.length (serEntries es ++ r) = .ok (es, r) := by
  induction es with
  | nil => simp [readEntries, serEntries]
  | cons e es ih =>
    obtain ⟨hk, hh, hs⟩ : EntryWF e := h e (by simp)
    have hes : ∀ e' ∈ es, EntryWF e' := fun e' he' => h e' (by simp [he'])
    simp [readEntries, serEntries, serEntry, List.append_assoc, readLenBytes_serKey _ _ hk,
      takeBytes_append' 32 _ _ hh, Nat.mod_eq_of_lt hs, ih hes]

end CasModel
