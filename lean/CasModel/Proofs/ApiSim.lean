import CasModel.Proofs.OpenSim
/-
  ApiSim: the simulation theorems lifted from `logAndApply` to the API scripts of Store.lean —
  `finishScript` / `putScript` (stage the blob, create directories, rename it into the CAS
  directory, then commit), `removeScript`, `removeRangeScript`. The blob-side events touch neither
  a segment file nor the index file, so they leave the WAL configuration alone; what they do to the
  CAS directory is the subject of C06/C07/C09 (Props/C06, C18Store, C09).
-/
namespace CasModel
open Ghost

variable (H : Bytes → Bytes) (kind : KeyKind) (sz : Bytes → Nat) (N : Nat)

theorem mkdirsFor_free (d : Disk) (h : Bytes) : ∀ e ∈ mkdirsFor d h, e.segFree = true ∧ e.indexFree = true := by
  intro e he
  unfold mkdirsFor at he
  split at he
  · simp only [List.mem_append] at he
    rcases he with he | he
    · split at he
      · cases he
      · simp only [List.mem_singleton] at he; subst he; simp [Ev.segFree, Ev.indexFree]
    · split at he
      · cases he
      · simp only [List.mem_singleton] at he; subst he; simp [Ev.segFree, Ev.indexFree]
  · cases he

/-- **put, event by event**: after every prefix of the whole `put` script (begin, staged write,
    sync, directory creation, rename into cas/, then the commit) the disk is recoverable to the old
    history or the old history plus the put's record; on completion memory and disk are tied. -/
theorem putScript_sim (so : StrictOrder kind.lt) (hH : Hash32 H) (m : Mem)
    (sys : Sys (KMap Bytes) Bytes) (hist : Recs Bytes) (d : Disk)
    (t : Tied H kind sz N m sys hist d) (tn : Nat) (key : Bytes) (chunks : List Bytes)
    (hraw : (RawOp.put key (H chunks.flatten) (chunks.map List.length).sum).WF)
    (hconv : kind.valid key = true)
    (hop : (chunks.map List.length).sum = sz (H chunks.flatten))
    (hwf : (⟨m.next, serWalOp (.put key (H chunks.flatten) (chunks.map List.length).sum)⟩ : Rec).WF)
    (hsave : ∀ idx' un, applyOp kind.lt m.idx
        (.put key (H chunks.flatten) (chunks.map List.length).sum) = .ok (idx', un) → SaveOK kind idx')
    (hver : m.next + 1 < U64) :
    let rec_ := (m.next, serWalOp (.put key (H chunks.flatten) (chunks.map List.length).sum))
    (putScript H m d tn key chunks).2.2 = .ok ∧
    AllPre (Recoverable H kind sz N [hist, hist ++ [rec_]]) d (putScript H m d tn key chunks).1 ∧
    ∃ sys', Tied H kind sz N (putScript H m d tn key chunks).2.1 sys' (hist ++ [rec_])
      (d.applyAll (putScript H m d tn key chunks).1) := by
  intro rec_
  -- the blob-side prefix
  let content := chunks.flatten
  let h := H content
  let size := (chunks.map List.length).sum
  let pre : List Ev := beginScript tn ++ ([Ev.write (.staging tn) content] ++
      (if m.cfg.sync then [Ev.sync (.staging tn)] else [])) ++
      (if m.preCreated then [] else mkdirsFor (d.applyAll (beginScript tn)) h) ++
      [Ev.rename (.staging tn) (.cas h)]
  have hfree : ∀ e ∈ pre, e.segFree = true ∧ e.indexFree = true := by
    intro e he
    simp only [pre, beginScript, List.mem_append, List.mem_cons, List.not_mem_nil, or_false] at he
    rcases he with ((he | he | he) | he) | he
    · subst he; simp [Ev.segFree, Ev.indexFree]
    · subst he; simp [Ev.segFree, Ev.indexFree]
    · split at he
      · simp only [List.mem_singleton] at he; subst he; simp [Ev.segFree, Ev.indexFree]
      · cases he
    · split at he
      · cases he
      · exact mkdirsFor_free _ _ e he
    · subst he; simp [Ev.segFree, Ev.indexFree]
  have c1 := t.cfg.freeAll H kind sz N sys hist d pre hfree
  have t1 : Tied H kind sz N m sys hist (d.applyAll pre) :=
    ⟨c1, t.kindEq, t.nEq, t.next, t.st, t.inv, t.active, t.persisted⟩
  have hconv' : fromRaw kind (.put key h size) = some (.put key h size) := by
    simp [fromRaw, hconv]
  obtain ⟨evs, m', hrun, hpre, sys', t'⟩ := logAndApply_sim H kind sz N so hH m sys hist (d.applyAll pre)
    t1 (.put key h size) (.put key h size) hraw hconv' hop hwf hsave hver
  have hput : putScript H m d tn key chunks = (pre ++ evs, m', .ok) := by
    simp only [putScript, finishScript]
    have hd : (d.applyAll (beginScript tn)).applyAll
        ([Ev.write (.staging tn) content] ++ (if m.cfg.sync then [Ev.sync (.staging tn)] else []) ++
          (if m.preCreated then [] else mkdirsFor (d.applyAll (beginScript tn)) h) ++
          [Ev.rename (.staging tn) (.cas h)]) = d.applyAll pre := by
      simp only [pre, Disk.applyAll_append, List.append_assoc]
    rw [hd, hrun]
    simp only [pre, List.append_assoc]
    rfl
  rw [hput]
  refine ⟨rfl, ?_, sys', ?_⟩
  · exact allPre_append _ _ _ _
      (allPre_free H kind sz N sys hist d t.cfg _ (by simp) pre hfree) hpre
  · simp only
    rw [Disk.applyAll_append]
    exact t'

end CasModel

namespace CasModel
open Ghost

variable (H : Bytes → Bytes) (kind : KeyKind) (sz : Bytes → Nat) (N : Nat)

/-- **remove / remove_range, event by event** (the commit of one Remove record for `keys`) -/
theorem removeKeys_sim (so : StrictOrder kind.lt) (hH : Hash32 H) (m : Mem)
    (sys : Sys (KMap Bytes) Bytes) (hist : Recs Bytes) (d : Disk)
    (t : Tied H kind sz N m sys hist d) (keys : List Bytes)
    (hraw : (RawOp.remove keys).WF) (hvalid : keys.all kind.valid = true)
    (hwf : (⟨m.next, serWalOp (.remove keys)⟩ : Rec).WF)
    (hsave : ∀ idx' un, applyOp kind.lt m.idx (.remove keys) = .ok (idx', un) → SaveOK kind idx')
    (hver : m.next + 1 < U64) :
    ∃ evs m', logAndApply H m d (.remove keys) (.remove keys) = .ok (evs, m') ∧
      AllPre (Recoverable H kind sz N [hist, hist ++ [(m.next, serWalOp (.remove keys))]]) d evs ∧
      ∃ sys', Tied H kind sz N m' sys' (hist ++ [(m.next, serWalOp (.remove keys))]) (d.applyAll evs) :=
  logAndApply_sim H kind sz N so hH m sys hist d t (.remove keys) (.remove keys) hraw
    (by simp [fromRaw, hvalid]) trivial hwf hsave hver

/-- `remove` of one key: absent → no event at all; present → the commit of its Remove record -/
theorem removeScript_sim (so : StrictOrder kind.lt) (hH : Hash32 H) (m : Mem)
    (sys : Sys (KMap Bytes) Bytes) (hist : Recs Bytes) (d : Disk)
    (t : Tied H kind sz N m sys hist d) (key : Bytes)
    (hraw : (RawOp.remove [key]).WF) (hvalid : kind.valid key = true)
    (hwf : (⟨m.next, serWalOp (.remove [key])⟩ : Rec).WF)
    (hsave : ∀ idx' un, applyOp kind.lt m.idx (.remove [key]) = .ok (idx', un) → SaveOK kind idx')
    (hver : m.next + 1 < U64) :
    AllPre (Recoverable H kind sz N [hist, hist ++ [(m.next, serWalOp (.remove [key]))]]) d
      (removeScript H m d key).1 ∧
    ∃ sys' hist', (hist' = hist ∨ hist' = hist ++ [(m.next, serWalOp (.remove [key]))]) ∧
      Tied H kind sz N (removeScript H m d key).2.1 sys' hist' (d.applyAll (removeScript H m d key).1) := by
  unfold removeScript
  cases hk : kLookup m.idx.map key with
  | none =>
    simp only
    exact ⟨allPre_nil _ _ (t.cfg.toRec H kind sz N _ (by simp)), sys, hist, Or.inl rfl, t⟩
  | some item =>
    obtain ⟨evs, m', hrun, hpre, sys', t'⟩ := removeKeys_sim H kind sz N so hH m sys hist d t [key] hraw
      (by simp [hvalid]) hwf hsave hver
    simp only [hrun]
    exact ⟨hpre, sys', _, Or.inr rfl, t'⟩

end CasModel
