import CasModel.Proofs.FFault
/-
  FDispatch: whichever call of a commit's script fails (fault-free memory before it), the state the
  error path of `Fault.faultLogAndApply` leaves — memory AND disk — is tied to the machine with
  failed appends (`FaultPost`).  Case analysis over the position of the failing call in the script
    roll (seal, sync, create) ++ [record write, record sync] ++ blob deletions ++ rollover checkpoint.
-/
namespace CasModel
open Ghost

variable (H : Bytes → Bytes) (kind : KeyKind) (sz : Bytes → Nat) (N : Nat)

theorem faultLogAndApply_ftied (so : StrictOrder kind.lt) (hH : Hash32 H) (m : Mem)
    (sys : Sys (KMap Bytes) Bytes) (hist : Recs Bytes) (d : Disk)
    (t : Tied H kind sz N m sys hist d) (hb : m.walBuf = []) (op : Op Bytes) (raw : RawOp)
    (hraw : raw.WF) (hconv : fromRaw kind raw = some op) (hop : OpOK sz op)
    (hwf : (⟨m.next, serWalOp raw⟩ : Rec).WF)
    (hsave : ∀ idx' un, applyOp kind.lt m.idx op = .ok (idx', un) → SaveOK kind idx')
    (hver : m.next + 1 < U64)
    (evs : List Ev) (m' : Mem) (hrun : logAndApply H m d op raw = .ok (evs, m'))
    (pre : List Ev) (e : Ev) (post : List Ev) (hcut : evs = pre ++ e :: post) :
    FaultPost H kind sz N m hist (serWalOp raw) op (faultLogAndApply H m op raw pre e).2.1
      (d.applyAll (faultLogAndApply H m op raw pre e).1) := by
  obtain ⟨idx', unref, ha, sok, _⟩ := applyOp_spec so sz m.idx t.inv op hop
  have ha' : applyOp m.cfg.kind.lt m.idx op = .ok (idx', unref) := by rw [t.kindEq]; exact ha
  obtain ⟨dels, ck, hdels, hck, hrun'⟩ := logAndApply_eq H m d op raw idx' unref ha'
  have hseg : segOf m.cfg.N m.next = Ghost.segOf N m.next := by rw [t.nEq]; rfl
  rw [hrun] at hrun'
  injection hrun' with hrun'
  injection hrun' with hevs _
  rw [hseg] at hevs hck
  have hdec : deserWalOp (serWalOp raw) = .ok raw := by
    have := C16_walop_roundtrip raw hraw []; rwa [List.append_nil] at this
  have hp : RecOK kind sz (serWalOp raw) := ⟨raw, op, hdec, hconv, hop⟩
  have hmap : idx'.map = mapApply kind.lt m.idx.map op := applyOp_map kind.lt m.idx idx' op unref ha
  have b0 : MemBasics kind sz N m ⟨sys, []⟩ := ⟨t.kindEq, t.nEq, t.next, t.st, t.inv⟩
  have fc0 := FCfg.of_cfg H kind sz N sys hist d t.cfg []
  -- the configuration after the complete roll
  obtain ⟨_, sys1, n1, s1, _, c1, old1, ho1⟩ := roll_sim H kind sz N m sys hist d t [hist] (by simp)
  have fc1 := FCfg.of_cfg H kind sz N sys1 hist _ c1 []
  have b1 : MemBasics kind sz N m ⟨sys1, []⟩ := ⟨t.kindEq, t.nEq, n1, by rw [s1, t.st], t.inv⟩
  -- position of the failing call
  have hcut' : rollEvents m.active (Ghost.segOf N m.next) ++
      ([Ev.write (.seg (Ghost.segOf N m.next)) (encodeEntry H ⟨m.next, serWalOp raw⟩),
        .sync (.seg (Ghost.segOf N m.next))] ++ (dels ++ ck.1)) = pre ++ e :: post := by
    rw [← hcut, hevs]; simp only [List.append_assoc]
  rcases cut_cases _ _ pre e post hcut' with ⟨post', hA, _⟩ | ⟨pre', hpre, hB⟩
  · -- the failing call is part of the roll
    unfold rollEvents at hA
    by_cases hsame : m.active = some (Ghost.segOf N m.next)
    · simp [hsame] at hA
    · simp only [hsame, ↓reduceIte] at hA
      cases hact : m.active with
      | none =>
        simp only [hact, List.nil_append] at hA
        obtain ⟨h1, h2⟩ := cut1 _ pre e post' hA
        subst h1 h2
        have hr : faultLogAndApply H m op raw [] (Ev.creat (.seg (Ghost.segOf N m.next)) false) =
            ([], failedMem m op none [], .err) := rfl
        rw [hr]
        exact ⟨_, _, FTied.lostNone H kind sz N m ⟨sys, []⟩ _ d b0 rfl fc0 op (serWalOp raw), rfl,
          Or.inl ⟨rfl, rfl, rfl⟩⟩
      | some o =>
        simp only [hact] at hA
        obtain ⟨o1, o2, _, _⟩ := t.active o hact
        have hne : o ≠ Ghost.segOf N m.next := by
          intro c; rw [hact, c] at hsame; exact hsame rfl
        have hlt : o < Ghost.segOf N sys.next := by
          rw [t.next]
          have : o ≤ Ghost.segOf N m.next := by rw [o1]; exact segOf_mono N (by omega)
          omega
        have fcs := fc0.seal H kind sz N ⟨sys, []⟩ _ d o hlt
        have hbeq : (o == segOf m.cfg.N m.next) = false := by
          rw [hseg]; exact beq_eq_false_iff_ne.mpr hne
        rcases cut3 _ _ _ pre e post' hA with ⟨h1, h2⟩ | ⟨h1, h2⟩ | ⟨h1, h2⟩
        · subst h1 h2
          have hr : faultLogAndApply H m op raw [] (Ev.write (.seg o) sentinel) =
              ([] ++ [Ev.write (.seg o) sentinel], failedMem m op none [], .err) := by
            simp [faultLogAndApply, hbeq, failedMem]
          rw [hr]
          exact ⟨_, _, FTied.lostNone H kind sz N m ⟨sys, []⟩ _ _ b0 rfl fcs op (serWalOp raw), rfl,
            Or.inl ⟨rfl, rfl, rfl⟩⟩
        · subst h1 h2
          have hr : faultLogAndApply H m op raw [Ev.write (.seg o) sentinel] (Ev.sync (.seg o)) =
              ([Ev.write (.seg o) sentinel], failedMem m op none [], .err) := by
            simp [faultLogAndApply, hbeq, failedMem]
          rw [hr]
          exact ⟨_, _, FTied.lostNone H kind sz N m ⟨sys, []⟩ _ _ b0 rfl fcs op (serWalOp raw), rfl,
            Or.inl ⟨rfl, rfl, rfl⟩⟩
        · subst h1 h2
          have hr : faultLogAndApply H m op raw [Ev.write (.seg o) sentinel, Ev.sync (.seg o)]
              (Ev.creat (.seg (Ghost.segOf N m.next)) false) =
              ([Ev.write (.seg o) sentinel, Ev.sync (.seg o)], failedMem m op none [], .err) := rfl
          rw [hr]
          have fcs2 := fcs.free H kind sz N ⟨sys, []⟩ _ _ (.sync (.seg o)) (by simp [Ev.segFree])
            (by simp [Ev.indexFree])
          exact ⟨_, _, FTied.lostNone H kind sz N m ⟨sys, []⟩ _ _ b0 rfl fcs2 op (serWalOp raw), rfl,
            Or.inl ⟨rfl, rfl, rfl⟩⟩
  · rcases cut_cases _ _ pre' e post hB with ⟨post'', hW, _⟩ | ⟨pre'', hpre', hR⟩
    · rcases cut2 _ _ pre' e post'' hW with ⟨h1, h2⟩ | ⟨h1, h2⟩
      · -- the record's write fails
        subst h1 h2
        simp only [List.append_nil] at hpre
        subst hpre
        have hr : faultLogAndApply H m op raw (rollEvents m.active (Ghost.segOf N m.next))
            (Ev.write (.seg (Ghost.segOf N m.next)) (encodeEntry H ⟨m.next, serWalOp raw⟩)) =
            (rollEvents m.active (Ghost.segOf N m.next),
             failedMem m op (some (Ghost.segOf N m.next))
               (if (encodeEntry H ⟨m.next, serWalOp raw⟩).length < 8192
                then encodeEntry H ⟨m.next, serWalOp raw⟩ else []), .err) := by
          simp [faultLogAndApply, hseg, hb, failedMem]
        rw [hr]
        by_cases hlen : (encodeEntry H ⟨m.next, serWalOp raw⟩).length < 8192
        · simp only [hlen, ↓reduceIte]
          have ft := FTied.keep H kind sz N m ⟨sys1, []⟩ _ _ b1 rfl fc1 old1 ho1 op (serWalOp raw) hp hwf
          refine ⟨_, _, ft, rfl, Or.inl ⟨rfl, ?_, rfl⟩⟩
          simp [n1]
        · simp only [hlen, ↓reduceIte]
          exact ⟨_, _, FTied.lostSome H kind sz N m ⟨sys1, []⟩ _ _ b1 rfl fc1 old1 ho1 op (serWalOp raw) hwf,
            rfl, Or.inl ⟨rfl, rfl, rfl⟩⟩
      · -- the record is written, its sync fails
        subst h1 h2
        subst hpre
        have hr : faultLogAndApply H m op raw (rollEvents m.active (Ghost.segOf N m.next) ++
              [Ev.write (.seg (Ghost.segOf N m.next)) (encodeEntry H ⟨m.next, serWalOp raw⟩)])
            (Ev.sync (.seg (Ghost.segOf N m.next))) =
            (rollEvents m.active (Ghost.segOf N m.next) ++
              [Ev.write (.seg (Ghost.segOf N m.next)) (encodeEntry H ⟨m.next, serWalOp raw⟩)],
             failedMem m op (some (Ghost.segOf N m.next)) [], .err) := by
          simp [faultLogAndApply, hseg, failedMem]
        rw [hr]
        obtain ⟨fs', h', ft, e1, e2⟩ := FTied.ghost H kind sz N hH m ⟨sys1, []⟩ _ _ b1 rfl fc1 old1 ho1 op
          (serWalOp raw) hp hwf
        refine ⟨fs', h', ?_, rfl, Or.inl ⟨e1, by simpa using e2, rfl⟩⟩
        simp only [Disk.applyAll_append, Disk.applyAll_cons, Disk.applyAll_nil]
        exact ft
    · -- the record is durable and applied; a later call fails
      subst hpre' hpre
      have t0 := FTied.of_tied H kind sz N m sys hist d t hb []
      obtain ⟨fs2, h2, c2, n2, st2, p2, e1, e2, old2, g2⟩ :=
        walPart_fsim H kind sz N hH m ⟨sys, []⟩ _ d t0 (serWalOp raw) hp hwf
      rw [walEventsBuf_clean H N m _ hb] at c2
      have hst2 : fs2.sys.st = idx'.map := by
        have : stepM kind m.idx.map (serWalOp raw) = .ok (mapApply kind.lt m.idx.map op) := by
          simp [stepM, hdec, hconv]
        rw [this] at st2
        injection st2 with st2
        rw [← st2, hmap]
      -- memory after the apply
      have hm1 : memAfterApply m op =
          { m with idx := idx', next := m.next + 1, active := some (Ghost.segOf N m.next) } := by
        simp only [memAfterApply, ha', hseg]
        cases m; simp only at hb; subst hb; rfl
      have t2 : FTied H kind sz N (memAfterApply m op) fs2 h2
          (d.applyAll (rollEvents m.active (Ghost.segOf N m.next) ++
            [Ev.write (.seg (Ghost.segOf N m.next)) (encodeEntry H ⟨m.next, serWalOp raw⟩),
             .sync (.seg (Ghost.segOf N m.next))])) := by
        rw [hm1]
        refine ⟨c2, t.kindEq, t.nEq, n2, hst2, sok.inv, ?_, by simp [hb, p2, pendBytes, encodeAll],
          by simp [p2]⟩
        intro a haa
        simp only [Option.some.injEq] at haa
        subst haa
        exact ⟨by simp, by have := hwf.1; simp only at this; simp only; omega, _, g2⟩
      have hsv : SaveOK kind (memAfterApply m op).idx := by rw [hm1]; exact hsave idx' unref ha
      have hnx : (memAfterApply m op).next < U64 := by rw [hm1]; simp only; omega
      -- every prefix of deletions ++ rollover checkpoint
      have hpre : ∀ lp ss, AllPre (FPost H kind sz N ((memAfterApply m op).meta lp ss) h2.hm h2.failed)
          (d.applyAll (rollEvents m.active (Ghost.segOf N m.next) ++
            [Ev.write (.seg (Ghost.segOf N m.next)) (encodeEntry H ⟨m.next, serWalOp raw⟩),
             .sync (.seg (Ghost.segOf N m.next))])) (dels ++ ck.1) := by
        intro lp ss
        rw [hck, ← hm1]
        exact applied_fpre H kind sz N so _ fs2 h2 _ _ t2 hsv hnx dels hdels _ lp ss
      have htake : pre'' = (dels ++ ck.1).take pre''.length := by
        rw [hR]; simp
      have hdisk : ∀ lp ss, FPost H kind sz N ((memAfterApply m op).meta lp ss) h2.hm h2.failed
          (d.applyAll (rollEvents m.active (Ghost.segOf N m.next) ++
            ([Ev.write (.seg (Ghost.segOf N m.next)) (encodeEntry H ⟨m.next, serWalOp raw⟩),
             .sync (.seg (Ghost.segOf N m.next))] ++ pre''))) := by
        intro lp ss
        have := hpre lp ss pre''.length
        rw [← htake] at this
        rw [← List.append_assoc, Disk.applyAll_append]
        exact this
      have hfin : ∀ lp ss, FaultPost H kind sz N m hist (serWalOp raw) op ((memAfterApply m op).meta lp ss)
          (d.applyAll (rollEvents m.active (Ghost.segOf N m.next) ++
            ([Ev.write (.seg (Ghost.segOf N m.next)) (encodeEntry H ⟨m.next, serWalOp raw⟩),
             .sync (.seg (Ghost.segOf N m.next))] ++ pre''))) := by
        intro lp ss
        obtain ⟨fs3, h3, t3, e3, e4⟩ := hdisk lp ss
        refine ⟨fs3, h3, t3, by rw [hm1]; rfl, Or.inr ⟨by rw [e3, e1], by rw [e4, e2], ?_⟩⟩
        rw [hm1]; exact hmap
      -- the shape of the failing call
      have hmem : e ∈ dels ++ ck.1 := by rw [hR]; simp
      rcases List.mem_append.mp hmem with hd | hc
      · obtain ⟨hh, rfl⟩ := hdels e hd
        have hr : ∀ pp, faultLogAndApply H m op raw pp (Ev.unlink (.cas hh)) =
            (pp, memAfterApply m op, .err) := fun _ => rfl
        rw [hr]
        exact hfin _ _
      · have hshape : e = .creat .indexTmp true ∨ (∃ bs, e = .write .indexTmp bs) ∨
            e = .sync .indexTmp ∨ e = .rename .indexTmp .index ∨ ∃ j, e = .unlink (.seg j) := by
          rw [hck] at hc
          by_cases hcond : (if m.next > 1 then segOf m.cfg.N (m.next - 1) else 0) ≠ Ghost.segOf N m.next
          · rw [if_pos hcond] at hc
            exact checkpointScript_shapes _ _ _ e hc
          · rw [if_neg hcond] at hc
            cases hc
        rcases hshape with rfl | ⟨bs, rfl⟩ | rfl | rfl | ⟨j, rfl⟩
        · exact hfin ((memAfterApply m op).next - 1) (memAfterApply m op).idx.serializedSize
        · exact hfin ((memAfterApply m op).next - 1) (memAfterApply m op).idx.serializedSize
        · exact hfin ((memAfterApply m op).next - 1) (memAfterApply m op).idx.serializedSize
        · exact hfin ((memAfterApply m op).next - 1) (memAfterApply m op).idx.serializedSize
        · exact hfin ((memAfterApply m op).next - 1)
            (serIndex (entriesOf (memAfterApply m op).idx.map) ((memAfterApply m op).next - 1)).length

end CasModel
