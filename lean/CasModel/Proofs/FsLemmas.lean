import CasModel.Fs
/-
  FsLemmas: lookup characterisations for the association-list filesystem model of `CasModel.Fs`.
-/
namespace CasModel

def FKeysNodup (fs : List (FileId × File)) : Prop := (fs.map (·.1)).Nodup
def Disk.WF (d : Disk) : Prop := FKeysNodup d.files

theorem FKeysNodup_nil : FKeysNodup [] := by
  simp [FKeysNodup]

theorem FKeysNodup_cons (g : FileId) (y : File) (r : List (FileId × File)) :
    FKeysNodup ((g, y) :: r) ↔ (g ∉ r.map (·.1)) ∧ FKeysNodup r := by
  simp only [FKeysNodup, List.map_cons, List.nodup_cons]

theorem fget_fset (fs : List (FileId × File)) (f g : FileId) (x : File) :
    fget (fset fs f x) g = if g = f then some x else fget fs g := by
  induction fs with
  | nil =>
    simp only [fset, fget]
    by_cases h : g = f
    · simp [h]
    · have h' : ¬ f = g := fun e => h e.symm
      simp [h, h']
  | cons p r ih =>
    obtain ⟨k, y⟩ := p
    simp only [fset]
    by_cases hk : k = f
    · simp only [hk, ↓reduceIte, fget]
      by_cases h : g = f
      · simp [h]
      · have h' : ¬ f = g := fun e => h e.symm
        simp [h, h']
    · simp only [hk, ↓reduceIte, fget, ih]
      by_cases hkg : k = g
      · have h : ¬ g = f := fun e => hk (hkg.trans e)
        simp [hkg, h]
      · simp [hkg]

theorem fget_none_of_not_mem (fs : List (FileId × File)) (g : FileId)
    (h : g ∉ fs.map (·.1)) : fget fs g = none := by
  induction fs with
  | nil => simp [fget]
  | cons p r ih =>
    obtain ⟨k, y⟩ := p
    simp only [List.map_cons, List.mem_cons, not_or] at h
    have hk : ¬ k = g := fun e => h.1 e.symm
    simp only [fget, hk, ↓reduceIte]
    exact ih h.2

theorem mem_keys_of_fget (fs : List (FileId × File)) (g : FileId) (x : File)
    (h : fget fs g = some x) : g ∈ fs.map (·.1) := by
  apply Classical.byContradiction
  intro hn
  rw [fget_none_of_not_mem fs g hn] at h
  cases h

theorem fget_fdel (fs : List (FileId × File)) (h : FKeysNodup fs) (f g : FileId) :
    fget (fdel fs f) g = if g = f then none else fget fs g := by
  induction fs with
  | nil => simp [fdel, fget]
  | cons p r ih =>
    obtain ⟨k, y⟩ := p
    rw [FKeysNodup_cons] at h
    simp only [fdel]
    by_cases hk : k = f
    · simp only [hk, ↓reduceIte, fget]
      by_cases hg : g = f
      · simp only [hg, ↓reduceIte]
        exact fget_none_of_not_mem r f (hk ▸ h.1)
      · have h' : ¬ f = g := fun e => hg e.symm
        simp [hg, h']
    · simp only [hk, ↓reduceIte, fget, ih h.2]
      by_cases hkg : k = g
      · have hg : ¬ g = f := fun e => hk (hkg.trans e)
        simp [hkg, hg]
      · simp [hkg]

theorem fset_keys_mem (fs : List (FileId × File)) (f : FileId) (x : File) (k : FileId) :
    k ∈ (fset fs f x).map (·.1) ↔ k = f ∨ k ∈ fs.map (·.1) := by
  induction fs with
  | nil => simp [fset]
  | cons p r ih =>
    obtain ⟨j, y⟩ := p
    simp only [fset]
    by_cases hj : j = f
    · simp only [hj, ↓reduceIte, List.map_cons, List.mem_cons]
      constructor
      · intro h
        cases h with
        | inl h => exact Or.inl h
        | inr h => exact Or.inr (Or.inr h)
      · intro h
        cases h with
        | inl h => exact Or.inl h
        | inr h => exact h
    · simp only [hj, ↓reduceIte, List.map_cons, List.mem_cons, ih]
      constructor
      · intro h
        rcases h with h | h | h
        · exact Or.inr (Or.inl h)
        · exact Or.inl h
        · exact Or.inr (Or.inr h)
      · intro h
        rcases h with h | h | h
        · exact Or.inr (Or.inl h)
        · exact Or.inl h
        · exact Or.inr (Or.inr h)

theorem fdel_keys_mem (fs : List (FileId × File)) (f : FileId) (k : FileId)
    (h : k ∈ (fdel fs f).map (·.1)) : k ∈ fs.map (·.1) := by
  induction fs with
  | nil => simp [fdel] at h
  | cons p r ih =>
    obtain ⟨j, y⟩ := p
    simp only [fdel] at h
    by_cases hj : j = f
    · simp only [hj, ↓reduceIte] at h
      simp only [List.map_cons, List.mem_cons]
      exact Or.inr h
    · simp only [hj, ↓reduceIte, List.map_cons, List.mem_cons] at h
      simp only [List.map_cons, List.mem_cons]
      cases h with
      | inl h => exact Or.inl h
      | inr h => exact Or.inr (ih h)

theorem fset_nodup (fs : List (FileId × File)) (h : FKeysNodup fs) (f : FileId) (x : File) :
    FKeysNodup (fset fs f x) := by
  induction fs with
  | nil => simp [fset, FKeysNodup]
  | cons p r ih =>
    obtain ⟨j, y⟩ := p
    rw [FKeysNodup_cons] at h
    simp only [fset]
    by_cases hj : j = f
    · simp only [hj, ↓reduceIte]
      rw [FKeysNodup_cons]
      exact ⟨hj ▸ h.1, h.2⟩
    · simp only [hj, ↓reduceIte]
      rw [FKeysNodup_cons]
      refine ⟨?_, ih h.2⟩
      intro hm
      rw [fset_keys_mem] at hm
      cases hm with
      | inl e => exact hj e
      | inr m => exact h.1 m

theorem fdel_nodup (fs : List (FileId × File)) (h : FKeysNodup fs) (f : FileId) :
    FKeysNodup (fdel fs f) := by
  induction fs with
  | nil => simp [fdel, FKeysNodup]
  | cons p r ih =>
    obtain ⟨j, y⟩ := p
    rw [FKeysNodup_cons] at h
    simp only [fdel]
    by_cases hj : j = f
    · simp only [hj, ↓reduceIte]
      exact h.2
    · simp only [hj, ↓reduceIte]
      rw [FKeysNodup_cons]
      exact ⟨fun hm => h.1 (fdel_keys_mem r f j hm), ih h.2⟩

theorem Disk.apply_WF (d : Disk) (h : d.WF) (e : Ev) : (d.apply e).WF := by
  cases e with
  | mkdir p =>
    simp only [Disk.apply]
    split
    · exact h
    · exact h
  | mkdirTree => exact h
  | creat f trunc =>
    simp only [Disk.apply]
    split
    · exact fset_nodup _ h _ _
    · split
      · exact fset_nodup _ h _ _
      · exact h
  | write f bs =>
    simp only [Disk.apply]
    split
    · exact h
    · exact fset_nodup _ h _ _
  | sync f =>
    simp only [Disk.apply]
    split
    · exact h
    · exact fset_nodup _ h _ _
  | rename a b =>
    simp only [Disk.apply]
    split
    · exact h
    · exact fset_nodup _ (fdel_nodup _ h _) _ _
  | unlink f =>
    simp only [Disk.apply]
    exact fdel_nodup _ h _
  | flock => exact h

theorem Disk.applyAll_nil (d : Disk) : d.applyAll [] = d := rfl

theorem Disk.applyAll_cons (d : Disk) (e : Ev) (es : List Ev) :
    d.applyAll (e :: es) = (d.apply e).applyAll es := rfl

theorem Disk.applyAll_append (d : Disk) (a b : List Ev) :
    d.applyAll (a ++ b) = (d.applyAll a).applyAll b := by
  simp only [Disk.applyAll, List.foldl_append]

theorem Disk.applyAll_WF (d : Disk) (h : d.WF) (evs : List Ev) : (d.applyAll evs).WF := by
  induction evs generalizing d with
  | nil => exact h
  | cons e es ih =>
    rw [Disk.applyAll_cons]
    exact ih _ (Disk.apply_WF d h e)

-- lookups after one event (g is the file looked up)

theorem Disk.get_mkdir (d : Disk) (p : List Bytes) (g : FileId) :
    (d.apply (.mkdir p)).get g = d.get g := by
  simp only [Disk.apply]
  split <;> rfl

theorem Disk.get_flock (d : Disk) (g : FileId) : (d.apply .flock).get g = d.get g := rfl

theorem Disk.get_creat (d : Disk) (f : FileId) (trunc : Bool) (g : FileId) :
    (d.apply (.creat f trunc)).get g =
      if g = f then (match d.get f with
                     | none => some ⟨[], 0⟩
                     | some x => if trunc then some ⟨[], 0⟩ else some x)
      else d.get g := by
  simp only [Disk.apply]
  split
  · next hn =>
    simp only [Disk.get] at hn
    simp only [Disk.get, fget_fset, hn]
  · next x hs =>
    cases trunc with
    | true =>
      simp only [Disk.get] at hs
      simp only [↓reduceIte, Disk.get, fget_fset, hs]
    | false =>
      simp only [Bool.false_eq_true, ↓reduceIte]
      by_cases hg : g = f
      · simp only [hg, ↓reduceIte, hs]
      · simp only [hg, ↓reduceIte]

theorem Disk.get_write (d : Disk) (f : FileId) (bs : Bytes) (g : FileId) :
    (d.apply (.write f bs)).get g =
      if g = f then (d.get f).map (fun x => { x with data := x.data ++ bs }) else d.get g := by
  simp only [Disk.apply]
  split
  · next hn =>
    by_cases hg : g = f
    · simp only [hg, ↓reduceIte, hn, Option.map_none]
    · simp only [hg, ↓reduceIte]
  · next x hs =>
    simp only [Disk.get, fget_fset]
    simp only [Disk.get] at hs
    simp only [hs, Option.map_some]

theorem Disk.get_sync (d : Disk) (f g : FileId) :
    (d.apply (.sync f)).get g =
      if g = f then (d.get f).map (fun x => { x with synced := x.data.length }) else d.get g := by
  simp only [Disk.apply]
  split
  · next hn =>
    by_cases hg : g = f
    · simp only [hg, ↓reduceIte, hn, Option.map_none]
    · simp only [hg, ↓reduceIte]
  · next x hs =>
    simp only [Disk.get, fget_fset]
    simp only [Disk.get] at hs
    simp only [hs, Option.map_some]

theorem Disk.get_unlink (d : Disk) (h : d.WF) (f g : FileId) :
    (d.apply (.unlink f)).get g = if g = f then none else d.get g := by
  simp only [Disk.apply, Disk.get]
  exact fget_fdel d.files h f g

theorem Disk.get_rename (d : Disk) (h : d.WF) (a b g : FileId) :
    (d.apply (.rename a b)).get g =
      match d.get a with
      | none => d.get g
      | some x => if g = b then some x else if g = a then none else d.get g := by
  simp only [Disk.apply]
  split
  · next hn => simp only [hn]
  · next x hs =>
    simp only [hs]
    simp only [Disk.get, fget_fset, fget_fdel d.files h]

-- dirs are only changed by mkdir
theorem Disk.dirs_apply (d : Disk) (e : Ev) :
    (∀ p, e ≠ .mkdir p) → (d.apply e).dirs = d.dirs := by
  intro hne
  cases e with
  | mkdir p => exact absurd rfl (hne p)
  | mkdirTree => rfl
  | creat f trunc =>
    simp only [Disk.apply]
    split
    · rfl
    · split <;> rfl
  | write f bs =>
    simp only [Disk.apply]
    split <;> rfl
  | sync f =>
    simp only [Disk.apply]
    split <;> rfl
  | rename a b =>
    simp only [Disk.apply]
    split <;> rfl
  | unlink f => rfl
  | flock => rfl

-- `has` in terms of `get`
theorem Disk.has_iff (d : Disk) (f : FileId) : d.has f = true ↔ ∃ x, d.get f = some x := by
  simp only [Disk.has, Disk.get, Option.isSome_iff_exists]

end CasModel

namespace CasModel
theorem Disk.get_mkdirTree (d : Disk) (g : FileId) : (d.apply .mkdirTree).get g = d.get g := rfl
end CasModel
