import CasModel.Proofs.IndexInv
/-
  `recompute_stats` (run at every open) agrees with the incrementally maintained statistics.
-/
namespace CasModel
section
variable {K : Type} [DecidableEq K] {lt : K → K → Bool}

def ruStep (acc : List (Bytes × Nat)) (e : K × Item) : List (Bytes × Nat) :=
  match rcGet acc e.2.hash with
  | some _ => acc
  | none => acc ++ [(e.2.hash, e.2.size)]

theorem recomputeUnique_eq (m : KMap K) : recomputeUnique m = m.foldl ruStep [] := rfl

theorem rcGet_isSome_iff (rc : RcMap) (h : Bytes) : (rcGet rc h).isSome ↔ h ∈ rcKeys rc := by
  constructor
  · intro hs
    cases hg : rcGet rc h with
    | none => simp [hg] at hs
    | some c => exact rcGet_some_mem rc h c hg
  · intro hm
    cases hg : rcGet rc h with
    | none =>
      exfalso
      induction rc with
      | nil => simp [rcKeys] at hm
      | cons e rc ih =>
        obtain ⟨h0, c0⟩ := e
        simp only [rcGet] at hg
        by_cases x : h0 = h
        · simp [x] at hg
        · simp only [x, ↓reduceIte] at hg
          simp only [rcKeys, List.map_cons, List.mem_cons] at hm
          rcases hm with hm | hm
          · exact x hm.symm
          · exact ih hm hg
    | some c => rfl

theorem foldl_ruStep (sz : Bytes → Nat) (m : KMap K) (acc : List (Bytes × Nat))
    (hnd : (rcKeys acc).Nodup) (hv : ∀ e ∈ acc, e.2 = sz e.1)
    (hm : ∀ e ∈ m, e.2.size = sz e.2.hash) :
    (rcKeys (m.foldl ruStep acc)).Nodup ∧ (∀ e ∈ m.foldl ruStep acc, e.2 = sz e.1) ∧
    (∀ h, h ∈ rcKeys (m.foldl ruStep acc) ↔ (h ∈ rcKeys acc ∨ ∃ e ∈ m, e.2.hash = h)) := by
  induction m generalizing acc with
  | nil => exact ⟨hnd, hv, by simp⟩
  | cons e m ih =>
    simp only [List.foldl_cons]
    have hm' : ∀ e' ∈ m, e'.2.size = sz e'.2.hash := fun e' h' => hm e' (by simp [h'])
    have he := hm e (by simp)
    cases hg : rcGet acc e.2.hash with
    | some c =>
      have : ruStep acc e = acc := by simp [ruStep, hg]
      rw [this]
      obtain ⟨a, b, c'⟩ := ih acc hnd hv hm'
      refine ⟨a, b, ?_⟩
      intro h
      rw [c' h]
      have hin : e.2.hash ∈ rcKeys acc := rcGet_some_mem acc _ c hg
      constructor
      · rintro (x | ⟨e', he', x⟩)
        · exact Or.inl x
        · exact Or.inr ⟨e', by simp [he'], x⟩
      · rintro (x | ⟨e', he', x⟩)
        · exact Or.inl x
        · rcases List.mem_cons.mp he' with he' | he'
          · subst he'; subst x; exact Or.inl hin
          · exact Or.inr ⟨e', he', x⟩
    | none =>
      have : ruStep acc e = acc ++ [(e.2.hash, e.2.size)] := by simp [ruStep, hg]
      rw [this]
      have hnotin : e.2.hash ∉ rcKeys acc := by
        intro hin
        have := (rcGet_isSome_iff acc e.2.hash).mpr hin
        simp [hg] at this
      have hnd' : (rcKeys (acc ++ [(e.2.hash, e.2.size)])).Nodup := by
        simp only [rcKeys, List.map_append, List.map_cons, List.map_nil]
        exact List.nodup_append.mpr ⟨hnd, by simp, by
          intro a ha b hb; simp at hb; subst hb; intro x; subst x; exact hnotin ha⟩
      have hv' : ∀ e' ∈ acc ++ [(e.2.hash, e.2.size)], e'.2 = sz e'.1 := by
        intro e' h'
        rcases List.mem_append.mp h' with h' | h'
        · exact hv e' h'
        · simp at h'; subst h'; exact he
      obtain ⟨a, b, c'⟩ := ih _ hnd' hv' hm'
      refine ⟨a, b, ?_⟩
      intro h
      rw [c' h]
      simp only [rcKeys, List.map_append, List.map_cons, List.map_nil, List.mem_append,
        List.mem_singleton]
      constructor
      · rintro ((x | x) | ⟨e', he', x⟩)
        · exact Or.inl x
        · exact Or.inr ⟨e, by simp, x.symm⟩
        · exact Or.inr ⟨e', by simp [he'], x⟩
      · rintro (x | ⟨e', he', x⟩)
        · exact Or.inl (Or.inl x)
        · rcases List.mem_cons.mp he' with he' | he'
          · subst he'; exact Or.inl (Or.inr x.symm)
          · exact Or.inr ⟨e', he', x⟩

theorem countHash_pos_iff (m : KMap K) (h : Bytes) :
    0 < countHash m h ↔ ∃ e ∈ m, e.2.hash = h := by
  unfold countHash
  rw [List.length_pos_iff_exists_mem]
  constructor
  · rintro ⟨e, he⟩
    simp [List.mem_filter] at he
    exact ⟨e, he.1, he.2⟩
  · rintro ⟨e, he, x⟩
    exact ⟨e, by simp [List.mem_filter, he, x]⟩

/-- the keys of the refcount table are exactly the hashes some key maps to -/
theorem rcKeys_iff (sz : Bytes → Nat) (s : IndexState K) (inv : IdxInv lt sz s) (h : Bytes) :
    h ∈ rcKeys s.rc ↔ ∃ e ∈ s.map, e.2.hash = h := by
  rw [← countHash_pos_iff, ← rcGet_isSome_iff, inv.rcOK h]
  by_cases c : countHash s.map h = 0 <;> simp [c]; omega

/-- **incremental = recomputed**: under the invariant, `recompute_stats` yields the statistics
    the state already carries -/
theorem recompute_agrees (sz : Bytes → Nat) (s : IndexState K) (inv : IdxInv lt sz s) (n : Nat) :
    (recomputeStats s n).uniqueBlobs = s.uniqueBlobs ∧
    (recomputeStats s n).totalBytes = s.totalBytes := by
  obtain ⟨a, b, c⟩ := foldl_ruStep sz s.map [] (by simp [rcKeys]) (by simp) inv.mapSz
  rw [← recomputeUnique_eq] at a b c
  have hperm : (rcKeys (recomputeUnique s.map)).Perm (rcKeys s.rc) := by
    rw [List.perm_ext_iff_of_nodup a inv.rcNodup]
    intro h
    rw [c h, rcKeys_iff sz s inv h]
    simp [rcKeys]
  have hlen : (recomputeUnique s.map).length = s.rc.length := by
    have := hperm.length_eq
    simpa [rcKeys] using this
  have hsum : ((recomputeUnique s.map).map (·.2)).sum = ((rcKeys s.rc).map sz).sum := by
    have e1 : (recomputeUnique s.map).map (·.2) = (rcKeys (recomputeUnique s.map)).map sz := by
      simp only [rcKeys, List.map_map]
      apply List.map_congr_left
      intro e he; exact b e he
    rw [e1]
    exact (hperm.map sz).sum_nat
  simp only [recomputeStats]
  exact ⟨by rw [hlen, inv.unique], by rw [hsum, inv.total]⟩

end
end CasModel
