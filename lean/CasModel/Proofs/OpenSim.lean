import CasModel.Proofs.ScriptSim
/-
  OpenSim: `Cas::open` (everything after the lock is taken: settings gate, snapshot load + WAL
  replay, creation of the next segment file, the after-replay checkpoint) simulated by the
  record-level machine — from ANY crash image of a tied store.

  `open_sim`: if the disk is in a disk-level configuration (`DCfg`, what every prefix of every
  script leaves behind, handle closed), then after every prefix of open's own script the disk is
  again in such a configuration for the SAME history (a crash during recovery loses nothing, to
  any nesting depth), recovery reads exactly the key map after the logged history, and when open
  completes memory and disk are tied again — the segment of the next version is unsealed, so the
  next commit's record will be readable.
-/
namespace CasModel
open Ghost

variable (H : Bytes → Bytes) (kind : KeyKind) (sz : Bytes → Nat) (N : Nat)

theorem settingsGate_free (cfg : Config) (d : Disk) (e1 : List Ev) (pre : Bool)
    (h : settingsGate cfg d = .ok (e1, pre)) : ∀ e ∈ e1, e.segFree = true ∧ e.indexFree = true := by
  unfold settingsGate at h
  split at h
  · split at h
    · cases h
    · split at h
      · cases h
      · split at h
        · cases h
        · injection h with h; injection h with h1 _; subst h1; simp
  · injection h with h; injection h with h1 _; subst h1
    intro e he
    simp only [List.mem_append, List.mem_cons, List.not_mem_nil, or_false] at he
    rcases he with he | he
    · split at he
      · unfold preCreateEvents at he
        split at he
        · cases he
        · simp only [List.mem_singleton] at he; subst he; simp [Ev.segFree, Ev.indexFree]
      · cases he
    · rcases he with he | he | he | he <;> subst he <;> simp [Ev.segFree, Ev.indexFree]

theorem ite_fst_same {α β : Type} (c : Prop) [Decidable c] (a : α) (x y : β) :
    (if c then (a, x) else (a, y)).1 = a := by split <;> rfl

theorem ite_snd_ok {α β γ ε : Type} (c : Prop) [Decidable c] (a : α) (e : ε) (m m' : β) (sc sc' : γ)
    (h : (if c then (a, (Except.error e : Except ε (β × γ))) else (a, .ok (m, sc))).2 = .ok (m', sc')) :
    m' = m := by
  split at h
  · cases h
  · injection h with h; injection h with h1 _; exact h1.symm

/-- the parts of `openBody` -/
theorem openBody_eq (cfg : Config) (d0 : Disk) (e1 : List Ev) (pre : Bool) (acc : ReplayAcc)
    (hg : settingsGate cfg d0 = .ok (e1, pre))
    (hl : logical H cfg.kind (d0.applyAll e1) = .ok acc) :
    ∃ ck, ck = (if acc.replayed > 0 then checkpointScript .afterReplay
                  { cfg := cfg, idx := acc.idx, next := acc.highest + 1, active := none, preCreated := pre }
                  ((d0.applyAll e1).applyAll
                    (if (d0.applyAll e1).has (.seg (segOf cfg.N (acc.highest + 1))) then []
                     else [Ev.creat (.seg (segOf cfg.N (acc.highest + 1))) true,
                           .sync (.seg (segOf cfg.N (acc.highest + 1)))]))
                else ([], { cfg := cfg, idx := acc.idx, next := acc.highest + 1, active := none,
                            preCreated := pre })) ∧
      (openBody H cfg d0).1 = e1 ++
        (if (d0.applyAll e1).has (.seg (segOf cfg.N (acc.highest + 1))) then []
         else [Ev.creat (.seg (segOf cfg.N (acc.highest + 1))) true,
               .sync (.seg (segOf cfg.N (acc.highest + 1)))]) ++ ck.1 ∧
      (∀ m sc, (openBody H cfg d0).2 = .ok (m, sc) → m = ck.2) := by
  unfold openBody
  simp only [hg, hl]
  refine ⟨_, rfl, ?_, ?_⟩
  · exact ite_fst_same _ _ _ _
  · intro m sc h
    exact ite_snd_ok _ _ _ _ _ _ _ h

theorem ite_pair_snd {α β : Type} (c : Prop) [Decidable c] (a b : α) (x y : β) :
    (if c then (a, x) else (b, y)).2 = if c then x else y := by split <;> rfl

/-- the result of `openBody` once the settings gate and the replay have succeeded: the scan of the
    final disk decides between the new handle and an integrity error -/
theorem openBody_result (cfg : Config) (d0 : Disk) (e1 : List Ev) (pre : Bool) (acc : ReplayAcc)
    (hg : settingsGate cfg d0 = .ok (e1, pre))
    (hl : logical H cfg.kind (d0.applyAll e1) = .ok acc)
    (ck : List Ev × Mem)
    (hck : ck = (if acc.replayed > 0 then checkpointScript .afterReplay
                  { cfg := cfg, idx := acc.idx, next := acc.highest + 1, active := none, preCreated := pre }
                  ((d0.applyAll e1).applyAll
                    (if (d0.applyAll e1).has (.seg (segOf cfg.N (acc.highest + 1))) then []
                     else [Ev.creat (.seg (segOf cfg.N (acc.highest + 1))) true,
                           .sync (.seg (segOf cfg.N (acc.highest + 1)))]))
                else ([], { cfg := cfg, idx := acc.idx, next := acc.highest + 1, active := none,
                            preCreated := pre }))) :
    (openBody H cfg d0).2 =
      (if cfg.scan ∧ cfg.failOnIntegrity ∧
          ((scanCanonical H cfg.verify ck.2.idx (d0.applyAll (openBody H cfg d0).1)).missing ≠ [] ∨
           (scanCanonical H cfg.verify ck.2.idx (d0.applyAll (openBody H cfg d0).1)).corrupted ≠ [])
       then .error (.integrity
          (scanCanonical H cfg.verify ck.2.idx (d0.applyAll (openBody H cfg d0).1)).missing.length
          (scanCanonical H cfg.verify ck.2.idx (d0.applyAll (openBody H cfg d0).1)).corrupted.length)
       else .ok (ck.2, scanCanonical H cfg.verify ck.2.idx (d0.applyAll (openBody H cfg d0).1))) := by
  obtain ⟨ck', hck', hev, _⟩ := openBody_eq H cfg d0 e1 pre acc hg hl
  have : ck' = ck := by rw [hck', hck]
  subst this
  rw [hev]
  unfold openBody
  simp only [hg, hl]
  rw [← hck]
  simp only [Disk.applyAll_append]
  exact ite_pair_snd _ _ _ _ _

/-- **open, event by event.** -/
theorem open_sim_full (so : StrictOrder kind.lt) (hH : Hash32 H) (cfg : Config) (hk : cfg.kind = kind)
    (hn : cfg.N = N) (sys : Sys (KMap Bytes) Bytes) (hist : Recs Bytes) (d0 : Disk)
    (c : DCfg H kind sz N sys hist d0) (hdown : sys.up = false)
    (e1 : List Ev) (pre : Bool) (hg : settingsGate cfg d0 = .ok (e1, pre))
    (hsave : ∀ a, logical H kind (d0.applyAll e1) = .ok a → SaveOK kind a.idx ∧ a.highest + 1 < U64) :
    ∃ acc, logical H kind (d0.applyAll e1) = .ok acc ∧
      run (stepM kind) [] hist = .ok acc.idx.map ∧ (∀ e ∈ hist, e.1 ≤ acc.highest) ∧
      AllPre (Recoverable H kind sz N [hist]) d0 (openBody H cfg d0).1 ∧
      ∃ m sys', (∀ m' sc, (openBody H cfg d0).2 = .ok (m', sc) → m' = m) ∧
        m.idx.map = acc.idx.map ∧ m.next = acc.highest + 1 ∧
        Tied H kind sz N m sys' hist (d0.applyAll (openBody H cfg d0).1) ∧
        (openBody H cfg d0).2 =
          (if cfg.scan ∧ cfg.failOnIntegrity ∧
              ((scanCanonical H cfg.verify m.idx (d0.applyAll (openBody H cfg d0).1)).missing ≠ [] ∨
               (scanCanonical H cfg.verify m.idx (d0.applyAll (openBody H cfg d0).1)).corrupted ≠ [])
           then .error (.integrity
              (scanCanonical H cfg.verify m.idx (d0.applyAll (openBody H cfg d0).1)).missing.length
              (scanCanonical H cfg.verify m.idx (d0.applyAll (openBody H cfg d0).1)).corrupted.length)
           else .ok (m, scanCanonical H cfg.verify m.idx (d0.applyAll (openBody H cfg d0).1))) := by
  have hfree := settingsGate_free cfg d0 e1 pre hg
  have c1 := c.freeAll H kind sz N sys hist d0 e1 hfree
  have pre1 : AllPre (Recoverable H kind sz N [hist]) d0 e1 := by
    clear c1 hsave hg
    induction e1 generalizing d0 with
    | nil => exact allPre_nil _ _ (c.toRec H kind sz N [hist] (by simp))
    | cons e es ih =>
      apply allPre_cons _ _ _ _ (c.toRec H kind sz N [hist] (by simp))
      exact ih _ (c.free H kind sz N sys hist d0 e (hfree e (by simp)).1 (hfree e (by simp)).2)
        (fun e' he' => hfree e' (by simp [he']))
  obtain ⟨acc, hl, hrun, hinv, hhi, hsv, hlp, hrec⟩ := c1.recovers H hH kind so sz N sys hist _
  have hl' : logical H cfg.kind (d0.applyAll e1) = .ok acc := by rw [hk]; exact hl
  obtain ⟨ck, hck, hev, hmem⟩ := openBody_eq H cfg d0 e1 pre acc hg hl'
  have hres := openBody_result H cfg d0 e1 pre acc hg hl' ck hck
  -- the machine opens
  have hact : act (stepM kind) N sys .open_ = some
      { sys with up := true, st := acc.idx.map, next := acc.highest + 1 } := by
    simp [act, hdown, hrec]
  have good1 := act_good (stepM kind) [] N hist sys _ c1.good .open_ hact
  let sys1 : Sys (KMap Bytes) Bytes := { sys with up := true, st := acc.idx.map, next := acc.highest + 1 }
  have cfg1 : Cfg H kind sz N sys1 hist (d0.applyAll e1) :=
    ⟨⟨good1, c1.rel, c1.histOK, c1.unsealed⟩, rfl⟩
  have hseg : segOf cfg.N (acc.highest + 1) = Ghost.segOf N sys1.next := by rw [hn]; rfl
  rw [hseg] at hck hev
  -- the segment of the next version
  let m0 : Mem := { cfg := cfg, idx := acc.idx, next := acc.highest + 1, active := none, preCreated := pre }
  have step2 : ∃ sys2, sys2.next = sys1.next ∧ sys2.st = sys1.st ∧ sys2.g.snapVer = sys1.g.snapVer ∧
      Cfg H kind sz N sys2 hist ((d0.applyAll e1).applyAll
        (if (d0.applyAll e1).has (.seg (Ghost.segOf N sys1.next)) then []
         else [Ev.creat (.seg (Ghost.segOf N sys1.next)) true, .sync (.seg (Ghost.segOf N sys1.next))])) ∧
      AllPre (Recoverable H kind sz N [hist]) (d0.applyAll e1)
        (if (d0.applyAll e1).has (.seg (Ghost.segOf N sys1.next)) then []
         else [Ev.creat (.seg (Ghost.segOf N sys1.next)) true, .sync (.seg (Ghost.segOf N sys1.next))]) := by
    by_cases hhas : (d0.applyAll e1).has (.seg (Ghost.segOf N sys1.next)) = true
    · simp only [hhas, ↓reduceIte]
      exact ⟨sys1, rfl, rfl, rfl, cfg1, allPre_nil _ _ (cfg1.toRec H kind sz N [hist] (by simp))⟩
    · simp only [hhas, Bool.false_eq_true, ↓reduceIte]
      have hnone : segData (d0.applyAll e1) (Ghost.segOf N sys1.next) = none := by
        rw [has_seg_iff] at hhas
        cases hx : segData (d0.applyAll e1) (Ghost.segOf N sys1.next) with
        | none => rfl
        | some x => simp [hx] at hhas
      obtain ⟨sys2, _, n2, s2, v2, c2, _⟩ := cfg1.ensure H kind sz N sys1 hist _ true (Or.inr hnone)
      have c3 := c2.free H kind sz N sys2 hist _ (.sync (.seg (Ghost.segOf N sys1.next)))
        (by simp [Ev.segFree]) (by simp [Ev.indexFree])
      refine ⟨sys2, n2, s2, v2, c3, ?_⟩
      apply allPre_cons _ _ _ _ (cfg1.toRec H kind sz N [hist] (by simp))
      apply allPre_cons _ _ _ _ (c2.toRec H kind sz N [hist] (by simp))
      exact allPre_nil _ _ (c3.toRec H kind sz N [hist] (by simp))
  obtain ⟨sys2, n2, s2, v2, c2, pre2⟩ := step2
  have t0 : Tied H kind sz N m0 sys2 hist ((d0.applyAll e1).applyAll
      (if (d0.applyAll e1).has (.seg (Ghost.segOf N sys1.next)) then []
       else [Ev.creat (.seg (Ghost.segOf N sys1.next)) true, .sync (.seg (Ghost.segOf N sys1.next))])) :=
    ⟨c2, hk, hn, n2, s2, hinv, by intro a ha; simp [m0] at ha, by rw [v2]; exact hlp⟩
  -- the after-replay checkpoint
  by_cases hrep : acc.replayed > 0
  · rw [if_pos hrep] at hck
    obtain ⟨hs1, hs2⟩ := hsave acc hl
    obtain ⟨pre3, sys3, t3⟩ := checkpoint_sim H kind sz N so .afterReplay m0 sys2 hist _
      ((d0.applyAll e1).applyAll
        (if (d0.applyAll e1).has (.seg (Ghost.segOf N sys1.next)) then []
         else [Ev.creat (.seg (Ghost.segOf N sys1.next)) true, .sync (.seg (Ghost.segOf N sys1.next))]))
      t0 hs1 hs2 [hist] (by simp)
    refine ⟨acc, hl, hrun, hhi, ?_, ck.2, sys3, hmem, ?_, ?_, ?_, hres⟩
    · rw [hev, hck]
      exact allPre_append _ _ _ _ (allPre_append _ _ _ _ pre1 pre2) (by
        rw [Disk.applyAll_append d0 e1]; exact pre3)
    · rw [hck]
      unfold checkpointScript
      split <;> rfl
    · rw [hck]
      unfold checkpointScript
      split <;> rfl
    · rw [hev, hck, Disk.applyAll_append d0 (e1 ++ _), Disk.applyAll_append d0 e1]
      exact t3
  · rw [if_neg hrep] at hck
    refine ⟨acc, hl, hrun, hhi, ?_, ck.2, sys2, hmem, by rw [hck], by rw [hck], ?_, hres⟩
    · rw [hev, hck]
      simp only [List.append_nil]
      exact allPre_append _ _ _ _ pre1 pre2
    · rw [hev, hck]
      simp only [List.append_nil]
      rw [Disk.applyAll_append d0 e1]
      exact t0

end CasModel

namespace CasModel
open Ghost

variable (H : Bytes → Bytes) (kind : KeyKind) (sz : Bytes → Nat) (N : Nat)

/-- **open, event by event** (without the shape of the result) -/
theorem open_sim (so : StrictOrder kind.lt) (hH : Hash32 H) (cfg : Config) (hk : cfg.kind = kind)
    (hn : cfg.N = N) (sys : Sys (KMap Bytes) Bytes) (hist : Recs Bytes) (d0 : Disk)
    (c : DCfg H kind sz N sys hist d0) (hdown : sys.up = false)
    (e1 : List Ev) (pre : Bool) (hg : settingsGate cfg d0 = .ok (e1, pre))
    (hsave : ∀ a, logical H kind (d0.applyAll e1) = .ok a → SaveOK kind a.idx ∧ a.highest + 1 < U64) :
    ∃ acc, logical H kind (d0.applyAll e1) = .ok acc ∧
      run (stepM kind) [] hist = .ok acc.idx.map ∧ (∀ e ∈ hist, e.1 ≤ acc.highest) ∧
      AllPre (Recoverable H kind sz N [hist]) d0 (openBody H cfg d0).1 ∧
      ∃ m sys', (∀ m' sc, (openBody H cfg d0).2 = .ok (m', sc) → m' = m) ∧
        m.idx.map = acc.idx.map ∧ m.next = acc.highest + 1 ∧
        Tied H kind sz N m sys' hist (d0.applyAll (openBody H cfg d0).1) := by
  obtain ⟨acc, a, b, c', d', m, sys', e, f, g, h, _⟩ :=
    open_sim_full H kind sz N so hH cfg hk hn sys hist d0 c hdown e1 pre hg hsave
  exact ⟨acc, a, b, c', d', m, sys', e, f, g, h⟩

/-- the process dies (or the handle is dropped): memory is gone, the disk configuration stays -/
theorem DCfg.crash (sys : Sys (KMap Bytes) Bytes) (hist : Recs Bytes) (d : Disk)
    (c : DCfg H kind sz N sys hist d) : DCfg H kind sz N { sys with up := false } hist d :=
  ⟨act_good (stepM kind) [] N hist sys _ c.good .crash rfl, c.rel, c.histOK, c.unsealed⟩

/-- **recovery from any recoverable image.** Whatever `Recoverable` disk a kill left behind,
    `open` (once the settings gate passes) reads exactly the key map after one of the allowed
    histories, every prefix of its own script is recoverable to that same history, and on
    completion memory and disk are tied. -/
theorem open_of_recoverable (so : StrictOrder kind.lt) (hH : Hash32 H) (cfg : Config)
    (hk : cfg.kind = kind) (hn : cfg.N = N) (hists : List (Recs Bytes)) (d0 : Disk)
    (r : Recoverable H kind sz N hists d0)
    (e1 : List Ev) (pre : Bool) (hg : settingsGate cfg d0 = .ok (e1, pre))
    (hsave : ∀ a, logical H kind (d0.applyAll e1) = .ok a → SaveOK kind a.idx ∧ a.highest + 1 < U64) :
    ∃ hist ∈ hists, ∃ acc, logical H kind (d0.applyAll e1) = .ok acc ∧
      run (stepM kind) [] hist = .ok acc.idx.map ∧
      AllPre (Recoverable H kind sz N [hist]) d0 (openBody H cfg d0).1 ∧
      ∃ m sys', (∀ m' sc, (openBody H cfg d0).2 = .ok (m', sc) → m' = m) ∧
        m.idx.map = acc.idx.map ∧
        Tied H kind sz N m sys' hist (d0.applyAll (openBody H cfg d0).1) := by
  obtain ⟨sys, hist, hmem, c⟩ := r
  have c' := c.crash H kind sz N sys hist d0
  obtain ⟨acc, h1, h2, _, h4, m, sys', h5, h6, _, h8⟩ :=
    open_sim H kind sz N so hH cfg hk hn _ hist d0 c' rfl e1 pre hg hsave
  exact ⟨hist, hmem, acc, h1, h2, h4, m, sys', h5, h6, h8⟩

end CasModel
