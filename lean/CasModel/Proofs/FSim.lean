import CasModel.Proofs.Simulation
import CasModel.Proofs.WalFault
/-
  FSim: the byte-level simulation of Proofs/Simulation, redone over the machine WITH failed appends
  (Proofs/WalFault).  `FCfg fs h d`: the machine state `fs` (a live handle, possibly with records
  retained in the segment writer) is FGood for the three histories `h`, the disk `d` abstracts to
  its ghost disk, every durable / retained record is well formed, and every segment at or above the
  one of the next version is unsealed.

  The sealing invariant is the next-based one: it is what a live handle needs in order to go on
  appending.  (After a failed append has consumed a version the history-based form of
  Proofs/Simulation does not hold between the seal of the old segment and the write of the next
  record; C14 does not combine faults with crashes, so only completed operations matter here.)
-/
namespace CasModel
open Ghost

variable (H : Bytes → Bytes) (kind : KeyKind) (sz : Bytes → Nat) (N : Nat)

theorem stepM_ind : StepInd (stepM kind) := by
  intro s s' r t h
  unfold stepM at h ⊢
  cases hd : deserWalOp r with
  | error e => simp [hd] at h
  | ok raw =>
    cases hc : fromRaw kind raw with
    | none => simp [hd, hc] at h
    | some op => exact ⟨mapApply kind.lt s' op, by simp [hc]⟩

theorem stepM_of_recOK (p : Bytes) (hp : RecOK kind sz p) (s : KMap Bytes) :
    ∃ op, stepM kind s p = .ok (mapApply kind.lt s op) ∧ OpOK sz op ∧
      ∃ raw, deserWalOp p = .ok raw ∧ fromRaw kind raw = some op := by
  obtain ⟨raw, op, h1, h2, h3⟩ := hp
  exact ⟨op, by simp [stepM, h1, h2], h3, raw, h1, h2⟩

structure FCfg (fs : FSys (KMap Bytes) Bytes) (h : Hist Bytes) (d : Disk) : Prop where
  good : FGood (stepM kind) [] N h fs
  rel : DiskRel H kind sz d fs.sys.g
  histOK : ∀ e ∈ h.hd, RecOK kind sz e.2
  pendRec : ∀ p ∈ fs.pend, RecOK kind sz p.2 ∧ (⟨p.1, p.2⟩ : Rec).WF
  up : fs.sys.up = true
  unsealed : ∀ i recs, segGet fs.sys.g.segs i = some recs →
    SegFile H d i recs 0 ∨ i < Ghost.segOf N fs.sys.next

/-- byte-level recovery of the disk of a configuration: the durable history -/
theorem FCfg.recovers (hH : Hash32 H) (so : StrictOrder kind.lt) (fs : FSys (KMap Bytes) Bytes)
    (h : Hist Bytes) (d : Disk) (c : FCfg H kind sz N fs h d) :
    ∃ a, logical H kind d = .ok a ∧ run (stepM kind) [] h.hd = .ok a.idx.map ∧
      IdxInv kind.lt sz a.idx ∧ (∀ e ∈ h.hd, e.1 ≤ a.highest) ∧ fs.sys.g.snapVer ≤ a.highest :=
  let ⟨a, h1, h2, h3, h4, h5, _⟩ :=
    diskRel_recovers H hH kind so sz N d fs.sys.g c.rel h.hd c.good.ginv c.histOK
  ⟨a, h1, h2, h3, h4, h5⟩

/-- a configuration depends on the disk only through its segment files, its index file and
    well-formedness -/
theorem FCfg.of_data (fs : FSys (KMap Bytes) Bytes) (h : Hist Bytes) (d d' : Disk)
    (c : FCfg H kind sz N fs h d) (hw : d'.WF) (hs : ∀ i, segData d' i = segData d i)
    (hi : indexData d' = indexData d) : FCfg H kind sz N fs h d' := by
  refine ⟨c.good, ⟨hw, c.rel.segs.of_data H d d' _ hs, ?_⟩, c.histOK, c.pendRec, c.up, ?_⟩
  · obtain ⟨s, a, b⟩ := c.rel.snap
    exact ⟨s, by rw [loadSnapshot_congr kind d d' hi]; exact a, b⟩
  · intro i recs hg
    rcases c.unsealed i recs hg with x | x
    · exact Or.inl (x.of_data H d d' i recs 0 (hs i))
    · exact Or.inr x

theorem FCfg.free (fs : FSys (KMap Bytes) Bytes) (h : Hist Bytes) (d : Disk)
    (c : FCfg H kind sz N fs h d) (e : Ev) (h1 : e.segFree = true) (h2 : e.indexFree = true) :
    FCfg H kind sz N fs h (d.apply e) :=
  c.of_data H kind sz N fs h d _ (Disk.apply_WF d c.rel.wf e) (segData_segFree d c.rel.wf e h1)
    (indexData_indexFree d c.rel.wf e h2)

theorem FCfg.freeAll (fs : FSys (KMap Bytes) Bytes) (h : Hist Bytes) (d : Disk)
    (c : FCfg H kind sz N fs h d) (evs : List Ev)
    (hf : ∀ e ∈ evs, e.segFree = true ∧ e.indexFree = true) :
    FCfg H kind sz N fs h (d.applyAll evs) := by
  induction evs generalizing d with
  | nil => exact c
  | cons e evs ih =>
    rw [Disk.applyAll_cons]
    exact ih _ (c.free H kind sz N fs h d e (hf e (by simp)).1 (hf e (by simp)).2)
      (fun e' he' => hf e' (by simp [he']))

/-- sealing a segment below the one of the next version -/
theorem FCfg.seal (fs : FSys (KMap Bytes) Bytes) (h : Hist Bytes) (d : Disk)
    (c : FCfg H kind sz N fs h d) (a : Nat) (ha : a < Ghost.segOf N fs.sys.next) :
    FCfg H kind sz N fs h (d.apply (.write (.seg a) sentinel)) := by
  refine ⟨c.good, ⟨Disk.apply_WF d c.rel.wf _, c.rel.segs.seal H d _ a,
    snapRel_segEvent kind sz d c.rel.wf _ (by simp [Ev.indexFree]) _ _ c.rel.snap⟩, c.histOK,
    c.pendRec, c.up, ?_⟩
  intro i recs hg
  by_cases ci : i = a
  · subst ci; exact Or.inr ha
  · rcases c.unsealed i recs hg with x | x
    · left
      apply x.of_data H d _ i recs 0
      rw [segData_write]; simp [ci]
    · exact Or.inr x

/-- a failed append whose record is lost: only the version is consumed -/
theorem FCfg.failLost (fs : FSys (KMap Bytes) Bytes) (h : Hist Bytes) (d : Disk)
    (c : FCfg H kind sz N fs h d) (p : Bytes) :
    FCfg H kind sz N ⟨{ fs.sys with next := fs.sys.next + 1 }, fs.pend⟩
      { h with failed := h.failed ++ [(fs.sys.next, p)] } d := by
  have hact : fact (stepM kind) N fs (.failLost p) =
      some ⟨{ fs.sys with next := fs.sys.next + 1 }, fs.pend⟩ := by simp [fact, c.up]
  have good' := fact_good (stepM kind) (stepM_ind kind) [] N h fs _ c.good (.failLost p) hact
  refine ⟨good', c.rel, c.histOK, c.pendRec, c.up, ?_⟩
  intro i recs hg
  rcases c.unsealed i recs hg with x | x
  · exact Or.inl x
  · right
    have := segOf_mono N (show fs.sys.next ≤ fs.sys.next + 1 by omega)
    show i < Ghost.segOf N (fs.sys.next + 1)
    omega

/-- a failed append whose record stays in the writer's buffer -/
theorem FCfg.failKeep (fs : FSys (KMap Bytes) Bytes) (h : Hist Bytes) (d : Disk)
    (c : FCfg H kind sz N fs h d) (p : Bytes) (hp : RecOK kind sz p)
    (hwf : (⟨fs.sys.next, p⟩ : Rec).WF) :
    FCfg H kind sz N ⟨{ fs.sys with next := fs.sys.next + 1 }, fs.pend ++ [(fs.sys.next, p)]⟩
      { h with failed := h.failed ++ [(fs.sys.next, p)] } d := by
  obtain ⟨op, hstep, _⟩ := stepM_of_recOK kind sz p hp fs.sys.st
  have hact : fact (stepM kind) N fs (.failKeep p) =
      some ⟨{ fs.sys with next := fs.sys.next + 1 }, fs.pend ++ [(fs.sys.next, p)]⟩ := by
    simp [fact, c.up, hstep]
  have good' := fact_good (stepM kind) (stepM_ind kind) [] N h fs _ c.good (.failKeep p) hact
  refine ⟨good', c.rel, c.histOK, ?_, c.up, ?_⟩
  · intro q hq
    rcases List.mem_append.mp hq with hq | hq
    · exact c.pendRec q hq
    · simp only [List.mem_singleton] at hq; subst hq; exact ⟨hp, hwf⟩
  · intro i recs hg
    rcases c.unsealed i recs hg with x | x
    · exact Or.inl x
    · right
      have := segOf_mono N (show fs.sys.next ≤ fs.sys.next + 1 by omega)
      show i < Ghost.segOf N (fs.sys.next + 1)
      omega

/-- creating the segment file of the next version = `ensure` -/
theorem FCfg.ensure (fs : FSys (KMap Bytes) Bytes) (h : Hist Bytes) (d : Disk)
    (c : FCfg H kind sz N fs h d) (trunc : Bool)
    (htr : trunc = false ∨ segData d (Ghost.segOf N fs.sys.next) = none) :
    ∃ fs', fs'.sys.next = fs.sys.next ∧ fs'.sys.st = fs.sys.st ∧ fs'.pend = fs.pend ∧
      fs'.sys.g.snapVer = fs.sys.g.snapVer ∧
      FCfg H kind sz N fs' h (d.apply (.creat (.seg (Ghost.segOf N fs.sys.next)) trunc)) ∧
      (∃ old, segGet fs'.sys.g.segs (Ghost.segOf N fs.sys.next) = some old) ∧
      (∀ i, i ≠ Ghost.segOf N fs.sys.next → segGet fs'.sys.g.segs i = segGet fs.sys.g.segs i) := by
  have hact : fact (stepM kind) N fs (.ok .ensure) = some
      ⟨{ fs.sys with g := { fs.sys.g with segs := segInsert fs.sys.g.segs (Ghost.segOf N fs.sys.next) none } }, fs.pend⟩ := by
    simp [fact, act, c.up]
  have good' := fact_good (stepM kind) (stepM_ind kind) [] N h fs _ c.good (.ok .ensure) hact
  refine ⟨⟨{ fs.sys with g := { fs.sys.g with segs := segInsert fs.sys.g.segs (Ghost.segOf N fs.sys.next) none } }, fs.pend⟩,
    rfl, rfl, rfl, rfl, ?_, ?_, ?_⟩
  · refine ⟨good', ⟨Disk.apply_WF d c.rel.wf _,
      c.rel.segs.creat H d _ (Ghost.segOf N fs.sys.next) trunc htr,
      snapRel_segEvent kind sz d c.rel.wf _ (by simp [Ev.indexFree]) _ _ c.rel.snap⟩, c.histOK,
      c.pendRec, c.up, ?_⟩
    intro i recs hg
    simp only at hg
    rw [segGet_segInsert _ c.rel.segs.sorted] at hg
    by_cases ci : i = Ghost.segOf N fs.sys.next
    · subst ci
      simp only [↓reduceIte, Option.toList_none, List.append_nil, Option.some.injEq] at hg
      left
      cases hs : segGet fs.sys.g.segs (Ghost.segOf N fs.sys.next) with
      | none =>
        have hn : segData d (Ghost.segOf N fs.sys.next) = none := by
          have := c.rel.segs.get_isSome H d _ (Ghost.segOf N fs.sys.next)
          rw [hs, has_seg_iff] at this
          cases hx : segData d (Ghost.segOf N fs.sys.next) with
          | none => rfl
          | some x => simp [hx] at this
        refine (segFile_iff H _ _ recs 0).mpr ⟨[], ?_, by simp, ?_⟩
        · rw [segData_creat]; simp [hn, encodeAll, zeros]
        · rw [← hg, hs]; rfl
      | some old =>
        have hk : SegFile H d (Ghost.segOf N fs.sys.next) old 0 := by
          rcases c.unsealed _ old hs with x | x
          · exact x
          · omega
        obtain ⟨rs, h1, h2, h3⟩ := (segFile_iff H d _ old 0).mp hk
        have htr' : trunc = false := by
          rcases htr with x | x
          · exact x
          · rw [h1] at x; cases x
        refine (segFile_iff H _ _ recs 0).mpr ⟨rs, ?_, h2, ?_⟩
        · rw [segData_creat]; simp [h1, htr']
        · rw [← hg, hs]; simpa using h3
    · simp only [ci, ↓reduceIte] at hg
      rcases c.unsealed i recs hg with x | x
      · left
        apply x.of_data H d _ i recs 0
        rw [segData_creat]; simp [ci]
      · exact Or.inr x
  · simp only
    rw [segGet_segInsert _ c.rel.segs.sorted]
    simp
  · intro i hi
    simp only
    rw [segGet_segInsert _ c.rel.segs.sorted]
    simp [hi]

/-- appending the framed record of the next version (nothing retained) = `append` -/
theorem FCfg.append (hH : Hash32 H) (fs : FSys (KMap Bytes) Bytes) (h : Hist Bytes) (d : Disk)
    (c : FCfg H kind sz N fs h d) (hpe : fs.pend = []) (p : Bytes) (hp : RecOK kind sz p)
    (hwf : (⟨fs.sys.next, p⟩ : Rec).WF) (old : Recs Bytes)
    (hold : segGet fs.sys.g.segs (Ghost.segOf N fs.sys.next) = some old) :
    ∃ fs', fs'.sys.next = fs.sys.next + 1 ∧ stepM kind fs.sys.st p = .ok fs'.sys.st ∧
      fs'.pend = [] ∧ fs'.sys.g.snapVer = fs.sys.g.snapVer ∧
      segGet fs'.sys.g.segs (Ghost.segOf N fs.sys.next) = some (old ++ [(fs.sys.next, p)]) ∧
      (∀ i, i ≠ Ghost.segOf N fs.sys.next → segGet fs'.sys.g.segs i = segGet fs.sys.g.segs i) ∧
      FCfg H kind sz N fs'
        { h with hd := h.hd ++ [(fs.sys.next, p)], hm := h.hm ++ [(fs.sys.next, p)] }
        (d.apply (.write (.seg (Ghost.segOf N fs.sys.next)) (encodeEntry H ⟨fs.sys.next, p⟩))) := by
  obtain ⟨raw, op, h1, h2, h3⟩ := hp
  have hstep : stepM kind fs.sys.st p = .ok (mapApply kind.lt fs.sys.st op) := by simp [stepM, h1, h2]
  have hact : fact (stepM kind) N fs (.ok (.append p)) = some
      ⟨{ fs.sys with g := { fs.sys.g with segs := segInsert fs.sys.g.segs (Ghost.segOf N fs.sys.next) (some (fs.sys.next, p)) }, st := mapApply kind.lt fs.sys.st op, next := fs.sys.next + 1 }, []⟩ := by
    simp [fact, act, c.up, hstep, hpe]
  have good' := fact_good (stepM kind) (stepM_ind kind) [] N h fs _ c.good (.ok (.append p)) hact
  have hk : SegFile H d (Ghost.segOf N fs.sys.next) old 0 := by
    rcases c.unsealed _ old hold with x | x
    · exact x
    · omega
  obtain ⟨r1, r2⟩ := c.rel.segs.append H d _ (Ghost.segOf N fs.sys.next) ⟨fs.sys.next, p⟩ hwf old hold hk
  refine ⟨⟨{ fs.sys with g := { fs.sys.g with segs := segInsert fs.sys.g.segs (Ghost.segOf N fs.sys.next) (some (fs.sys.next, p)) }, st := mapApply kind.lt fs.sys.st op, next := fs.sys.next + 1 }, []⟩,
    rfl, hstep, rfl, rfl, ?_, ?_, ?_⟩
  · simp only
    rw [segGet_segInsert _ c.rel.segs.sorted]
    simp [hold]
  · intro i hi
    simp only
    rw [segGet_segInsert _ c.rel.segs.sorted]
    simp [hi]
  refine ⟨good', ⟨Disk.apply_WF d c.rel.wf _, r1,
      snapRel_segEvent kind sz d c.rel.wf _ (by simp [Ev.indexFree]) _ _ c.rel.snap⟩, ?_, ?_, c.up, ?_⟩
  · intro e he
    rcases List.mem_append.mp he with he | he
    · exact c.histOK e he
    · simp only [List.mem_singleton] at he; subst he; exact ⟨raw, op, h1, h2, h3⟩
  · intro q hq; cases hq
  · intro i recs hg
    simp only at hg
    rw [segGet_segInsert _ c.rel.segs.sorted] at hg
    by_cases ci : i = Ghost.segOf N fs.sys.next
    · subst ci
      simp only [↓reduceIte, hold, Option.getD_some, Option.toList_some, Option.some.injEq] at hg
      subst hg
      exact Or.inl r2
    · simp only [ci, ↓reduceIte] at hg
      rcases c.unsealed i recs hg with x | x
      · left
        apply x.of_data H d _ i recs 0
        rw [segData_write]; simp [ci]
      · right
        have := segOf_mono N (show fs.sys.next ≤ fs.sys.next + 1 by omega)
        show i < Ghost.segOf N (fs.sys.next + 1)
        omega

/-- the oldest retained record reaches its (unsealed, existing) segment file = `flush` -/
theorem FCfg.flush (hH : Hash32 H) (fs : FSys (KMap Bytes) Bytes) (h : Hist Bytes) (d : Disk)
    (c : FCfg H kind sz N fs h d) (p : Nat × Bytes) (rest : Recs Bytes) (hpe : fs.pend = p :: rest)
    (old : Recs Bytes) (hold : segGet fs.sys.g.segs (Ghost.segOf N p.1) = some old)
    (hk : SegFile H d (Ghost.segOf N p.1) old 0) :
    ∃ fs', fs'.sys.next = fs.sys.next ∧ fs'.sys.st = fs.sys.st ∧ fs'.pend = rest ∧
      fs'.sys.g.snapVer = fs.sys.g.snapVer ∧
      segGet fs'.sys.g.segs (Ghost.segOf N p.1) = some (old ++ [p]) ∧
      (∀ i, i ≠ Ghost.segOf N p.1 → segGet fs'.sys.g.segs i = segGet fs.sys.g.segs i) ∧
      SegFile H (d.apply (.write (.seg (Ghost.segOf N p.1)) (encodeEntry H ⟨p.1, p.2⟩)))
        (Ghost.segOf N p.1) (old ++ [p]) 0 ∧
      FCfg H kind sz N fs' (fhistAfter fs h .flush)
        (d.apply (.write (.seg (Ghost.segOf N p.1)) (encodeEntry H ⟨p.1, p.2⟩))) := by
  have hact : fact (stepM kind) N fs .flush = some
      ⟨{ fs.sys with g := { fs.sys.g with segs := segInsert fs.sys.g.segs (Ghost.segOf N p.1) (some p) } }, rest⟩ := by
    simp [fact, c.up, hpe]
  have good' := fact_good (stepM kind) (stepM_ind kind) [] N h fs _ c.good .flush hact
  have hpm : p ∈ fs.pend := by simp [hpe]
  obtain ⟨hprec, hpwf⟩ := c.pendRec p hpm
  obtain ⟨r1, r2⟩ := c.rel.segs.append H d _ (Ghost.segOf N p.1) ⟨p.1, p.2⟩ hpwf old hold hk
  have r1' : SegRel H (d.apply (.write (.seg (Ghost.segOf N p.1)) (encodeEntry H ⟨p.1, p.2⟩)))
      (segInsert fs.sys.g.segs (Ghost.segOf N p.1) (some p)) := r1
  refine ⟨⟨{ fs.sys with g := { fs.sys.g with segs := segInsert fs.sys.g.segs (Ghost.segOf N p.1) (some p) } }, rest⟩,
    rfl, rfl, rfl, rfl, ?_, ?_, r2, ?_⟩
  · simp only
    rw [segGet_segInsert _ c.rel.segs.sorted]
    simp [hold]
  · intro i hi
    simp only
    rw [segGet_segInsert _ c.rel.segs.sorted]
    simp [hi]
  refine ⟨good', ⟨Disk.apply_WF d c.rel.wf _, r1',
      snapRel_segEvent kind sz d c.rel.wf _ (by simp [Ev.indexFree]) _ _ c.rel.snap⟩, ?_, ?_, c.up, ?_⟩
  · intro e he
    simp only [fhistAfter, hpe] at he
    split at he
    · rcases List.mem_append.mp he with he | he
      · exact c.histOK e he
      · simp only [List.mem_singleton] at he; subst he; exact hprec
    · exact c.histOK e he
  · intro q hq; exact c.pendRec q (by simp [hpe, hq])
  · intro i recs hg
    simp only at hg
    rw [segGet_segInsert _ c.rel.segs.sorted] at hg
    by_cases ci : i = Ghost.segOf N p.1
    · subst ci
      simp only [↓reduceIte, hold, Option.getD_some, Option.toList_some, Option.some.injEq] at hg
      subst hg
      exact Or.inl r2
    · simp only [ci, ↓reduceIte] at hg
      rcases c.unsealed i recs hg with x | x
      · left
        apply x.of_data H d _ i recs 0
        rw [segData_write]; simp [ci]
      · exact Or.inr x

/-- unlinking a segment below the one of the snapshot version = `prune` -/
theorem FCfg.prune (fs : FSys (KMap Bytes) Bytes) (h : Hist Bytes) (d : Disk)
    (c : FCfg H kind sz N fs h d) (j : Nat) (hj : j < Ghost.segOf N fs.sys.g.snapVer) :
    ∃ fs', fs'.sys.next = fs.sys.next ∧ fs'.sys.st = fs.sys.st ∧ fs'.pend = fs.pend ∧
      fs'.sys.g.snapVer = fs.sys.g.snapVer ∧
      (∀ i, i ≠ j → segGet fs'.sys.g.segs i = segGet fs.sys.g.segs i) ∧
      FCfg H kind sz N fs' h (d.apply (.unlink (.seg j))) := by
  have hact : fact (stepM kind) N fs (.ok (.prune j)) = some
      ⟨{ fs.sys with g := { fs.sys.g with segs := removeSeg fs.sys.g.segs j } }, fs.pend⟩ := by
    simp [fact, act, hj]
  have good' := fact_good (stepM kind) (stepM_ind kind) [] N h fs _ c.good (.ok (.prune j)) hact
  refine ⟨⟨{ fs.sys with g := { fs.sys.g with segs := removeSeg fs.sys.g.segs j } }, fs.pend⟩,
    rfl, rfl, rfl, rfl, ?_, ⟨good', ⟨Disk.apply_WF d c.rel.wf _,
      c.rel.segs.unlink H d c.rel.wf _ j,
      snapRel_segEvent kind sz d c.rel.wf _ (by simp [Ev.indexFree]) _ _ c.rel.snap⟩, c.histOK,
      c.pendRec, c.up, ?_⟩⟩
  · intro i hi
    simp only
    rw [segGet_removeSeg _ c.rel.segs.sorted]
    simp [hi]
  intro i recs hg
  simp only at hg
  rw [segGet_removeSeg _ c.rel.segs.sorted] at hg
  by_cases ci : i = j
  · simp [ci] at hg
  · simp only [ci, ↓reduceIte] at hg
    rcases c.unsealed i recs hg with x | x
    · left
      apply x.of_data H d _ i recs 0
      rw [segData_unlink d c.rel.wf]; simp [ci]
    · exact Or.inr x

/-- renaming a complete image of the in-memory index over the index file = `install`; the durable
    history becomes the memory history -/
theorem FCfg.install (so : StrictOrder kind.lt) (fs : FSys (KMap Bytes) Bytes) (h : Hist Bytes)
    (d : Disk) (c : FCfg H kind sz N fs h d) (s : IndexState Bytes)
    (hinv : IdxInv kind.lt sz s) (hmap : s.map = fs.sys.st) (hn : 1 < fs.sys.next)
    (sv : Saveable kind s (fs.sys.next - 1)) (synced : Nat)
    (htmp : d.get .indexTmp = some ⟨serIndex (entriesOf s.map) (fs.sys.next - 1), synced⟩) :
    ∃ fs', fs'.sys.next = fs.sys.next ∧ fs'.sys.st = fs.sys.st ∧ fs'.pend = fs.pend ∧
      fs'.sys.g.snapVer = fs.sys.next - 1 ∧ fs'.sys.g.segs = fs.sys.g.segs ∧
      FCfg H kind sz N fs' { h with hd := h.hm } (d.apply (.rename .indexTmp .index)) := by
  have hact : fact (stepM kind) N fs (.ok .install) = some
      ⟨{ fs.sys with g := { fs.sys.g with snapVer := fs.sys.next - 1, snapState := fs.sys.st } },
       fs.pend⟩ := by
    simp [fact, act, c.up, hn]
  have good' := fact_good (stepM kind) (stepM_ind kind) [] N h fs _ c.good (.ok .install) hact
  have hidx : (d.apply (.rename .indexTmp .index)).get .index =
      some ⟨serIndex (entriesOf s.map) (fs.sys.next - 1), synced⟩ := by
    rw [Disk.get_rename d c.rel.wf, htmp]; simp
  obtain ⟨r, l1, l2, _, l4, _, _, _, l8⟩ := load_saved kind so sz s hinv (fs.sys.next - 1) sv _ synced hidx
  have hseg : ∀ i, segData (d.apply (.rename .indexTmp .index)) i = segData d i :=
    segData_segFree d c.rel.wf _ (by simp [Ev.segFree])
  refine ⟨⟨{ fs.sys with g := { fs.sys.g with snapVer := fs.sys.next - 1, snapState := fs.sys.st } },
       fs.pend⟩, rfl, rfl, rfl, rfl, rfl, ⟨good', ⟨Disk.apply_WF d c.rel.wf _,
      c.rel.segs.of_data H d _ _ hseg, ⟨r, l1, by rw [l2, hmap], l4, l8⟩⟩, ?_, c.pendRec, c.up, ?_⟩⟩
  · intro e he; exact c.histOK e (c.good.sub.subset he)
  · intro i recs hg
    rcases c.unsealed i recs hg with x | x
    · exact Or.inl (x.of_data H d _ i recs 0 (hseg i))
    · exact Or.inr x

end CasModel
