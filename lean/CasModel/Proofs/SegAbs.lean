import CasModel.Proofs.Bridge
import CasModel.Proofs.WalMachine
import CasModel.Proofs.FsLemmas
/-
  SegAbs: the WAL segment FILES of a disk versus the segment LISTS of the record-level machine.
  `SegRel H d segs`: the machine's segments are, id by id, what the files `<id>_index.wal` hold —
  the framing of the segment's records followed by `k` sentinels (k = 0: still being appended to).
  * `segRel_abs`: then `segsOf` (what byte-level recovery reads) returns exactly `segs`;
  * one lemma per filesystem event: creating a segment file = `segInsert _ id none`, appending a
    framed record = `segInsert _ id (some rec)`, sealing = no change, unlinking = `removeSeg`,
    every event on another file and every sync = no change.
-/
namespace CasModel
open Ghost

/-! ### `discover_segments` -/

theorem mem_insertSorted (n x : Nat) (l : List Nat) : x ∈ insertSorted n l ↔ x = n ∨ x ∈ l := by
  induction l with
  | nil => simp [insertSorted]
  | cons m r ih =>
    simp only [insertSorted]
    split
    · simp
    · simp only [List.mem_cons, ih]
      constructor
      · rintro (h | h | h)
        · right; left; exact h
        · left; exact h
        · right; right; exact h
      · rintro (h | h | h)
        · right; left; exact h
        · left; exact h
        · right; right; exact h

theorem insertSorted_sorted (n : Nat) (l : List Nat) (hs : l.Pairwise (· < ·)) (hn : n ∉ l) :
    (insertSorted n l).Pairwise (· < ·) := by
  induction l with
  | nil => simp [insertSorted]
  | cons m r ih =>
    have hs' := List.pairwise_cons.mp hs
    simp only [List.mem_cons, not_or] at hn
    simp only [insertSorted]
    split
    · next hle =>
      refine List.pairwise_cons.mpr ⟨?_, hs⟩
      intro x hx
      rcases List.mem_cons.mp hx with h | h
      · subst h; omega
      · have := hs'.1 x h; omega
    · next hle =>
      refine List.pairwise_cons.mpr ⟨?_, ih hs'.2 hn.2⟩
      intro x hx
      rcases (mem_insertSorted n x r).mp hx with h | h
      · subst h; omega
      · exact hs'.1 x h

def segFold (acc : List Nat) (fs : List (FileId × File)) : List Nat :=
  fs.foldl (fun acc (f, _) => match f with | .seg i => insertSorted i acc | _ => acc) acc

theorem segIds_eq (d : Disk) : segIds d = segFold [] d.files := rfl

theorem segFold_spec (fs : List (FileId × File)) (acc : List Nat) (hn : FKeysNodup fs)
    (hs : acc.Pairwise (· < ·)) (hd : ∀ i ∈ acc, FileId.seg i ∉ fs.map (·.1)) :
    (segFold acc fs).Pairwise (· < ·) ∧
    ∀ x, x ∈ segFold acc fs ↔ x ∈ acc ∨ FileId.seg x ∈ fs.map (·.1) := by
  induction fs generalizing acc with
  | nil => exact ⟨hs, fun x => by simp [segFold]⟩
  | cons e fs ih =>
    obtain ⟨f, y⟩ := e
    have hn' := (FKeysNodup_cons f y fs).mp hn
    simp only [segFold, List.foldl_cons]
    cases f with
    | seg i =>
      have hi : i ∉ acc := by
        intro hm
        exact hd i hm (by simp)
      have hs2 := insertSorted_sorted i acc hs hi
      have hd2 : ∀ j ∈ insertSorted i acc, FileId.seg j ∉ fs.map (·.1) := by
        intro j hj
        rcases (mem_insertSorted i j acc).mp hj with h | h
        · subst h; exact hn'.1
        · intro hm
          exact hd j h (by simp [hm])
      obtain ⟨a, b⟩ := ih (insertSorted i acc) hn'.2 hs2 hd2
      refine ⟨a, ?_⟩
      intro x
      have := b x
      simp only [segFold] at this
      rw [this, mem_insertSorted]
      simp only [List.map_cons, List.mem_cons, FileId.seg.injEq]
      constructor
      · rintro ((h | h) | h)
        · right; left; exact h
        · left; exact h
        · right; right; exact h
      · rintro (h | h | h)
        · left; right; exact h
        · left; left; exact h
        · right; exact h
    | _ =>
      have hd2 : ∀ j ∈ acc, FileId.seg j ∉ fs.map (·.1) := by
        intro j hj hm
        exact hd j hj (by simp [hm])
      obtain ⟨a, b⟩ := ih acc hn'.2 hs hd2
      refine ⟨a, ?_⟩
      intro x
      have := b x
      simp only [segFold] at this
      rw [this]
      simp

theorem segIds_sorted (d : Disk) (h : d.WF) : (segIds d).Pairwise (· < ·) :=
  (segFold_spec d.files [] h List.Pairwise.nil (by simp)).1

theorem not_mem_of_fget_none (fs : List (FileId × File)) (g : FileId) (h : fget fs g = none) :
    g ∉ fs.map (·.1) := by
  induction fs with
  | nil => simp
  | cons e fs ih =>
    obtain ⟨f, y⟩ := e
    simp only [fget] at h
    by_cases c : f = g
    · simp [c] at h
    · simp only [c, ↓reduceIte] at h
      simp only [List.map_cons, List.mem_cons, not_or]
      exact ⟨fun x => c x.symm, ih h⟩

theorem mem_segIds (d : Disk) (h : d.WF) (i : Nat) : i ∈ segIds d ↔ d.has (.seg i) = true := by
  rw [segIds_eq, (segFold_spec d.files [] h List.Pairwise.nil (by simp)).2 i]
  simp only [List.not_mem_nil, false_or, Disk.has]
  constructor
  · intro hm
    cases hg : fget d.files (.seg i) with
    | some x => rfl
    | none => exact absurd hm (not_mem_of_fget_none d.files _ hg)
  · intro hh
    cases hg : fget d.files (.seg i) with
    | none => simp [hg] at hh
    | some x => exact mem_keys_of_fget d.files _ x hg

theorem sortedNat_ext (a b : List Nat) (ha : a.Pairwise (· < ·)) (hb : b.Pairwise (· < ·))
    (h : ∀ x, x ∈ a ↔ x ∈ b) : a = b := by
  induction a generalizing b with
  | nil =>
    cases b with
    | nil => rfl
    | cons y b => have := (h y).mpr (by simp); simp at this
  | cons x a ih =>
    cases b with
    | nil => have := (h x).mp (by simp); simp at this
    | cons y b =>
      have ha' := List.pairwise_cons.mp ha
      have hb' := List.pairwise_cons.mp hb
      have hxy : x = y := by
        have h1 := (h x).mp (by simp)
        have h2 := (h y).mpr (by simp)
        rcases List.mem_cons.mp h1 with e | e
        · exact e
        · rcases List.mem_cons.mp h2 with e2 | e2
          · exact e2.symm
          · have := hb'.1 x e
            have := ha'.1 y e2
            omega
      subst hxy
      congr 1
      apply ih b ha'.2 hb'.2
      intro z
      constructor
      · intro hz
        have := (h z).mp (by simp [hz])
        rcases List.mem_cons.mp this with e | e
        · subst e; have := ha'.1 z hz; omega
        · exact e
      · intro hz
        have := (h z).mpr (by simp [hz])
        rcases List.mem_cons.mp this with e | e
        · subst e; have := hb'.1 z hz; omega
        · exact e

/-! ### segment files -/

def zeros (k : Nat) : Bytes := List.replicate (44 * k) 0

theorem readNext_zeros (H : Bytes → Bytes) (k : Nat) : readNext H (zeros k) = .done := by
  cases k with
  | zero => exact readNext_short H _ (by simp [zeros])
  | succ k =>
    have : zeros (k + 1) = sentinel ++ zeros k := by
      simp only [zeros, sentinel]
      rw [List.replicate_append_replicate]
      congr 1; omega
    rw [this]
    exact readNext_sentinel H _

/-- file `<i>_index.wal` holds the framing of records `recs` followed by `k` sentinels -/
def SegFile (H : Bytes → Bytes) (d : Disk) (i : Nat) (recs : Recs Bytes) (k : Nat) : Prop :=
  ∃ f rs, d.get (.seg i) = some f ∧ f.data = encodeAll H rs ++ zeros k ∧ (∀ r ∈ rs, r.WF) ∧
    toPairs rs = recs

structure SegRel (H : Bytes → Bytes) (d : Disk) (segs : List (Nat × Recs Bytes)) : Prop where
  sorted : SegSorted segs
  ids : ∀ i, (∃ s ∈ segs, s.1 = i) ↔ d.has (.seg i) = true
  files : ∀ s ∈ segs, ∃ k, SegFile H d s.1 s.2 k

theorem segsOf_of_files (H : Bytes → Bytes) (hH : Hash32 H) (d : Disk)
    (segs : List (Nat × Recs Bytes)) (hf : ∀ s ∈ segs, ∃ k, SegFile H d s.1 s.2 k) :
    segsOf H d (segs.map (·.1)) = some segs := by
  induction segs with
  | nil => rfl
  | cons s segs ih =>
    obtain ⟨i, recs⟩ := s
    obtain ⟨k, f, rs, hg, hd, hwf, hp⟩ := hf (i, recs) (by simp)
    simp only at hg hp
    have hr := readSegmentPartial_encodeAll H hH rs hwf (zeros k) (readNext_zeros H k)
    rw [← hd] at hr
    simp only [List.map_cons, segsOf, hg, hr, ih (fun s hs => hf s (by simp [hs])), hp]

/-- **abstraction**: byte-level recovery reads exactly the machine's segment list -/
theorem segRel_abs (H : Bytes → Bytes) (hH : Hash32 H) (d : Disk) (hw : d.WF)
    (segs : List (Nat × Recs Bytes)) (r : SegRel H d segs) :
    segsOf H d (segIds d) = some segs := by
  have hids : segs.map (·.1) = segIds d := by
    apply sortedNat_ext _ _ _ (segIds_sorted d hw)
    · intro x
      rw [mem_segIds d hw x, ← r.ids x]
      simp only [List.mem_map]
    · have := r.sorted
      unfold SegSorted at this
      exact List.pairwise_map.mpr this
  rw [← hids]
  exact segsOf_of_files H hH d segs r.files

end CasModel

namespace CasModel
open Ghost

/-! ### the machine's segment list as a finite map -/

def segGet {R : Type} (segs : List (Nat × Recs R)) (i : Nat) : Option (Recs R) :=
  match segs with
  | [] => none
  | (j, rs) :: rest => if j = i then some rs else segGet rest i

theorem segGet_none_of_lt {R : Type} (segs : List (Nat × Recs R)) (i : Nat)
    (h : ∀ s ∈ segs, i < s.1) : segGet segs i = none := by
  induction segs with
  | nil => rfl
  | cons s rest ih =>
    obtain ⟨j, rs⟩ := s
    have := h (j, rs) (by simp)
    simp only at this
    have hne : ¬ j = i := by omega
    simp only [segGet, hne, ↓reduceIte]
    exact ih (fun s hs => h s (by simp [hs]))

theorem mem_of_segGet {R : Type} (segs : List (Nat × Recs R)) (i : Nat) (rs : Recs R)
    (h : segGet segs i = some rs) : (i, rs) ∈ segs := by
  induction segs with
  | nil => simp [segGet] at h
  | cons s rest ih =>
    obtain ⟨j, r0⟩ := s
    simp only [segGet] at h
    by_cases c : j = i
    · simp only [c, ↓reduceIte, Option.some.injEq] at h
      subst c; subst h; simp
    · simp only [c, ↓reduceIte] at h
      simp [ih h]

theorem segGet_of_mem {R : Type} (segs : List (Nat × Recs R)) (hs : SegSorted segs)
    (s : Nat × Recs R) (h : s ∈ segs) : segGet segs s.1 = some s.2 := by
  induction segs with
  | nil => cases h
  | cons s0 rest ih =>
    obtain ⟨j, r0⟩ := s0
    have hs' := List.pairwise_cons.mp hs
    rcases List.mem_cons.mp h with e | e
    · subst e; simp [segGet]
    · have := hs'.1 s e
      simp only at this
      have hne : ¬ j = s.1 := by omega
      simp only [segGet, hne, ↓reduceIte]
      exact ih hs'.2 e

theorem segGet_isSome_iff {R : Type} (segs : List (Nat × Recs R)) (i : Nat) :
    (segGet segs i).isSome = true ↔ ∃ s ∈ segs, s.1 = i := by
  induction segs with
  | nil => simp [segGet]
  | cons s0 rest ih =>
    obtain ⟨j, r0⟩ := s0
    simp only [segGet]
    by_cases c : j = i
    · simp [c]
    · simp only [c, ↓reduceIte, ih, List.mem_cons, exists_eq_or_imp, false_or]

theorem segGet_segInsert {R : Type} (segs : List (Nat × Recs R)) (hs : SegSorted segs) (id : Nat)
    (rec : Option (Nat × R)) (i : Nat) :
    segGet (segInsert segs id rec) i =
      if i = id then some ((segGet segs id).getD [] ++ rec.toList) else segGet segs i := by
  induction segs with
  | nil =>
    simp only [segInsert, segGet]
    by_cases c : id = i
    · subst c; simp
    · have c' : ¬ i = id := fun x => c x.symm
      simp [c, c']
  | cons s0 rest ih =>
    obtain ⟨j, r0⟩ := s0
    have hs' := List.pairwise_cons.mp hs
    simp only [segInsert]
    by_cases c0 : j = id
    · subst c0
      simp only [↓reduceIte, segGet]
      by_cases c : j = i
      · subst c; simp
      · have c' : ¬ i = j := fun x => c x.symm
        simp [c, c']
    · simp only [c0, ↓reduceIte]
      by_cases c1 : id < j
      · simp only [c1, ↓reduceIte, segGet, c0]
        have hnone : segGet rest id = none :=
          segGet_none_of_lt rest id (fun s hs0 => by have := hs'.1 s hs0; simp only at this; omega)
        by_cases c : id = i
        · subst c; simp [hnone]
        · have c' : ¬ i = id := fun x => c x.symm
          simp [c, c']
      · simp only [c1, ↓reduceIte, segGet, c0, ih hs'.2]
        by_cases c : j = i
        · subst c
          have c' : ¬ j = id := c0
          simp [c']
        · simp [c]

theorem segGet_removeSeg {R : Type} (segs : List (Nat × Recs R)) (hs : SegSorted segs) (j i : Nat) :
    segGet (removeSeg segs j) i = if i = j then none else segGet segs i := by
  induction segs with
  | nil => simp [removeSeg, segGet]
  | cons s0 rest ih =>
    obtain ⟨j0, r0⟩ := s0
    have hs' := List.pairwise_cons.mp hs
    simp only [removeSeg]
    by_cases c0 : j0 = j
    · subst c0
      simp only [↓reduceIte, segGet]
      by_cases c : i = j0
      · subst c
        simp only [↓reduceIte]
        exact segGet_none_of_lt rest i (fun s hs0 => by have := hs'.1 s hs0; simpa using this)
      · have c' : ¬ j0 = i := fun x => c x.symm
        simp [c, c']
    · simp only [c0, ↓reduceIte, segGet, ih hs'.2]
      by_cases c : j0 = i
      · subst c; simp [c0]
      · simp [c]

theorem removeSeg_sorted {R : Type} (segs : List (Nat × Recs R)) (hs : SegSorted segs) (j : Nat) :
    SegSorted (removeSeg segs j) :=
  List.Pairwise.sublist (removeSeg_sublist segs j) hs

/-! ### `SegRel` through the map view, and its preservation by filesystem events -/

theorem SegRel.of_get (H : Bytes → Bytes) (d : Disk) (segs : List (Nat × Recs Bytes))
    (hs : SegSorted segs)
    (hid : ∀ i, (segGet segs i).isSome = d.has (.seg i))
    (hf : ∀ i recs, segGet segs i = some recs → ∃ k, SegFile H d i recs k) : SegRel H d segs := by
  refine ⟨hs, ?_, ?_⟩
  · intro i
    rw [← segGet_isSome_iff, hid i]
  · intro s hsm
    exact hf s.1 s.2 (segGet_of_mem segs hs s hsm)

theorem SegRel.get_isSome (H : Bytes → Bytes) (d : Disk) (segs : List (Nat × Recs Bytes))
    (r : SegRel H d segs) (i : Nat) : (segGet segs i).isSome = d.has (.seg i) := by
  have := r.ids i
  rw [← segGet_isSome_iff] at this
  cases h1 : (segGet segs i).isSome <;> cases h2 : d.has (.seg i) <;> simp_all

theorem SegRel.get_file (H : Bytes → Bytes) (d : Disk) (segs : List (Nat × Recs Bytes))
    (r : SegRel H d segs) (i : Nat) (recs : Recs Bytes) (h : segGet segs i = some recs) :
    ∃ k, SegFile H d i recs k :=
  r.files (i, recs) (mem_of_segGet segs i recs h)

/-- events that leave every segment file's bytes and existence alone -/
theorem SegRel.frame (H : Bytes → Bytes) (d d' : Disk) (segs : List (Nat × Recs Bytes))
    (r : SegRel H d segs)
    (hget : ∀ i, (d'.get (.seg i)).map (·.data) = (d.get (.seg i)).map (·.data)) :
    SegRel H d' segs := by
  have hhas : ∀ i, d'.has (.seg i) = d.has (.seg i) := by
    intro i
    have := hget i
    simp only [Disk.has, Disk.get] at this ⊢
    cases h1 : fget d'.files (.seg i) <;> cases h2 : fget d.files (.seg i) <;> simp_all
  apply SegRel.of_get H d' segs r.sorted
  · intro i; rw [r.get_isSome H d segs i, hhas i]
  · intro i recs hg
    obtain ⟨k, f, rs, h1, h2, h3, h4⟩ := r.get_file H d segs i recs hg
    have := hget i
    rw [h1] at this
    cases h5 : d'.get (.seg i) with
    | none => simp [h5] at this
    | some f' =>
      simp only [h5, Option.map_some, Option.some.injEq] at this
      exact ⟨k, f', rs, h5, by rw [this, h2], h3, h4⟩

end CasModel
