import CasModel.Frame
namespace CasModel

variable (H : Bytes → Bytes)

/-- the only assumption ever made about the checksum function: 32-byte output -/
def Hash32 (H : Bytes → Bytes) : Prop := ∀ x, (H x).length = 32

theorem encodeEntry_length (hH : Hash32 H) (r : Rec) :
    (encodeEntry H r).length = 44 + r.payload.length := by
  simp [encodeEntry, hH r.payload]; omega

private theorem take_app (a b : Bytes) (n : Nat) (h : a.length = n) : (a ++ b).take n = a := by
  subst h; simp
private theorem drop_app (a b : Bytes) (n : Nat) (h : a.length = n) : (a ++ b).drop n = b := by
  subst h; simp

/-- field extraction from a header followed by anything -/
theorem header_fields (v : Bytes) (hv : v.length = 8) (c : Bytes) (hc : c.length = 32)
    (l : Bytes) (hl : l.length = 4) (rest : Bytes) :
    let bs := v ++ (c ++ (l ++ rest))
    bs.take 8 = v ∧ (bs.drop 8).take 32 = c ∧ ((bs.drop 40).take 4) = l ∧ bs.drop 44 = rest := by
  intro bs
  have d8 : bs.drop 8 = c ++ (l ++ rest) := drop_app v _ 8 hv
  have d40 : bs.drop 40 = l ++ rest := by
    have : bs.drop 40 = (bs.drop 8).drop 32 := by simp [List.drop_drop]
    rw [this, d8]; exact drop_app c _ 32 hc
  have d44 : bs.drop 44 = rest := by
    have : bs.drop 44 = (bs.drop 40).drop 4 := by simp [List.drop_drop]
    rw [this, d40]; exact drop_app l _ 4 hl
  exact ⟨take_app v _ 8 hv, by rw [d8]; exact take_app c _ 32 hc,
         by rw [d40]; exact take_app l _ 4 hl, d44⟩

theorem readNext_general (v c l rest : Bytes) (hv : v.length = 8) (hc : c.length = 32)
    (hl : l.length = 4) :
    readNext H (v ++ (c ++ (l ++ rest))) =
      if leNat v = 0 then .done else if leNat l = 0 then .done else
      if rest.length < leNat l then .err .shortPayload else
      if H (rest.take (leNat l)) = c then
        .entry ⟨leNat v, rest.take (leNat l)⟩ (rest.drop (leNat l))
      else .err .checksum := by
  obtain ⟨f1, f2, f3, f4⟩ := header_fields v hv c hc l hl rest
  have hlen : ¬ (v ++ (c ++ (l ++ rest))).length < 44 := by
    simp only [List.length_append, hv, hc, hl]; omega
  unfold readNext
  rw [if_neg hlen]
  simp only [f1, f2, f3, f4]

theorem readNext_encode (hH : Hash32 H) (r : Rec) (hr : r.WF) (tail : Bytes) :
    readNext H (encodeEntry H r ++ tail) = .entry r tail := by
  obtain ⟨hv0, hv, hl0, hl⟩ := hr
  have e : encodeEntry H r ++ tail =
      leBytes 8 r.ver ++ (H r.payload ++ (leBytes 4 r.payload.length ++ (r.payload ++ tail))) := by
    simp [encodeEntry, List.append_assoc]
  rw [e, readNext_general H _ _ _ _ (leBytes_length _ _) (hH _) (leBytes_length _ _),
    leNat_leBytes_of_lt 8 _ hv, leNat_leBytes_of_lt 4 _ hl]
  rw [if_neg (by omega), if_neg (by omega), if_neg (by simp)]
  simp

/-- the sentinel (or any header with version 0) ends the segment -/
theorem readNext_sentinel (tail : Bytes) : readNext H (sentinel ++ tail) = .done := by
  unfold readNext
  have : ¬ (sentinel ++ tail).length < 44 := by simp [sentinel]
  rw [if_neg this]
  have : leNat ((sentinel ++ tail).take 8) = 0 := by
    have : (sentinel ++ tail).take 8 = List.replicate 8 0 := by
      simp [sentinel, List.take_append, List.take_replicate]
    rw [this]; rfl
  simp [this]

theorem readNext_short (bs : Bytes) (h : bs.length < 44) : readNext H bs = .done := by
  simp [readNext, h]

/-- a complete record stream, followed by a tail that ends the segment, reads back exactly -/
theorem readSegmentFuel_encodeAll (hH : Hash32 H) (rs : List Rec) (hrs : ∀ r ∈ rs, r.WF)
    (tail : Bytes) (htail : readNext H tail = .done) (f : Nat) (hf : rs.length < f) :
    readSegmentFuel H f (encodeAll H rs ++ tail) = .ok rs := by
  induction rs generalizing f with
  | nil =>
    cases f with
    | zero => omega
    | succ f => simp [readSegmentFuel, encodeAll, htail]
  | cons r rs ih =>
    cases f with
    | zero => omega
    | succ f =>
      have hr := hrs r (by simp)
      have hrs' : ∀ r' ∈ rs, r'.WF := fun r' h' => hrs r' (by simp [h'])
      simp only [encodeAll, List.append_assoc, readSegmentFuel, readNext_encode H hH r hr]
      rw [ih hrs' f (by simp at hf; omega)]

theorem encodeAll_length_ge (hH : Hash32 H) (rs : List Rec) (hrs : ∀ r ∈ rs, r.WF) :
    45 * rs.length ≤ (encodeAll H rs).length := by
  induction rs with
  | nil => simp [encodeAll]
  | cons r rs ih =>
    have hr := hrs r (by simp)
    have := ih (fun r' h' => hrs r' (by simp [h']))
    simp [encodeAll, encodeEntry_length H hH]
    have := hr.2.2.1
    omega

theorem encodeAll_append (a b : List Rec) :
    encodeAll H (a ++ b) = encodeAll H a ++ encodeAll H b := by
  induction a with
  | nil => rfl
  | cons r a ih => simp [encodeAll, ih, List.append_assoc]

end CasModel
