import CasModel.Conc
/-
  ConcTerm: every execution of the interleaving model is finite — the second half of C15.
  `C15_no_deadlock` (Props/C15) says that while work is left SOME thread can take a step; here:
  whatever threads are scheduled, only finitely many steps can be taken in a row.  Together: under
  any scheduler that keeps picking runnable threads, every call returns.
  Measure, lexicographic (A, B):
    A = Σ over threads of the static cost of the operations not yet started + the rank of the
        current program counter BEFORE its log-and-apply step (orphan clean-up: 4·|remaining| + phase);
    B = Σ over threads of the rank AFTER the apply (pending blob deletions + 4, unlock, rollover
        checkpoint) — the only data-dependent part: the length of a deletion list is fixed at the
        apply step, where A drops.
  Every step of every thread strictly decreases (A, B).
-/
namespace CasModel.Conc
open CasModel

def preW : Pc → Nat
  | .idle => 0
  | .putReg .. => 5
  | .putRename .. => 4
  | .apIntents .. => 3
  | .apState .. => 2
  | .apWal .. => 1
  | .rmScan _ => 4
  | .rrScan .. => 4
  | .rdLookup _ => 2
  | .rdLookupR .. => 2
  | .rdOpened _ => 1
  | .orIntents hs _ _ => 4 * hs.length + 1
  | .orState _ rest _ _ => 4 * rest.length + 4
  | .orUnlink _ rest _ _ => 4 * rest.length + 3
  | .orUnlocked rest _ _ => 4 * rest.length + 2
  | .apUnlink .. => 0
  | .apUnlocked _ => 0
  | .ckState _ => 0
  | .ckWal _ => 0

def postW : Pc → Nat
  | .apUnlink l _ => l.length + 4
  | .apUnlocked _ => 3
  | .ckState _ => 2
  | .ckWal _ => 1
  | _ => 0

def opCost : COp → Nat
  | .put .. => 6
  | .abort .. => 1
  | .remove _ => 5
  | .removeRange .. => 5
  | .get _ => 3
  | .getRange .. => 3
  | .checkpoint => 1
  | .cleanup hs => 4 * hs.length + 2

def thA (th : Thread) : Nat := (th.ops.map opCost).sum + preW th.pc
def thB (th : Thread) : Nat := postW th.pc

def sysA (s : Sys) : Nat := (s.threads.map thA).sum
def sysB (s : Sys) : Nat := (s.threads.map thB).sum

theorem sum_set (f : Thread → Nat) (ths : List Thread) (t : Nat) (th th' : Thread)
    (hth : ths[t]? = some th) :
    ((ths.set t th').map f).sum + f th = (ths.map f).sum + f th' := by
  induction ths generalizing t with
  | nil => simp at hth
  | cons a ths ih =>
    cases t with
    | zero =>
      simp at hth; subst hth
      simp [List.set]; omega
    | succ t =>
      simp at hth
      have := ih t hth
      simp only [List.set, List.map_cons, List.sum_cons] at this ⊢
      omega

/-- the order in which executions descend -/
def Desc (s' s : Sys) : Prop :=
  sysA s' < sysA s ∨ (sysA s' = sysA s ∧ sysB s' < sysB s)

theorem desc_of_thread (s : Sys) (tid : Nat) (th th' : Thread) (sh' : Shared)
    (hth : s.threads[tid]? = some th)
    (h : thA th' < thA th ∨ (thA th' = thA th ∧ thB th' < thB th)) :
    Desc ⟨sh', s.threads.set tid th'⟩ s := by
  have hA := sum_set thA s.threads tid th th' hth
  have hB := sum_set thB s.threads tid th th' hth
  unfold Desc sysA sysB
  simp only
  rcases h with h | ⟨h1, h2⟩
  · left; omega
  · right; constructor <;> omega

theorem preW_startOp (H : Bytes → Bytes) (sh : Shared) (op : COp) :
    preW (startOp H sh op).1 < opCost op := by
  cases op with
  | getRange k s' e' =>
    simp only [startOp]
    cases kLookup sh.idx.map k with
    | none => simp [preW, opCost]
    | some item => by_cases c : s' ≥ item.size <;> simp [c, preW, opCost]
  | _ => simp [startOp, preW, opCost]

/-- one step of a parked thread strictly decreases its (A, B) -/
theorem stepPc_desc (H : Bytes → Bytes) (tid : Tid) (sh : Shared) (pc : Pc) (hne : pc ≠ .idle) :
    preW (stepPc H tid sh pc).pc < preW pc ∨
    (preW (stepPc H tid sh pc).pc = preW pc ∧ postW (stepPc H tid sh pc).pc < postW pc) := by
  cases pc with
  | idle => exact absurd rfl hne
  | putReg k c => left; simp [stepPc, preW]
  | putRename k c => left; simp [stepPc, preW]
  | apIntents op own res => left; simp [stepPc, preW]
  | apState op own res => left; simp [stepPc, preW]
  | apWal op own res =>
    left
    simp only [stepPc, applyStep]
    split
    · simp [preW]
    · split <;> simp [preW]
  | apUnlink pending t =>
    right
    match pending with
    | [] => simp [stepPc, preW, postW]
    | [h] => simp [stepPc, preW, postW]
    | h :: h' :: rest => simp [stepPc, preW, postW]
  | apUnlocked t =>
    right
    simp only [stepPc]
    split <;> simp [preW, postW]
  | ckState t => right; simp [stepPc, preW, postW]
  | ckWal t => right; simp [stepPc, preW, postW]
  | rmScan k =>
    left
    simp only [stepPc]
    split <;> simp [preW]
  | rrScan lo hi =>
    left
    simp only [stepPc]
    split <;> simp [preW]
  | rdLookup k =>
    left
    simp only [stepPc]
    split
    · simp [preW]
    · split <;> simp [preW]
  | rdLookupR k s0 e0 =>
    left
    simp only [stepPc]
    split
    · simp [preW]
    · split
      · simp [preW]
      · split <;> simp [preW]
  | rdOpened r => left; simp [stepPc, preW]
  | orIntents hs del skip =>
    left
    cases hs with
    | nil => simp [stepPc, preW]
    | cons h rest => simp [stepPc, preW] <;> omega
  | orState h rest del skip =>
    left
    simp only [stepPc]
    split <;> simp [preW]
  | orUnlink h rest del skip => left; simp [stepPc, preW]
  | orUnlocked rest del skip =>
    left
    cases rest with
    | nil => simp [stepPc, preW]
    | cons r rs => simp [stepPc, preW] <;> omega

/-- **every scheduling step descends** -/
theorem step_desc (H : Bytes → Bytes) (s s' : Sys) (tid : Tid) (h : step H s tid = some s') :
    Desc s' s := by
  unfold step at h
  cases hth : s.threads[tid]? with
  | none => simp [hth] at h
  | some th =>
    simp only [hth] at h
    by_cases hpc : th.pc = .idle
    · simp only [hpc] at h
      cases hops : th.ops with
      | nil => simp [hops] at h
      | cons op rest =>
        simp only [hops] at h
        split at h
        · cases h
        injection h with h; subst h
        apply desc_of_thread s tid th _ s.sh hth
        left
        have := preW_startOp H s.sh op
        show (rest.map opCost).sum + preW (startOp H s.sh op).1 < thA th
        have h0 : preW Pc.idle = 0 := rfl
        simp only [thA, hops, hpc, List.map_cons, List.sum_cons, h0]
        omega
    · have key := stepPc_desc H tid s.sh th.pc hpc
      -- unfold the non-idle branch
      cases hpc' : th.pc with
      | idle => exact absurd hpc' hpc
      | _ =>
        all_goals
          simp only [hpc'] at h
          split at h
          · cases h
          · injection h with h; subst h
            apply desc_of_thread s tid th _ _ hth
            rw [hpc'] at key
            simp only [thA, thB, hpc']
            rcases key with k | ⟨k1, k2⟩
            · left; omega
            · right; exact ⟨by omega, k2⟩

theorem desc_wf : WellFounded Desc := by
  have hw : WellFounded (InvImage (Prod.Lex (· < ·) (· < ·)) (fun s : Sys => (sysA s, sysB s))) :=
    InvImage.wf _ (Prod.lex ⟨_, Nat.lt_wfRel.wf⟩ ⟨_, Nat.lt_wfRel.wf⟩).wf
  apply Subrelation.wf _ hw
  intro a b hab
  unfold Desc at hab
  simp only [InvImage]
  rcases hab with h | ⟨h1, h2⟩
  · exact Prod.Lex.left _ _ h
  · rw [h1]; exact Prod.Lex.right _ h2

/-- **C15 (termination).** The one-step relation of the interleaving model is well-founded: there
    is no infinite execution, whatever the programs, the initial store and the scheduler. -/
theorem C15_no_infinite_run (H : Bytes → Bytes) :
    WellFounded (fun s' s : Sys => ∃ tid, step H s tid = some s') := by
  apply Subrelation.wf _ desc_wf
  intro a b ⟨tid, h⟩
  exact step_desc H b a tid h

/-- a bound-free reading: no infinite schedule can be followed for ever -/
theorem C15_every_schedule_stops (H : Bytes → Bytes) (s : Sys) (sched : Nat → Tid) :
    ∃ n, run H s ((List.range n).map sched) = none := by
  have wf := C15_no_infinite_run H
  -- generalise over a shift of the schedule
  suffices h : ∀ (s : Sys) (f : Nat → Tid), ∃ n, run H s ((List.range n).map f) = none from h s sched
  intro s
  induction s using wf.induction with
  | _ s ih =>
    intro f
    cases hs : step H s (f 0) with
    | none => exact ⟨1, by simp [List.range_succ, run, hs]⟩
    | some s1 =>
      obtain ⟨n, hn⟩ := ih s1 ⟨f 0, hs⟩ (fun i => f (i + 1))
      refine ⟨n + 1, ?_⟩
      have : (List.range (n + 1)).map f = f 0 :: (List.range n).map (fun i => f (i + 1)) := by
        rw [List.range_succ_eq_map]
        simp [List.map_map, Function.comp_def]
      rw [this]
      simp only [run, hs]
      exact hn

end CasModel.Conc
