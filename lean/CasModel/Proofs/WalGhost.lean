/-
  WalGhost: the recovery argument at record level, generic in the state `S`, the record payload
  `R` and the (possibly failing) step function.  A *ghost disk* is a snapshot (version, state) and
  segments of (version, payload) records; `GInv` relates it to the history of all records ever
  appended.  Results:
    * `recover_eq`   : recovery of any ghost disk satisfying `GInv hist` yields `run init hist`
                       and a next version above everything ever logged,
    * preservation of `GInv` by the four mutations the store performs (append one record, install
      a snapshot, prune a covered segment, create an empty segment).
  Crash atomicity at record level is then immediate: every intermediate disk satisfies `GInv` for
  the acknowledged history or for that history plus the one in-flight record.
-/
namespace CasModel.Ghost

variable {S R E : Type}

abbrev Recs (R : Type) := List (Nat × R)

structure GDisk (S R : Type) where
  snapVer : Nat
  snapState : S
  segs : List (Nat × Recs R)        -- (segment id, records), in the order recovery reads them

def run (step : S → R → Except E S) (s : S) : Recs R → Except E S
  | [] => .ok s
  | (_, r) :: rest =>
    match step s r with
    | .error e => .error e
    | .ok s' => run step s' rest

/-- `WalReplayer::replay` over the concatenated records: skip versions ≤ checkpoint, track the
    highest version seen -/
def replayFrom (step : S → R → Except E S) (ckpt : Nat) (s : S) (hi : Nat) :
    Recs R → Except E (S × Nat)
  | [] => .ok (s, hi)
  | (v, r) :: rest =>
    if v ≤ ckpt then replayFrom step ckpt s (max hi v) rest
    else
      match step s r with
      | .error e => .error e
      | .ok s' => replayFrom step ckpt s' (max hi v) rest

def flat (segs : List (Nat × Recs R)) : Recs R := segs.flatMap (·.2)

def recover (step : S → R → Except E S) (g : GDisk S R) : Except E (S × Nat) :=
  match replayFrom step g.snapVer g.snapState g.snapVer (flat g.segs) with
  | .error e => .error e
  | .ok (s, hi) => .ok (s, hi + 1)

def maxVer (hi : Nat) : Recs R → Nat
  | [] => hi
  | (v, _) :: rest => maxVer (max hi v) rest

def above (c : Nat) (l : Recs R) : Recs R := l.filter (fun e => decide (c < e.1))
def upto (c : Nat) (l : Recs R) : Recs R := l.filter (fun e => decide (e.1 ≤ c))

/-- strictly increasing versions -/
def Incr (l : Recs R) : Prop := l.Pairwise (fun a b => a.1 < b.1)

theorem replayFrom_eq (step : S → R → Except E S) (ckpt : Nat) (s : S) (hi : Nat) (l : Recs R) :
    replayFrom step ckpt s hi l =
      match run step s (above ckpt l) with
      | .error e => .error e
      | .ok s' => .ok (s', maxVer hi l) := by
  induction l generalizing s hi with
  | nil => simp [replayFrom, above, run, maxVer]
  | cons e l ih =>
    obtain ⟨v, r⟩ := e
    simp only [replayFrom]
    by_cases c : v ≤ ckpt
    · have : above ckpt ((v, r) :: l) = above ckpt l := by
        simp [above, List.filter_cons]; omega
      simp only [c, ↓reduceIte, this, maxVer]
      exact ih s (max hi v)
    · have : above ckpt ((v, r) :: l) = (v, r) :: above ckpt l := by
        simp [above, List.filter_cons]; omega
      simp only [c, ↓reduceIte, this, run, maxVer]
      cases step s r with
      | error e => rfl
      | ok s' => exact ih s' (max hi v)

theorem run_append (step : S → R → Except E S) (s : S) (a b : Recs R) :
    run step s (a ++ b) =
      match run step s a with
      | .error e => .error e
      | .ok s' => run step s' b := by
  induction a generalizing s with
  | nil => simp [run]
  | cons e a ih =>
    obtain ⟨v, r⟩ := e
    simp only [List.cons_append, run]
    cases step s r with
    | error e => rfl
    | ok s' => exact ih s'

theorem incr_split (c : Nat) (l : Recs R) (h : Incr l) : l = upto c l ++ above c l := by
  induction l with
  | nil => rfl
  | cons e l ih =>
    have h' := List.pairwise_cons.mp h
    by_cases x : e.1 ≤ c
    · have a1 : upto c (e :: l) = e :: upto c l := by simp [upto, List.filter_cons, x]
      have a2 : above c (e :: l) = above c l := by simp [above, List.filter_cons]; omega
      rw [a1, a2, List.cons_append, ← ih h'.2]
    · -- everything after e is also above c
      have a1 : upto c (e :: l) = [] := by
        simp only [upto, List.filter_eq_nil_iff, decide_eq_true_eq, List.mem_cons]
        rintro a (rfl | ha)
        · exact x
        · have := h'.1 a ha; omega
      have a2 : above c (e :: l) = e :: l := by
        simp only [above, List.filter_eq_self, decide_eq_true_eq, List.mem_cons]
        rintro a (rfl | ha)
        · omega
        · have := h'.1 a ha; omega
      rw [a1, a2]; rfl

/-- the ghost invariant: what the files mean relative to the history of appended records -/
structure GInv (step : S → R → Except E S) (init : S) (N : Nat) (hist : Recs R) (g : GDisk S R) : Prop where
  incr : Incr hist
  snap : run step init (upto g.snapVer hist) = .ok g.snapState
  recs : above g.snapVer (flat g.segs) = above g.snapVer hist

theorem maxVer_ge (hi : Nat) (l : Recs R) : hi ≤ maxVer hi l := by
  induction l generalizing hi with
  | nil => exact Nat.le_refl _
  | cons e l ih => exact Nat.le_trans (Nat.le_max_left _ _) (ih _)

theorem maxVer_mem_le (hi : Nat) (l : Recs R) (e : Nat × R) (h : e ∈ l) : e.1 ≤ maxVer hi l := by
  induction l generalizing hi with
  | nil => cases h
  | cons a l ih =>
    rcases List.mem_cons.mp h with h | h
    · subst h; exact Nat.le_trans (Nat.le_max_right _ _) (maxVer_ge _ _)
    · exact ih _ h

theorem maxVer_le (hi : Nat) (l : Recs R) (b : Nat) (h0 : hi ≤ b) (h : ∀ e ∈ l, e.1 ≤ b) :
    maxVer hi l ≤ b := by
  induction l generalizing hi with
  | nil => exact h0
  | cons a l ih =>
    apply ih
    · exact Nat.max_le.mpr ⟨h0, h a (by simp)⟩
    · intro e he; exact h e (by simp [he])

/-- **Recovery theorem.** From any ghost disk that satisfies the invariant for `hist`, recovery
    returns exactly the state after the whole history, and a next version that is larger than
    every version in the history (so versions are never reused). -/
theorem recover_eq (step : S → R → Except E S) (init : S) (N : Nat) (hist : Recs R)
    (g : GDisk S R) (inv : GInv step init N hist g) (st : S) (hrun : run step init hist = .ok st) :
    ∃ next, recover step g = .ok (st, next) ∧ (∀ e ∈ hist, e.1 < next) ∧
      (∀ e ∈ flat g.segs, e.1 < next) ∧ g.snapVer < next := by
  have hsplit := incr_split g.snapVer hist inv.incr
  have h2 : run step g.snapState (above g.snapVer hist) = .ok st := by
    rw [hsplit, run_append, inv.snap] at hrun
    exact hrun
  refine ⟨maxVer g.snapVer (flat g.segs) + 1, ?_, ?_, ?_, ?_⟩
  · simp only [recover, replayFrom_eq, inv.recs, h2]
  · intro e he
    by_cases c : e.1 ≤ g.snapVer
    · have := maxVer_ge g.snapVer (flat g.segs); omega
    · have hm : e ∈ above g.snapVer hist := by simp [above, he]; omega
      rw [← inv.recs] at hm
      have hm' : e ∈ flat g.segs := (List.mem_filter.mp hm).1
      have := maxVer_mem_le g.snapVer _ e hm'
      omega
  · intro e he
    have := maxVer_mem_le g.snapVer _ e he; omega
  · have := maxVer_ge g.snapVer (flat g.segs); omega

/-! ### the four mutations -/

/-- append one record with a version above everything, at the end of the read order -/
theorem GInv.append (step : S → R → Except E S) (init : S) (N : Nat) (hist : Recs R)
    (g : GDisk S R) (inv : GInv step init N hist g) (v : Nat) (r : R)
    (hv : ∀ e ∈ hist, e.1 < v) (hs : g.snapVer < v)
    (segs' : List (Nat × Recs R)) (hflat : flat segs' = flat g.segs ++ [(v, r)]) :
    GInv step init N (hist ++ [(v, r)]) { g with segs := segs' } := by
  refine ⟨?_, ?_, ?_⟩
  · exact List.pairwise_append.mpr ⟨inv.incr, by simp, by
      intro a ha b hb; simp at hb; subst hb; exact hv a ha⟩
  · have : upto g.snapVer (hist ++ [(v, r)]) = upto g.snapVer hist := by
      simp [upto, List.filter_append, List.filter_cons]; omega
    simp only [this]; exact inv.snap
  · simp only [hflat, above, List.filter_append]
    have := inv.recs
    simp only [above] at this
    rw [this]

/-- install a snapshot of the state after the history up to version `t` (any `t` not below the
    old snapshot version) -/
theorem GInv.install (step : S → R → Except E S) (init : S) (N : Nat) (hist : Recs R)
    (g : GDisk S R) (inv : GInv step init N hist g) (t : Nat) (st : S)
    (ht : g.snapVer ≤ t) (hst : run step init (upto t hist) = .ok st) :
    GInv step init N hist { g with snapVer := t, snapState := st } := by
  refine ⟨inv.incr, hst, ?_⟩
  -- filtering further commutes
  have key : ∀ l : Recs R, above t l = above t (above g.snapVer l) := by
    intro l
    simp only [above, List.filter_filter]
    apply List.filter_congr
    intro e _
    by_cases c : t < e.1
    · have : g.snapVer < e.1 := by omega
      simp [c, this]
    · simp [c]
  show above t (flat g.segs) = above t hist
  rw [key (flat g.segs), key hist, inv.recs]

/-- remove a segment all of whose records are covered by the snapshot -/
theorem GInv.prune (step : S → R → Except E S) (init : S) (N : Nat) (hist : Recs R)
    (g : GDisk S R) (inv : GInv step init N hist g)
    (pre post : List (Nat × Recs R)) (j : Nat) (rs : Recs R)
    (hsegs : g.segs = pre ++ (j, rs) :: post) (hcov : ∀ e ∈ rs, e.1 ≤ g.snapVer) :
    GInv step init N hist { g with segs := pre ++ post } := by
  have hflat : flat g.segs = flat pre ++ rs ++ flat post := by
    simp [hsegs, flat, List.flatMap_append, List.flatMap_cons]
  have hflat' : flat (pre ++ post) = flat pre ++ flat post := by
    simp [flat, List.flatMap_append]
  have hrs : above g.snapVer rs = [] := by
    simp only [above, List.filter_eq_nil_iff, decide_eq_true_eq]
    intro e he; have := hcov e he; omega
  refine ⟨inv.incr, inv.snap, ?_⟩
  show above g.snapVer (flat (pre ++ post)) = above g.snapVer hist
  rw [← inv.recs, hflat, hflat']
  simp only [above, List.filter_append] at hrs ⊢
  rw [hrs]; simp

/-- create an empty segment anywhere in the read order -/
theorem GInv.addEmpty (step : S → R → Except E S) (init : S) (N : Nat) (hist : Recs R)
    (g : GDisk S R) (inv : GInv step init N hist g)
    (segs' : List (Nat × Recs R)) (hflat : flat segs' = flat g.segs) :
    GInv step init N hist { g with segs := segs' } := by
  refine ⟨inv.incr, inv.snap, ?_⟩
  show above g.snapVer (flat segs') = above g.snapVer hist
  rw [hflat]; exact inv.recs

/-- the empty store -/
theorem GInv.empty (step : S → R → Except E S) (init : S) (N : Nat) :
    GInv step init N [] ({ snapVer := 0, snapState := init, segs := [] } : GDisk S R) :=
  ⟨List.Pairwise.nil, rfl, rfl⟩

end CasModel.Ghost
