import CasModel.Store
namespace CasModel

theorem ba_len (bs : ByteArray) : bs.data.toList.length = bs.size := by
  show bs.data.toList.length = bs.data.size
  exact Array.length_toList

theorem ba_get (bs : ByteArray) (i : Nat) (h : i < bs.size) :
    bs.get! i = bs.data.toList[i]'(by rw [ba_len]; exact h) := by
  show bs.data[i]! = _
  rw [getElem!_pos bs.data i h]
  simp

theorem ByteArray_toList_loop (bs : ByteArray) (k : Nat) : ∀ (i : Nat) (r : List UInt8), i ≤ bs.size →
    bs.size - i = k → ByteArray.toList.loop bs i r = r.reverse ++ bs.data.toList.drop i := by
  induction k with
  | zero =>
    intro i r hi h
    unfold ByteArray.toList.loop
    have : ¬ i < bs.size := by omega
    rw [if_neg this, List.drop_eq_nil_of_le (by rw [ba_len]; omega), List.append_nil]
  | succ k ih =>
    intro i r hi h
    unfold ByteArray.toList.loop
    have hlt : i < bs.size := by omega
    rw [if_pos hlt, ih (i + 1) _ (by omega) (by omega)]
    have hd : bs.data.toList.drop i = bs.data.toList[i]'(by rw [ba_len]; exact hlt) ::
        bs.data.toList.drop (i + 1) := by
      rw [List.drop_eq_getElem_cons]
    rw [hd, ba_get bs i hlt, List.reverse_cons, List.append_assoc, List.singleton_append]

theorem ByteArray_toList (bs : ByteArray) : bs.toList = bs.data.toList := by
  unfold ByteArray.toList
  rw [ByteArray_toList_loop bs bs.size 0 [] (Nat.zero_le _) rfl]
  rfl

theorem asciiBytes_ofList (l : List Char) :
    asciiBytes (String.ofList l) = l.flatMap String.utf8EncodeChar := by
  unfold asciiBytes
  rw [ByteArray_toList]
  show (List.utf8Encode l).data.toList = _
  unfold List.utf8Encode
  exact List.toList_data_toByteArray

/-- the byte of an ASCII character -/
def byteOf (c : Char) : UInt8 := UInt8.ofNat c.val.toNat

theorem utf8_ascii (c : Char) (h : c.val.toNat ≤ 127) : String.utf8EncodeChar c = [byteOf c] := by
  unfold String.utf8EncodeChar byteOf
  simp only [h, ↓reduceIte]

theorem asciiBytes_ofList_ascii (l : List Char) (h : ∀ c ∈ l, c.val.toNat ≤ 127) :
    asciiBytes (String.ofList l) = l.map byteOf := by
  rw [asciiBytes_ofList]
  induction l with
  | nil => rfl
  | cons c l ih =>
    rw [List.flatMap_cons, utf8_ascii c (h c (by simp)), ih (fun c' h' => h c' (by simp [h']))]
    rfl

theorem digit_ascii (c : Char) (h : c.isDigit = true) : 48 ≤ c.val.toNat ∧ c.val.toNat ≤ 57 := by
  simp only [Char.isDigit, Bool.and_eq_true, decide_eq_true_eq] at h
  obtain ⟨h1, h2⟩ := h
  constructor
  · have : (48 : UInt32) ≤ c.val := h1
    exact UInt32.le_iff_toNat_le.mp this
  · have : c.val ≤ (57 : UInt32) := h2
    exact UInt32.le_iff_toNat_le.mp this

theorem natDigits_eq (n : Nat) : natDigits n = (Nat.toDigits 10 n).map byteOf := by
  unfold natDigits
  rw [Nat.toString_eq_ofList_toDigits, asciiBytes_ofList_ascii]
  intro c hc
  have := digit_ascii c (Nat.isDigit_of_mem_toDigits (by decide) (by decide) hc)
  omega

def isDigitByte (b : UInt8) : Bool := decide (48 ≤ b.toNat ∧ b.toNat ≤ 57)

theorem takeDigits_def (bs : Bytes) :
    takeDigits bs = ((bs.takeWhile isDigitByte).foldl (fun acc b => acc * 10 + (b.toNat - 48)) 0,
      bs.drop (bs.takeWhile isDigitByte).length, (bs.takeWhile isDigitByte).length) := rfl

theorem byteOf_toNat (c : Char) (h : c.val.toNat ≤ 127) : (byteOf c).toNat = c.val.toNat := by
  unfold byteOf
  simp only [UInt8.toNat_ofNat']
  exact Nat.mod_eq_of_lt (by have : (127:Nat) < 2 ^ 8 := by decide
                             omega)

theorem takeWhile_digits (l : List Char) (hl : ∀ c ∈ l, c.isDigit = true) (rest : Bytes)
    (hr : ∀ b, rest.head? = some b → isDigitByte b = false) :
    (l.map byteOf ++ rest).takeWhile isDigitByte = l.map byteOf := by
  induction l with
  | nil =>
    simp only [List.map_nil, List.nil_append]
    cases rest with
    | nil => rfl
    | cons b r => simp [hr b rfl]
  | cons c l ih =>
    have hc := digit_ascii c (hl c (by simp))
    have hb : isDigitByte (byteOf c) = true := by
      simp only [isDigitByte, byteOf_toNat c (by omega), decide_eq_true_eq]; exact hc
    simp only [List.map_cons, List.cons_append, List.takeWhile_cons, hb, ↓reduceIte]
    rw [ih (fun c' h' => hl c' (by simp [h']))]

theorem foldl_digits (l : List Char) (hl : ∀ c ∈ l, c.isDigit = true) (acc : Nat) :
    (l.map byteOf).foldl (fun acc b => acc * 10 + (b.toNat - 48)) acc = Nat.ofDigitChars 10 l acc := by
  induction l generalizing acc with
  | nil => rfl
  | cons c l ih =>
    have hc := digit_ascii c (hl c (by simp))
    simp only [List.map_cons, List.foldl_cons, Nat.ofDigitChars_cons]
    rw [ih (fun c' h' => hl c' (by simp [h'])), byteOf_toNat c (by omega)]
    congr 1
    show acc * 10 + (c.val.toNat - 48) = 10 * acc + (c.toNat - '0'.toNat)
    have : c.toNat = c.val.toNat := rfl
    have h0 : '0'.toNat = 48 := rfl
    rw [this, h0, Nat.mul_comm]

/-- reading back a rendered number that is followed by a non-digit (or nothing) -/
theorem takeDigits_natDigits (n : Nat) (rest : Bytes)
    (hr : ∀ b, rest.head? = some b → isDigitByte b = false) :
    takeDigits (natDigits n ++ rest) = (n, rest, (Nat.toDigits 10 n).length) := by
  have hd : ∀ c ∈ Nat.toDigits 10 n, c.isDigit = true :=
    fun c hc => Nat.isDigit_of_mem_toDigits (by decide) (by decide) hc
  rw [takeDigits_def, natDigits_eq, takeWhile_digits _ hd rest hr, foldl_digits _ hd 0,
    Nat.ofDigitChars_toDigits (by decide) (by decide), List.length_map, List.drop_left']
  rw [List.length_map]

theorem stripPrefix_append (p r : Bytes) : stripPrefix p (p ++ r) = some r := by
  unfold stripPrefix
  have : p.isPrefixOf (p ++ r) = true := by
    rw [List.isPrefixOf_iff_prefix]; exact List.prefix_append p r
  rw [if_pos this, List.drop_left]

theorem head_nondigit_of_ascii (cs : List Char) (c : Char) (rest : List Char) (hcs : cs = c :: rest)
    (hall : ∀ x ∈ cs, x.val.toNat ≤ 127) (hc : ¬ (48 ≤ c.val.toNat ∧ c.val.toNat ≤ 57)) (tail : Bytes) :
    ∀ b, (asciiBytes (String.ofList cs) ++ tail).head? = some b → isDigitByte b = false := by
  intro b hb
  rw [asciiBytes_ofList_ascii cs hall, hcs] at hb
  simp only [List.map_cons, List.cons_append, List.head?_cons, Option.some.injEq] at hb
  subst hb
  have hcl : c.val.toNat ≤ 127 := hall c (by rw [hcs]; simp)
  simp only [isDigitByte, byteOf_toNat c hcl, decide_eq_false_iff_not]
  exact hc

theorem toDigits_length_pos (n : Nat) : 0 < (Nat.toDigits 10 n).length := Nat.length_toDigits_pos

theorem ascii_true : asciiBytes "true" = [116, 114, 117, 101] := by
  rw [show "true" = String.ofList ['t', 'r', 'u', 'e'] from rfl, asciiBytes_ofList_ascii _ (by decide)]
  decide

theorem ascii_false : asciiBytes "false" = [102, 97, 108, 115, 101] := by
  rw [show "false" = String.ofList ['f', 'a', 'l', 's', 'e'] from rfl, asciiBytes_ofList_ascii _ (by decide)]
  decide

theorem strip_true_false (r : Bytes) : stripPrefix (asciiBytes "true") (asciiBytes "false" ++ r) = none := by
  rw [ascii_true, ascii_false]
  simp [stripPrefix, List.isPrefixOf]

/-- **parse ∘ render**: the settings file `open` writes is read back as what was written -/
theorem parse_render (pre : Bool) (N : Nat) (hN : 0 < N) (hN64 : N < 2 ^ 64) :
    parseSettings (renderSettings 4 pre N) = some (4, pre, N) := by
  unfold renderSettings parseSettings
  have hB : ",\"dir_tree_is_pre_created\":" = String.ofList (",\"dir_tree_is_pre_created\":".toList) := by simp
  have hD : "}" = String.ofList ['}'] := by rfl
  simp only [List.append_assoc, stripPrefix_append, Option.bind_eq_bind, Option.bind]
  have h1 : takeDigits (natDigits 4 ++ (asciiBytes ",\"dir_tree_is_pre_created\":" ++
      (asciiBytes (if pre = true then "true" else "false") ++ (asciiBytes ",\"num_ops_per_wal\":" ++
      (natDigits N ++ asciiBytes "}"))))) = (4, (asciiBytes ",\"dir_tree_is_pre_created\":" ++
      (asciiBytes (if pre = true then "true" else "false") ++ (asciiBytes ",\"num_ops_per_wal\":" ++
      (natDigits N ++ asciiBytes "}")))), (Nat.toDigits 10 4).length) := by
    apply takeDigits_natDigits
    rw [hB]
    exact head_nondigit_of_ascii _ ',' "\"dir_tree_is_pre_created\":".toList (by simp) (by decide) (by decide) _
  have h2 : takeDigits (natDigits N ++ asciiBytes "}") = (N, asciiBytes "}", (Nat.toDigits 10 N).length) := by
    apply takeDigits_natDigits
    rw [hD]
    have := head_nondigit_of_ascii ['}'] '}' [] rfl (by decide) (by decide) []
    simpa using this
  rw [h1]
  have hp1 := toDigits_length_pos 4
  have hp2 := toDigits_length_pos N
  have h4 : ¬ (4 ≥ 2 ^ 32) := by decide
  cases pre with
  | true =>
    simp only [↓reduceIte, stripPrefix_append, h2]
    simp [Nat.ne_of_gt hp1, Nat.ne_of_gt hp2, Nat.ne_of_gt hN, hN64, h4]
  | false =>
    simp only [Bool.false_eq_true, ↓reduceIte, stripPrefix_append, strip_true_false, h2, Option.map_some]
    simp [Nat.ne_of_gt hp1, Nat.ne_of_gt hp2, Nat.ne_of_gt hN, hN64, h4]

end CasModel
