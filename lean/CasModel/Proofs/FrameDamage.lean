import CasModel.Proofs.FrameLemmas
namespace CasModel

variable (H : Bytes → Bytes)

theorem take_encodeEntry_mid (hH : Hash32 H) (r : Rec) (n : Nat) (h44 : 44 ≤ n) :
    (encodeEntry H r).take n =
      leBytes 8 r.ver ++ (H r.payload ++ (leBytes 4 r.payload.length ++ r.payload.take (n - 44))) := by
  have h32 := hH r.payload
  unfold encodeEntry
  rw [List.take_append, List.take_of_length_le (by simp; omega)]
  congr 1
  rw [List.take_append, List.take_of_length_le (by simp; omega)]
  congr 1
  rw [List.take_append, List.take_of_length_le (by simp; omega)]
  congr 2
  simp; omega

/-- a header whose payload is cut short is an error -/
theorem readNext_cut_payload (hH : Hash32 H) (r : Rec) (hr : r.WF) (n : Nat)
    (h44 : 44 ≤ n) (hn : n < 44 + r.payload.length) :
    readNext H ((encodeEntry H r).take n) = .err .shortPayload := by
  obtain ⟨hv0, hv, hl0, hl⟩ := hr
  rw [take_encodeEntry_mid H hH r n h44,
    readNext_general H _ _ _ _ (leBytes_length _ _) (hH _) (leBytes_length _ _),
    leNat_leBytes_of_lt 8 _ hv, leNat_leBytes_of_lt 4 _ hl]
  rw [if_neg (by omega), if_neg (by omega), if_pos (by simp; omega)]

/-- **Truncation.** Cutting a well-formed record stream at ANY byte offset `n` reads back as
    exactly the records wholly before the cut, or as an error; nothing else. -/
theorem readSegmentFuel_truncated (hH : Hash32 H) (rs : List Rec) (hrs : ∀ r ∈ rs, r.WF)
    (n f : Nat) (hf : rs.length < f) :
    (∃ i, i ≤ rs.length ∧ readSegmentFuel H f ((encodeAll H rs).take n) = .ok (rs.take i)
        ∧ (encodeAll H (rs.take i)).length ≤ n
        ∧ (i < rs.length → n < (encodeAll H (rs.take (i+1))).length))
    ∨ readSegmentFuel H f ((encodeAll H rs).take n) = .error .shortPayload := by
  induction rs generalizing n f with
  | nil =>
    left
    refine ⟨0, by simp, ?_, by simp [encodeAll], by simp⟩
    cases f with
    | zero => omega
    | succ f => simp [encodeAll, readSegmentFuel, readNext]
  | cons r rs ih =>
    cases f with
    | zero => omega
    | succ f =>
    have hr := hrs r (by simp)
    have hrs' : ∀ r' ∈ rs, r'.WF := fun r' h' => hrs r' (by simp [h'])
    have hE := encodeEntry_length H hH r
    by_cases c1 : n < 44
    · left
      refine ⟨0, by simp, ?_, by simp [encodeAll], ?_⟩
      · simp only [readSegmentFuel]
        rw [readNext_short]
        · simp
        · simp; omega
      · intro _; simp [encodeAll, hE]; omega
    · by_cases c2 : n < 44 + r.payload.length
      · right
        have : (encodeAll H (r :: rs)).take n = (encodeEntry H r).take n := by
          simp only [encodeAll]
          rw [List.take_append_of_le_length (by omega)]
        rw [this]
        simp [readSegmentFuel, readNext_cut_payload H hH r hr n (by omega) c2]
      · have : (encodeAll H (r :: rs)).take n =
            encodeEntry H r ++ (encodeAll H rs).take (n - (44 + r.payload.length)) := by
          simp only [encodeAll]
          rw [List.take_append, List.take_of_length_le (by omega), hE]
        rw [this]
        simp only [readSegmentFuel, readNext_encode H hH r hr]
        rcases ih hrs' (n - (44 + r.payload.length)) f (by simp at hf; omega) with
          ⟨i, hi, hread, hle, hlt⟩ | herr
        · left
          refine ⟨i+1, by simp; omega, by simp [hread], ?_, ?_⟩
          · simp [encodeAll, hE]; omega
          · intro h; simp at h
            have := hlt h
            simp [encodeAll, hE] at this ⊢; omega
        · right; simp [herr]

/-- **Byte change.** A record whose stored checksum does not match the checksum of its stored
    payload makes the reader fail, wherever it is in the stream. -/
theorem readSegmentFuel_corrupt (hH : Hash32 H) (pre : List Rec) (hpre : ∀ r ∈ pre, r.WF)
    (ver len : Nat) (hv0 : 0 < ver) (hv : ver < U64) (hl0 : 0 < len) (hl : len < U32)
    (c' p' : Bytes) (hc : c'.length = 32) (hp : p'.length = len) (hbad : H p' ≠ c')
    (post : Bytes) (f : Nat) (hf : pre.length < f) :
    readSegmentFuel H f
        (encodeAll H pre ++ ((leBytes 8 ver ++ (c' ++ (leBytes 4 len ++ p'))) ++ post))
      = .error .checksum := by
  induction pre generalizing f with
  | nil =>
    cases f with
    | zero => omega
    | succ f =>
    have e : encodeAll H [] ++ ((leBytes 8 ver ++ (c' ++ (leBytes 4 len ++ p'))) ++ post) =
        leBytes 8 ver ++ (c' ++ (leBytes 4 len ++ (p' ++ post))) := by
      simp [encodeAll, List.append_assoc]
    rw [e]
    simp only [readSegmentFuel]
    rw [readNext_general H _ _ _ _ (leBytes_length _ _) hc (leBytes_length _ _),
      leNat_leBytes_of_lt 8 _ hv, leNat_leBytes_of_lt 4 _ hl]
    have a4 : (p' ++ post).take len = p' := by rw [← hp]; simp
    rw [if_neg (by omega), if_neg (by omega), if_neg (by simp [hp]), a4, if_neg hbad]
  | cons r pre ih =>
    cases f with
    | zero => omega
    | succ f =>
    have hr := hpre r (by simp)
    have hpre' : ∀ r' ∈ pre, r'.WF := fun r' h' => hpre r' (by simp [h'])
    simp only [encodeAll, List.append_assoc, readSegmentFuel, readNext_encode H hH r hr]
    have := ih hpre' f (by simp at hf; omega)
    simp only [List.append_assoc] at this
    rw [this]

end CasModel
