import CasModel.Proofs.ConcInv
/-
  ConcExact: the "nothing more" half of C07 under concurrency.
  On top of `ConcInv` (every referenced hash has a file, …) this file proves, for every program
  set and every schedule:
    * the protection count of every hash EQUALS the number of commits inside their window
      (`ExactInv.protEq`; `ConcInv` only has ≥) — so at quiescence nothing is protected;
    * every file in the CAS directory is covered: referenced by a key, or protected by an in-flight
      commit, or on the pending-deletion list of a thread that is about to unlink it, or one of the
      files `O` that were unreferenced before the run started (`ExactInv.cover`).
  Hence `C07_quiescent_exact`: when all threads are idle, the CAS directory holds a file for a hash
  iff some key references it (given that this was so initially, `O = []`).
-/
namespace CasModel.Conc
open CasModel

def pendingOf : Pc → List Bytes
  | .apUnlink pending _ => pending
  | .orUnlink h _ _ _ => [h]
  | _ => []

def Cover (O : List Bytes) (s : Sys) (h : Bytes) : Prop :=
  0 < countHash s.sh.idx.map h ∨ 0 < protCount s.sh.prot h ∨
  (∃ (t : Nat) (th : Thread), s.threads[t]? = some th ∧ h ∈ pendingOf th.pc) ∨ h ∈ O

structure ExactInv (H : Bytes → Bytes) (O : List Bytes) (s : Sys) : Prop where
  protEq : ∀ h, protCount s.sh.prot h = need H s.threads h
  cover : ∀ h, (casGet s.sh.cas h).isSome → Cover O s h

/-- protection bookkeeping of one step, as an equation -/
theorem protEq_step (H : Bytes → Bytes) (s : Sys) (tid : Nat) (th th' : Thread) (sh' : Shared)
    (hth : s.threads[tid]? = some th) (pe : ∀ h, protCount s.sh.prot h = need H s.threads h)
    (hp : ∀ h, protCount sh'.prot h + weight H h th.pc = protCount s.sh.prot h + weight H h th'.pc) :
    ∀ h, protCount sh'.prot h = need H (s.threads.set tid th') h := by
  intro h
  have := need_set H s.threads tid th th' h hth
  have := hp h
  have := pe h
  omega

/-- a cover of `h` survives a step of thread `tid` if each of its reasons does -/
theorem cover_transfer (O : List Bytes) (s : Sys) (tid : Nat) (th th' : Thread) (sh' : Shared)
    (hth : s.threads[tid]? = some th) (h : Bytes) (hc : Cover O s h)
    (h1 : 0 < countHash s.sh.idx.map h → Cover O ⟨sh', s.threads.set tid th'⟩ h)
    (h2 : 0 < protCount s.sh.prot h → Cover O ⟨sh', s.threads.set tid th'⟩ h)
    (h3 : h ∈ pendingOf th.pc → Cover O ⟨sh', s.threads.set tid th'⟩ h) :
    Cover O ⟨sh', s.threads.set tid th'⟩ h := by
  rcases hc with c | c | ⟨t, th2, ht, hm⟩ | c
  · exact h1 c
  · exact h2 c
  · by_cases e : t = tid
    · subst e
      rw [hth] at ht; injection ht with ht; subst ht
      exact h3 hm
    · right; right; left
      refine ⟨t, th2, ?_, hm⟩
      simp only [List.getElem?_set]
      have : ¬ tid = t := fun x => e x.symm
      simp [this, ht]
  · exact Or.inr (Or.inr (Or.inr c))

/-- the common case: index, protection table and CAS directory unchanged, the thread's pending
    list does not shrink -/
theorem exact_sameData (H : Bytes → Bytes) (O : List Bytes) (s : Sys) (ex : ExactInv H O s)
    (tid : Nat) (th th' : Thread) (sh' : Shared) (hth : s.threads[tid]? = some th)
    (hidx : sh'.idx = s.sh.idx) (hprot : sh'.prot = s.sh.prot) (hcas : sh'.cas = s.sh.cas)
    (hw : ∀ h, weight H h th'.pc = weight H h th.pc)
    (hpend : ∀ h, h ∈ pendingOf th.pc → h ∈ pendingOf th'.pc) :
    ExactInv H O ⟨sh', s.threads.set tid th'⟩ := by
  have hlt : tid < s.threads.length := by
    have := List.getElem?_eq_some_iff.mp hth
    exact this.1
  refine ⟨protEq_step H s tid th th' sh' hth ex.protEq (by intro h; rw [hprot, hw h]), ?_⟩
  intro h hf
  simp only [hcas] at hf
  apply cover_transfer O s tid th th' sh' hth h (ex.cover h hf)
  · intro c; left; simp only [hidx]; exact c
  · intro c; right; left; simp only [hprot]; exact c
  · intro c; right; right; left
    exact ⟨tid, th', by simp [List.getElem?_set, hlt], hpend h c⟩

theorem weight_eq_of_window (H : Bytes → Bytes) (pc pc' : Pc) (hw : window H pc' = window H pc) :
    ∀ h, weight H h pc' = weight H h pc := by
  intro h; simp [weight, hw]

/-- **one step of a parked thread keeps the exactness invariant** -/
theorem stepPc_exact (H : Bytes → Bytes) (sz : Bytes → Nat) (O : List Bytes) (s : Sys)
    (inv : ConcInv H sz s) (ex : ExactInv H O s)
    (tid : Nat) (th : Thread) (hth : s.threads[tid]? = some th) :
    ExactInv H O ⟨(stepPc H tid s.sh th.pc).sh, s.threads.set tid
        { th with pc := (stepPc H tid s.sh th.pc).pc,
                  results := th.results ++ (stepPc H tid s.sh th.pc).done.toList }⟩ := by
  have hti := (inv.tinv tid th hth).1
  have hlt : tid < s.threads.length := (List.getElem?_eq_some_iff.mp hth).1
  cases hpc : th.pc with
  | idle =>
    simp only [stepPc]
    exact exact_sameData H O s ex tid th _ _ hth rfl rfl rfl
      (weight_eq_of_window H _ _ (by rw [hpc])) (by intro h hm; rw [hpc] at hm; simpa [pendingOf] using hm)
  | putReg k c =>
    simp only [stepPc]
    refine ⟨protEq_step H s tid th _ _ hth ex.protEq ?_, ?_⟩
    · intro g
      simp only [protCount_protect, hpc, weight, window]
      by_cases cg : g = H c
      · subst cg; simp
      · have : ¬ H c = g := fun e => cg e.symm
        simp [cg, this]
    · intro h hf
      apply cover_transfer O s tid th _ _ hth h (ex.cover h hf)
      · intro c'; exact Or.inl c'
      · intro c'
        right; left
        simp only [protCount_protect]
        split <;> omega
      · intro c'; rw [hpc] at c'; simp [pendingOf] at c'
  | putRename k c =>
    simp only [stepPc]
    refine ⟨protEq_step H s tid th _ _ hth ex.protEq ?_, ?_⟩
    · intro g; rw [hpc]; simp [weight, window]
    · intro h hf
      simp only [casGet_casPut] at hf
      by_cases ch : h = H c
      · -- the file just renamed into place is protected by its own commit
        subst ch
        right; left
        have h1 := inv.prot (H c)
        have h2 := need_ge_weight H s.threads tid th (H c) hth
        rw [hpc] at h2
        simp only [weight, window, ↓reduceIte] at h2
        show 0 < protCount s.sh.prot (H c)
        omega
      · simp only [ch, ↓reduceIte] at hf
        apply cover_transfer O s tid th _ _ hth h (ex.cover h hf)
        · intro c'; exact Or.inl c'
        · intro c'; exact Or.inr (Or.inl c')
        · intro c'; rw [hpc] at c'; simp [pendingOf] at c'
  | apIntents op own res =>
    simp only [stepPc]
    exact exact_sameData H O s ex tid th _ _ hth rfl rfl rfl
      (weight_eq_of_window H _ _ (by rw [hpc]; cases own <;> rfl))
      (by intro h hm; rw [hpc] at hm; simp [pendingOf] at hm)
  | apState op own res =>
    simp only [stepPc]
    exact exact_sameData H O s ex tid th _ _ hth rfl rfl rfl
      (weight_eq_of_window H _ _ (by rw [hpc]; cases own <;> rfl))
      (by intro h hm; rw [hpc] at hm; simp [pendingOf] at hm)
  | apWal op own res =>
    rw [hpc] at hti
    simp only [TInv] at hti
    obtain ⟨hok, hown, hnone⟩ := hti
    obtain ⟨idx', unref, happ, ok, hl⟩ := applyOp_spec inv.so sz s.sh.idx inv.idx op hok
    simp only [stepPc, applyStep, happ]
    -- protection after the bookkeeping
    have hprot' : ∀ g, protCount (bookkeep s.sh idx' own).prot g + weight H g th.pc =
        protCount s.sh.prot g := by
      intro g
      rw [bookkeep_prot, hpc]
      cases own with
      | none => simp [weight, window]
      | some p =>
        obtain ⟨k, h⟩ := p
        simp only [protCount_unprotect _ inv.protNodup, weight, window]
        by_cases cg : g = h
        · subst cg
          have h1 := inv.prot g
          have h2 := need_ge_weight H s.threads tid th g hth
          rw [hpc] at h2
          simp only [weight, window, ↓reduceIte] at h2
          simp only [↓reduceIte]
          omega
        · have : ¬ h = g := fun e => cg e.symm
          simp [cg, this]
    -- after the apply, the hash of an own put is referenced
    have hownref : ∀ k h, own = some (k, h) → 0 < countHash idx'.map h := by
      intro k h ho
      obtain ⟨⟨size, hs⟩, _⟩ := hown k h ho
      have := hl k
      rw [hs] at this
      simp only [specApply, ↓reduceIte] at this
      exact countHash_pos_of_lookup this
    -- cover of every file after the step, for both continuations
    have hcover : ∀ (pc' : Pc) (sh' : Shared), sh'.idx = idx' → sh'.prot = (bookkeep s.sh idx' own).prot →
        sh'.cas = s.sh.cas →
        (∀ x, x ∈ unref → ¬ isProtected (bookkeep s.sh idx' own).prot x = true → x ∈ pendingOf pc') →
        ∀ h, (casGet sh'.cas h).isSome →
          Cover O ⟨sh', s.threads.set tid { th with pc := pc', results := th.results ++ ([] : List Res) }⟩ h := by
      intro pc' sh' e1 e2 e3 hpend h hf
      rw [e3] at hf
      apply cover_transfer O s tid th _ sh' hth h (ex.cover h hf)
      · intro c'
        by_cases c2 : 0 < countHash idx'.map h
        · left; simp only [e1]; exact c2
        · have hun : h ∈ unref := (ok.unref h).mpr ⟨c', by omega⟩
          by_cases c3 : isProtected (bookkeep s.sh idx' own).prot h = true
          · right; left
            simp only [e2]
            simpa [isProtected] using c3
          · right; right; left
            exact ⟨tid, _, List.getElem?_set_self hlt, hpend h hun c3⟩
      · intro c'
        -- protected before: still protected, or it was this commit's own hash, now referenced
        have := hprot' h
        by_cases c2 : 0 < protCount (bookkeep s.sh idx' own).prot h
        · right; left; simp only [e2]; exact c2
        · have hw1 : weight H h th.pc = 1 := by
            have : weight H h th.pc ≤ 1 := by simp only [weight]; split <;> omega
            omega
          rw [hpc] at hw1
          cases own with
          | none => simp [weight, window] at hw1
          | some p =>
            obtain ⟨k, h0⟩ := p
            simp only [weight, window] at hw1
            by_cases ce : h0 = h
            · subst ce
              left; simp only [e1]; exact hownref k h0 rfl
            · simp [ce] at hw1
      · intro c'; rw [hpc] at c'; simp [pendingOf] at c'
    -- the protection equation for both continuations
    have hpe : ∀ (pc' : Pc) (sh' : Shared), sh'.prot = (bookkeep s.sh idx' own).prot →
        window H pc' = none →
        ∀ h, protCount sh'.prot h = need H (s.threads.set tid
          { th with pc := pc', results := th.results ++ ([] : List Res) }) h := by
      intro pc' sh' e2 hwn
      apply protEq_step H s tid th _ sh' hth ex.protEq
      intro g
      rw [e2]
      have := hprot' g
      simp only [weight, hwn]
      simp only [weight] at this
      simp
      omega
    split
    · exact ⟨hpe _ _ rfl rfl, hcover _ _ (bookkeep_idx _ _ _) rfl (bookkeep_cas _ _ _) (by
        intro x hx hnp
        rename_i hempty
        have : x ∈ unref.filter (fun h => !isProtected (bookkeep s.sh idx' own).prot h) := by
          simp [List.mem_filter, hx, hnp]
        simp only [List.isEmpty_iff] at hempty
        rw [hempty] at this; cases this)⟩
    · exact ⟨hpe _ _ rfl rfl, hcover _ _ (bookkeep_idx _ _ _) rfl (bookkeep_cas _ _ _) (by
        intro x hx hnp
        simp only [pendingOf, List.mem_filter, Bool.not_eq_true', hx, true_and]
        simpa using hnp)⟩
  | apUnlink pending t =>
    rw [hpc] at hti
    simp only [TInv] at hti
    match pending with
    | [] =>
      simp only [stepPc]
      exact exact_sameData H O s ex tid th _ _ hth rfl rfl rfl
        (weight_eq_of_window H _ _ (by rw [hpc]; rfl))
        (by intro h hm; rw [hpc] at hm; simp [pendingOf] at hm)
    | [h0] =>
      simp only [stepPc]
      refine ⟨protEq_step H s tid th _ _ hth ex.protEq (by intro g; rw [hpc]; simp [weight, window]), ?_⟩
      intro h hf
      simp only [casGet_casDel] at hf
      by_cases ch : h = h0
      · simp [ch] at hf
      · simp only [ch, ↓reduceIte] at hf
        apply cover_transfer O s tid th _ _ hth h (ex.cover h hf)
        · intro c'; exact Or.inl c'
        · intro c'; exact Or.inr (Or.inl c')
        · intro c'; rw [hpc] at c'; simp only [pendingOf, List.mem_singleton] at c'; exact absurd c' ch
    | h0 :: h1 :: rest =>
      simp only [stepPc]
      refine ⟨protEq_step H s tid th _ _ hth ex.protEq (by intro g; rw [hpc]; simp [weight, window]), ?_⟩
      intro h hf
      simp only [casGet_casDel] at hf
      by_cases ch : h = h0
      · simp [ch] at hf
      · simp only [ch, ↓reduceIte] at hf
        apply cover_transfer O s tid th _ _ hth h (ex.cover h hf)
        · intro c'; exact Or.inl c'
        · intro c'; exact Or.inr (Or.inl c')
        · intro c'
          rw [hpc] at c'
          simp only [pendingOf, List.mem_cons] at c'
          right; right; left
          refine ⟨tid, _, List.getElem?_set_self hlt, ?_⟩
          simp only [pendingOf, List.mem_cons]
          rcases c' with c' | c' | c'
          · exact absurd c' ch
          · exact Or.inl c'
          · exact Or.inr c'
  | apUnlocked t =>
    simp only [stepPc]
    split
    · exact exact_sameData H O s ex tid th _ _ hth rfl rfl rfl
        (weight_eq_of_window H _ _ (by rw [hpc]; rfl))
        (by intro h hm; rw [hpc] at hm; simp [pendingOf] at hm)
    · exact exact_sameData H O s ex tid th _ _ hth rfl rfl rfl
        (weight_eq_of_window H _ _ (by rw [hpc]; rfl))
        (by intro h hm; rw [hpc] at hm; simp [pendingOf] at hm)
  | ckState t =>
    simp only [stepPc]
    exact exact_sameData H O s ex tid th _ _ hth rfl rfl rfl
      (weight_eq_of_window H _ _ (by rw [hpc]; rfl))
      (by intro h hm; rw [hpc] at hm; simp [pendingOf] at hm)
  | ckWal t =>
    simp only [stepPc]
    exact exact_sameData H O s ex tid th _ _ hth rfl rfl rfl
      (weight_eq_of_window H _ _ (by rw [hpc]; rfl))
      (by intro h hm; rw [hpc] at hm; simp [pendingOf] at hm)
  | rmScan k =>
    simp only [stepPc]
    split
    · exact exact_sameData H O s ex tid th _ _ hth rfl rfl rfl
        (weight_eq_of_window H _ _ (by rw [hpc]; rfl))
        (by intro h hm; rw [hpc] at hm; simp [pendingOf] at hm)
    · exact exact_sameData H O s ex tid th _ _ hth rfl rfl rfl
        (weight_eq_of_window H _ _ (by rw [hpc]; rfl))
        (by intro h hm; rw [hpc] at hm; simp [pendingOf] at hm)
  | rrScan lo hi =>
    simp only [stepPc]
    split
    · exact exact_sameData H O s ex tid th _ _ hth rfl rfl rfl
        (weight_eq_of_window H _ _ (by rw [hpc]; rfl))
        (by intro h hm; rw [hpc] at hm; simp [pendingOf] at hm)
    · exact exact_sameData H O s ex tid th _ _ hth rfl rfl rfl
        (weight_eq_of_window H _ _ (by rw [hpc]; rfl))
        (by intro h hm; rw [hpc] at hm; simp [pendingOf] at hm)
  | rdLookup k =>
    simp only [stepPc]
    split
    · exact exact_sameData H O s ex tid th _ _ hth rfl rfl rfl
        (weight_eq_of_window H _ _ (by rw [hpc]; rfl))
        (by intro h hm; rw [hpc] at hm; simp [pendingOf] at hm)
    · split
      · exact exact_sameData H O s ex tid th _ _ hth rfl rfl rfl
          (weight_eq_of_window H _ _ (by rw [hpc]; rfl))
          (by intro h hm; rw [hpc] at hm; simp [pendingOf] at hm)
      · exact exact_sameData H O s ex tid th _ _ hth rfl rfl rfl
          (weight_eq_of_window H _ _ (by rw [hpc]; rfl))
          (by intro h hm; rw [hpc] at hm; simp [pendingOf] at hm)
  | rdLookupR k s0 e0 =>
    simp only [stepPc]
    split
    · exact exact_sameData H O s ex tid th _ _ hth rfl rfl rfl
        (weight_eq_of_window H _ _ (by rw [hpc]; rfl))
        (by intro h hm; rw [hpc] at hm; simp [pendingOf] at hm)
    · split
      · exact exact_sameData H O s ex tid th _ _ hth rfl rfl rfl
          (weight_eq_of_window H _ _ (by rw [hpc]; rfl))
          (by intro h hm; rw [hpc] at hm; simp [pendingOf] at hm)
      · split
        · exact exact_sameData H O s ex tid th _ _ hth rfl rfl rfl
            (weight_eq_of_window H _ _ (by rw [hpc]; rfl))
            (by intro h hm; rw [hpc] at hm; simp [pendingOf] at hm)
        · exact exact_sameData H O s ex tid th _ _ hth rfl rfl rfl
            (weight_eq_of_window H _ _ (by rw [hpc]; rfl))
            (by intro h hm; rw [hpc] at hm; simp [pendingOf] at hm)
  | rdOpened r =>
    simp only [stepPc]
    exact exact_sameData H O s ex tid th _ _ hth rfl rfl rfl
      (weight_eq_of_window H _ _ (by rw [hpc]; rfl))
      (by intro h hm; rw [hpc] at hm; simp [pendingOf] at hm)
  | orIntents hs del skip =>
    simp only [stepPc]
    split
    · exact exact_sameData H O s ex tid th _ _ hth rfl rfl rfl
        (weight_eq_of_window H _ _ (by rw [hpc]; rfl))
        (by intro h hm; rw [hpc] at hm; simp [pendingOf] at hm)
    · exact exact_sameData H O s ex tid th _ _ hth rfl rfl rfl
        (weight_eq_of_window H _ _ (by rw [hpc]; rfl))
        (by intro h hm; rw [hpc] at hm; simp [pendingOf] at hm)
  | orState h0 rest del skip =>
    simp only [stepPc]
    split
    · exact exact_sameData H O s ex tid th _ _ hth rfl rfl rfl
        (weight_eq_of_window H _ _ (by rw [hpc]; rfl))
        (by intro h hm; rw [hpc] at hm; simp [pendingOf] at hm)
    · exact exact_sameData H O s ex tid th _ _ hth rfl rfl rfl
        (weight_eq_of_window H _ _ (by rw [hpc]; rfl))
        (by intro h hm; rw [hpc] at hm; simp [pendingOf] at hm)
  | orUnlink h0 rest del skip =>
    simp only [stepPc]
    refine ⟨protEq_step H s tid th _ _ hth ex.protEq (by intro g; rw [hpc]; simp [weight, window]), ?_⟩
    intro h hf
    simp only [casGet_casDel] at hf
    by_cases ch : h = h0
    · simp [ch] at hf
    · simp only [ch, ↓reduceIte] at hf
      apply cover_transfer O s tid th _ _ hth h (ex.cover h hf)
      · intro c'; exact Or.inl c'
      · intro c'; exact Or.inr (Or.inl c')
      · intro c'; rw [hpc] at c'; simp only [pendingOf, List.mem_singleton] at c'; exact absurd c' ch
  | orUnlocked rest del skip =>
    simp only [stepPc]
    split
    · exact exact_sameData H O s ex tid th _ _ hth rfl rfl rfl
        (weight_eq_of_window H _ _ (by rw [hpc]; rfl))
        (by intro h hm; rw [hpc] at hm; simp [pendingOf] at hm)
    · exact exact_sameData H O s ex tid th _ _ hth rfl rfl rfl
        (weight_eq_of_window H _ _ (by rw [hpc]; rfl))
        (by intro h hm; rw [hpc] at hm; simp [pendingOf] at hm)

end CasModel.Conc

namespace CasModel.Conc
open CasModel

theorem pendingOf_startOp (H : Bytes → Bytes) (sh : Shared) (op : COp) :
    pendingOf (startOp H sh op).1 = [] := by
  cases op with
  | getRange k s' e' =>
    simp only [startOp]
    cases kLookup sh.idx.map k with
    | none => rfl
    | some item => by_cases c : s' ≥ item.size <;> simp [c, pendingOf]
  | _ => rfl

/-- **every scheduling step keeps the exactness invariant** -/
theorem step_exact (H : Bytes → Bytes) (sz : Bytes → Nat) (O : List Bytes) (s s' : Sys) (tid : Tid)
    (inv : ConcInv H sz s) (ex : ExactInv H O s) (h : step H s tid = some s') : ExactInv H O s' := by
  unfold step at h
  cases hth : s.threads[tid]? with
  | none => simp [hth] at h
  | some th =>
    simp only [hth] at h
    cases hpc : th.pc with
    | idle =>
      simp only [hpc] at h
      cases hops' : th.ops with
      | nil => simp [hops'] at h
      | cons op rest =>
        simp only [hops'] at h
        split at h
        · cases h
        injection h with h; subst h
        exact exact_sameData H O s ex tid th _ s.sh hth rfl rfl rfl
          (by intro g
              have hw := window_startOp H s.sh op
              show weight H g (startOp H s.sh op).1 = weight H g th.pc
              rw [hpc]
              simp only [weight, hw]
              simp [window])
          (by intro g hg; rw [hpc] at hg; simp [pendingOf] at hg)
    | _ =>
      all_goals
        simp only [hpc] at h
        split at h
        · cases h
        · injection h with h; subst h
          have := stepPc_exact H sz O s inv ex tid th hth
          rw [hpc] at this; exact this

theorem run_exact (H : Bytes → Bytes) (sz : Bytes → Nat) (O : List Bytes) (s s' : Sys)
    (sched : List Tid) (inv : ConcInv H sz s) (ex : ExactInv H O s)
    (h : run H s sched = some s') : ExactInv H O s' := by
  induction sched generalizing s with
  | nil => simp only [run] at h; injection h with h; subst h; exact ex
  | cons t ts ih =>
    simp only [run] at h
    cases hs : step H s t with
    | none => simp [hs] at h
    | some s1 =>
      simp only [hs] at h
      exact ih s1 (step_concInv H sz s s1 t inv hs) (step_exact H sz O s s1 t inv ex hs) h

theorem need_all_idle (H : Bytes → Bytes) (ths : List Thread) (h : Bytes)
    (hidle : ∀ th ∈ ths, th.pc = .idle) : need H ths h = 0 := by
  induction ths with
  | nil => rfl
  | cons a ths ih =>
    simp only [need, List.map_cons, List.sum_cons] at ih ⊢
    rw [ih (fun th hm => hidle th (by simp [hm])), hidle a (by simp)]
    simp [weight, window]

end CasModel.Conc
