import CasModel.Store
import CasModel.Proofs.Recompute
import CasModel.Props.C16
/-
  Load: the snapshot written by a checkpoint loads back to the state it was taken from
  (src/index/persistence.rs: `save` = serialize the ordered map + version; `load` = deserialize
  into a byte-ordered map, re-insert every entry under the key type's order, rebuild the
  refcounts entry by entry, recompute the statistics).
  `load_saved`: for every state in the index invariant, loading its saved image gives the same
  key map, the same refcount function, the same statistics, the saved version — and the loaded
  state is again in the invariant (C12 holds from the first instant after a restart).
-/
namespace CasModel

section
variable {K : Type} [DecidableEq K] {lt : K → K → Bool}

def keysOf (m : KMap K) : List K := m.map (·.1)

theorem kLookup_none_iff (m : KMap K) (k : K) : kLookup m k = none ↔ k ∉ keysOf m := by
  induction m with
  | nil => simp [kLookup, keysOf]
  | cons e m ih =>
    obtain ⟨k0, v0⟩ := e
    simp only [kLookup, keysOf, List.map_cons, List.mem_cons, not_or]
    by_cases c : k0 = k
    · subst c; simp
    · have c' : ¬ k = k0 := fun h => c h.symm
      simp only [c, ↓reduceIte, c', not_false_eq_true, true_and]
      exact ih

theorem kInsert_keys_nodup (m : KMap K) (k : K) (v : Item) (hn : (keysOf m).Nodup)
    (hk : k ∉ keysOf m) : (keysOf (kInsert lt m k v).1).Nodup := by
  induction m with
  | nil => simp [kInsert, keysOf]
  | cons e m ih =>
    obtain ⟨k0, v0⟩ := e
    simp only [keysOf, List.map_cons, List.nodup_cons, List.mem_cons, not_or] at hn hk
    simp only [kInsert]
    have c0 : ¬ k0 = k := fun h => hk.1 h.symm
    simp only [c0, ↓reduceIte]
    by_cases c1 : lt k k0 = true
    · simp only [c1, ↓reduceIte, keysOf, List.map_cons, List.nodup_cons, List.mem_cons, not_or]
      exact ⟨⟨hk.1, hk.2⟩, hn.1, hn.2⟩
    · simp only [c1, Bool.false_eq_true, ↓reduceIte, keysOf, List.map_cons, List.nodup_cons]
      refine ⟨?_, ih hn.2 hk.2⟩
      intro hm
      obtain ⟨e, he, hek⟩ := List.mem_map.mp hm
      rcases kInsert_keys_mem m k v e he with h | h
      · subst h; exact c0 hek.symm
      · exact hn.1 (List.mem_map.mpr ⟨e, h, hek⟩)

/-- two sorted maps with the same lookups are the same list -/
theorem sorted_ext (so : StrictOrder lt) (a b : KMap K) (ha : Sorted lt a) (hb : Sorted lt b)
    (h : ∀ k, kLookup a k = kLookup b k) : a = b := by
  induction a generalizing b with
  | nil =>
    cases b with
    | nil => rfl
    | cons e b =>
      have := h e.1
      simp [kLookup] at this
  | cons e a ih =>
    obtain ⟨k1, v1⟩ := e
    cases b with
    | nil =>
      have := h k1
      simp [kLookup] at this
    | cons e2 b =>
      obtain ⟨k2, v2⟩ := e2
      have ha' := List.pairwise_cons.mp ha
      have hb' := List.pairwise_cons.mp hb
      have hk : k1 = k2 := by
        by_cases c : k1 = k2
        · exact c
        · exfalso
          have c' : ¬ k2 = k1 := fun x => c x.symm
          have h1 := h k1
          simp only [kLookup, ↓reduceIte, c'] at h1
          have m1 := kLookup_mem h1.symm
          have h2 := h k2
          simp only [kLookup, ↓reduceIte, c] at h2
          have m2 := kLookup_mem h2
          have l1 := hb'.1 _ m1
          have l2 := ha'.1 _ m2
          have := so.trans _ _ _ l1 l2
          simp [so.irrefl] at this
      subst hk
      have hv : v1 = v2 := by
        have := h k1
        simpa [kLookup] using this
      subst hv
      congr 1
      apply ih b ha'.2 hb'.2
      intro k
      by_cases c : k1 = k
      · subst c
        rw [kLookup_none_of_lt so ha'.1, kLookup_none_of_lt so hb'.1]
      · have := h k
        simpa [kLookup, c] using this

end

/-! ### the byte-ordered intermediate map -/

def pairsOf (es : List Entry) : KMap Bytes := es.map (fun e => (e.key, (⟨e.hash, e.size⟩ : Item)))

theorem pairsOf_entriesOf (m : KMap Bytes) : pairsOf (entriesOf m) = m := by
  simp only [pairsOf, entriesOf, List.map_map]
  conv => rhs; rw [← List.map_id m]
  apply List.map_congr_left
  intro e _; rfl

theorem rawFold_spec (es : List Entry) (acc : KMap Bytes)
    (hn : (keysOf (pairsOf es)).Nodup) (hacc : (keysOf acc).Nodup)
    (hd : ∀ k ∈ keysOf (pairsOf es), k ∉ keysOf acc) :
    let r := es.foldl (fun m e => (kInsert bytesLt m e.key ⟨e.hash, e.size⟩).1) acc
    (keysOf r).Nodup ∧
    ∀ k, kLookup r k = match kLookup (pairsOf es) k with
                       | some v => some v
                       | none => kLookup acc k := by
  induction es generalizing acc with
  | nil => exact ⟨hacc, fun k => rfl⟩
  | cons e es ih =>
    simp only [pairsOf, List.map_cons, keysOf, List.nodup_cons] at hn
    have hk : e.key ∉ keysOf acc := hd e.key (by simp [pairsOf, keysOf])
    have hacc' := kInsert_keys_nodup (lt := bytesLt) acc e.key ⟨e.hash, e.size⟩ hacc hk
    have hd' : ∀ k ∈ keysOf (pairsOf es),
        k ∉ keysOf (kInsert bytesLt acc e.key ⟨e.hash, e.size⟩).1 := by
      intro k hkm
      rw [← kLookup_none_iff, kLookup_kInsert]
      have hne : ¬ k = e.key := by
        intro c; subst c
        exact hn.1 (by simpa [pairsOf, keysOf] using hkm)
      simp only [hne, ↓reduceIte]
      rw [kLookup_none_iff]
      exact hd k (by simp only [pairsOf, keysOf, List.map_cons, List.mem_cons]; right; simpa [pairsOf, keysOf] using hkm)
    obtain ⟨r1, r2⟩ := ih (kInsert bytesLt acc e.key ⟨e.hash, e.size⟩).1
      (by simpa [pairsOf, keysOf] using hn.2) hacc' hd'
    refine ⟨r1, ?_⟩
    intro k
    have := r2 k
    simp only [List.foldl_cons]
    rw [this, kLookup_kInsert]
    simp only [pairsOf, List.map_cons, kLookup]
    by_cases c : e.key = k
    · subst c
      have : kLookup (pairsOf es) e.key = none := by
        rw [kLookup_none_iff]
        simpa [pairsOf, keysOf] using hn.1
      simp only [pairsOf] at this
      simp [this]
    · have c' : ¬ k = e.key := fun x => c x.symm
      simp [c, c']

theorem rawMap_spec (m : KMap Bytes) (hn : (keysOf m).Nodup) :
    (keysOf (rawMap (entriesOf m))).Nodup ∧ ∀ k, kLookup (rawMap (entriesOf m)) k = kLookup m k := by
  have := rawFold_spec (entriesOf m) [] (by rw [pairsOf_entriesOf]; exact hn) (by simp [keysOf])
    (by simp [keysOf])
  simp only at this
  refine ⟨this.1, ?_⟩
  intro k
  have h2 := this.2 k
  rw [pairsOf_entriesOf] at h2
  unfold rawMap
  rw [h2]
  cases kLookup m k <;> simp [kLookup]

/-! ### re-insertion under the key order, refcounts rebuilt -/

/-- the part of the invariant `loadEntries` maintains (statistics are recomputed afterwards) -/
structure PInv (lt : Bytes → Bytes → Bool) (sz : Bytes → Nat) (s : IndexState Bytes) : Prop where
  sorted : Sorted lt s.map
  mapSz : ∀ e ∈ s.map, e.2.size = sz e.2.hash
  rcNodup : (rcKeys s.rc).Nodup
  rcOK : ∀ h, rcGet s.rc h = if countHash s.map h = 0 then none else some (countHash s.map h)

theorem loadEntries_spec (kind : KeyKind) (so : StrictOrder kind.lt) (sz : Bytes → Nat)
    (raw : KMap Bytes) (s0 : IndexState Bytes) (inv : PInv kind.lt sz s0)
    (hv : ∀ e ∈ raw, kind.valid e.1 = true) (hsz : ∀ e ∈ raw, e.2.size = sz e.2.hash)
    (hn : (keysOf raw).Nodup) (hd : ∀ k ∈ keysOf raw, kLookup s0.map k = none) :
    ∃ s1, loadEntries kind raw s0 = .ok s1 ∧ PInv kind.lt sz s1 ∧
      s1.lastPersisted = s0.lastPersisted ∧
      ∀ k, kLookup s1.map k = match kLookup raw k with
                              | some v => some v
                              | none => kLookup s0.map k := by
  induction raw generalizing s0 with
  | nil => exact ⟨s0, rfl, inv, rfl, fun k => rfl⟩
  | cons e raw ih =>
    obtain ⟨k, item⟩ := e
    simp only [keysOf, List.map_cons, List.nodup_cons] at hn
    have hval := hv (k, item) (by simp)
    simp only at hval
    simp only [loadEntries, hval, ↓reduceIte]
    have hnew : kLookup s0.map k = none := hd k (by simp [keysOf])
    -- the state after this entry
    have hcnt := countHash_kInsert so s0.map inv.sorted k item
    simp only [hnew] at hcnt
    have hinc := incRef_spec sz s0.rc inv.rcNodup item.hash (countHash s0.map item.hash)
      (inv.rcOK item.hash)
    simp only at hinc
    obtain ⟨i1, i2, _, _, _⟩ := hinc
    have inv' : PInv kind.lt sz
        { s0 with map := (kInsert kind.lt s0.map k item).1, rc := (incRef s0.rc item.hash).1 } := by
      refine ⟨kInsert_sorted so s0.map inv.sorted k item, ?_, i1, ?_⟩
      · intro e he
        rcases kInsert_keys_mem s0.map k item e he with h | h
        · subst h; exact hsz (k, item) (by simp)
        · exact inv.mapSz e h
      · intro h
        have hc := hcnt h
        simp only [Nat.add_zero] at hc
        rw [i2 h, hc]
        by_cases c : h = item.hash
        · subst c; simp
        · have c' : ¬ item.hash = h := fun x => c x.symm
          simp only [c, ↓reduceIte, c', Nat.add_zero]
          exact inv.rcOK h
    have hd' : ∀ k' ∈ keysOf raw,
        kLookup (kInsert kind.lt s0.map k item).1 k' = none := by
      intro k' hk'
      rw [kLookup_kInsert]
      have hne : ¬ k' = k := by
        intro c; subst c; exact hn.1 (by simpa [keysOf] using hk')
      simp only [hne, ↓reduceIte]
      exact hd k' (by simp only [keysOf, List.map_cons, List.mem_cons]; right; simpa [keysOf] using hk')
    obtain ⟨s1, h1, h2, h3, h4⟩ := ih _ inv' (fun e he => hv e (by simp [he]))
      (fun e he => hsz e (by simp [he])) (by simpa [keysOf] using hn.2) hd'
    refine ⟨s1, h1, h2, h3, ?_⟩
    intro k'
    rw [h4 k', kLookup_kInsert]
    simp only [kLookup]
    by_cases c : k = k'
    · subst c
      have : kLookup raw k = none := by
        rw [kLookup_none_iff]; simpa [keysOf] using hn.1
      simp [this]
    · have c' : ¬ k' = k := fun x => c x.symm
      simp [c, c']

/-- the keys of a sorted map are pairwise different -/
theorem sorted_keys_nodup {lt : Bytes → Bytes → Bool} (so : StrictOrder lt) (m : KMap Bytes)
    (hs : Sorted lt m) : (keysOf m).Nodup := by
  induction m with
  | nil => simp [keysOf]
  | cons e m ih =>
    have hs' := List.pairwise_cons.mp hs
    simp only [keysOf, List.map_cons, List.nodup_cons]
    refine ⟨?_, ih hs'.2⟩
    intro hm
    obtain ⟨e', he', hk⟩ := List.mem_map.mp hm
    have := hs'.1 e' he'
    rw [hk, so.irrefl] at this
    cases this

/-- what `save` accepts: every key decodes, every entry fits the on-disk fields -/
structure Saveable (kind : KeyKind) (s : IndexState Bytes) (ver : Nat) : Prop where
  valid : ∀ e ∈ s.map, kind.valid e.1 = true
  wf : ∀ e ∈ entriesOf s.map, EntryWF e
  count : s.map.length < U32
  ver : ver < U64

/-- **load ∘ save.** Loading the image `save` writes for a state in the index invariant succeeds
    and returns that state: same key map, same refcounts, same statistics, the saved version; the
    loaded state satisfies the invariant. -/
theorem load_saved (kind : KeyKind) (so : StrictOrder kind.lt) (sz : Bytes → Nat)
    (s : IndexState Bytes) (inv : IdxInv kind.lt sz s) (ver : Nat) (sv : Saveable kind s ver)
    (d : Disk) (synced : Nat)
    (hf : d.get .index = some ⟨serIndex (entriesOf s.map) ver, synced⟩) :
    ∃ r, loadSnapshot kind d = .ok r ∧ r.map = s.map ∧ (∀ h, rcGet r.rc h = rcGet s.rc h) ∧
      r.lastPersisted = ver ∧ r.uniqueBlobs = s.uniqueBlobs ∧ r.totalBytes = s.totalBytes ∧
      r.serializedSize = (serIndex (entriesOf s.map) ver).length ∧ IdxInv kind.lt sz r := by
  have hrt := C16_index_roundtrip (entriesOf s.map) ver sv.ver
    (by simpa [entriesOf] using sv.count) sv.wf []
  rw [List.append_nil] at hrt
  have hne : (serIndex (entriesOf s.map) ver).isEmpty = false := by
    have : 0 < (serIndex (entriesOf s.map) ver).length := by
      simp [serIndex, leBytes_length]; omega
    cases hx : serIndex (entriesOf s.map) ver with
    | nil => simp [hx] at this
    | cons _ _ => rfl
  have hnod := sorted_keys_nodup so s.map inv.sorted
  obtain ⟨rn, rl⟩ := rawMap_spec s.map hnod
  have p0 : PInv kind.lt sz ({ lastPersisted := ver } : IndexState Bytes) :=
    ⟨List.Pairwise.nil, by simp, by simp [rcKeys], by simp [rcGet]⟩
  have hmemraw : ∀ e ∈ rawMap (entriesOf s.map), e ∈ s.map := by
    intro e he
    have hl : kLookup (rawMap (entriesOf s.map)) e.1 = some e.2 := by
      -- nodup keys: membership gives the lookup
      clear rl
      generalize rawMap (entriesOf s.map) = m at he rn
      induction m with
      | nil => cases he
      | cons e0 m ih =>
        obtain ⟨k0, v0⟩ := e0
        simp only [keysOf, List.map_cons, List.nodup_cons] at rn
        rcases List.mem_cons.mp he with h | h
        · subst h; simp [kLookup]
        · have hne : ¬ k0 = e.1 := by
            intro c
            exact rn.1 (List.mem_map.mpr ⟨e, h, c.symm⟩)
          simp only [kLookup, hne, ↓reduceIte]
          exact ih h (by simpa [keysOf] using rn.2)
    rw [rl] at hl
    exact kLookup_mem hl
  obtain ⟨s1, hl1, pinv, hlp, hlook⟩ := loadEntries_spec kind so sz (rawMap (entriesOf s.map))
    { lastPersisted := ver } p0
    (fun e he => sv.valid e (hmemraw e he))
    (fun e he => inv.mapSz e (hmemraw e he)) rn (by intro k _; rfl)
  have hmap : s1.map = s.map := by
    apply sorted_ext so _ _ pinv.sorted inv.sorted
    intro k
    rw [hlook k, rl k]
    cases kLookup s.map k <;> simp [kLookup]
  -- the loaded state with consistent statistics filled in satisfies the whole invariant
  let s1' : IndexState Bytes :=
    { s1 with uniqueBlobs := s1.rc.length, totalBytes := ((rcKeys s1.rc).map sz).sum }
  have inv1 : IdxInv kind.lt sz s1' :=
    ⟨pinv.sorted, pinv.mapSz, pinv.rcNodup, pinv.rcOK, rfl, rfl⟩
  have hrec : ∀ n, recomputeStats s1 n = recomputeStats s1' n := fun n => rfl
  have ag1 := recompute_agrees sz s1' inv1 (serIndex (entriesOf s.map) ver).length
  have ag0 := recompute_agrees sz s inv (serIndex (entriesOf s.map) ver).length
  refine ⟨recomputeStats s1 (serIndex (entriesOf s.map) ver).length, ?_, hmap, ?_, hlp, ?_, ?_, rfl, ?_⟩
  · simp only [loadSnapshot, hf, hne, hrt, hl1]
    rfl
  · intro h
    show rcGet s1.rc h = rcGet s.rc h
    rw [pinv.rcOK h, inv.rcOK h, hmap]
  · rw [← ag0.1]
    simp only [recomputeStats, hmap]
  · rw [← ag0.2]
    simp only [recomputeStats, hmap]
  · rw [hrec]
    refine ⟨inv1.sorted, inv1.mapSz, inv1.rcNodup, inv1.rcOK, ?_, ?_⟩
    · show (recomputeStats s1' _).uniqueBlobs = s1.rc.length
      rw [ag1.1]
    · show (recomputeStats s1' _).totalBytes = ((rcKeys s1.rc).map sz).sum
      rw [ag1.2]

end CasModel
