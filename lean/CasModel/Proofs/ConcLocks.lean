import CasModel.Conc
/-
  P5 (C15): lock discipline of the concurrent protocol.
    * `LockInv`   : the recorded lock holders are exactly the threads whose program counter lies
                    inside the corresponding critical section (so holders are unique);
    * `step_lockInv` : preserved by every step of every thread, for all programs and schedules;
    * `lock_order`   : a thread that is about to take `state` holds at most `intents`; a thread
                       about to take `intents` holds nothing (the order intents < state; `wal` is
                       only ever taken and released inside one step, while holding both);
    * `progress`     : in every reachable state in which some thread has work left, some thread
                       can take a step — no schedule deadlocks.
-/
namespace CasModel.Conc

def holdsIntents : Pc → Bool
  | .apState .. | .apWal .. | .apUnlink .. | .orState .. | .orUnlink .. => true
  | _ => false

def holdsState : Pc → Bool
  | .apWal .. | .ckWal .. => true
  | _ => false

structure LockInv (s : Sys) : Prop where
  intents : ∀ t th, s.threads[t]? = some th → (holdsIntents th.pc = true ↔ s.sh.lockIntents = some t)
  state : ∀ t th, s.threads[t]? = some th → (holdsState th.pc = true ↔ s.sh.lockState = some t)
  /-- a recorded holder is one of the threads -/
  intentsValid : ∀ t, s.sh.lockIntents = some t → t < s.threads.length
  stateValid : ∀ t, s.sh.lockState = some t → t < s.threads.length

/-- **lock order**: what a parked thread holds when it asks for a lock -/
theorem lock_order (pc : Pc) :
    (pc.wants = 1 → holdsIntents pc = false ∧ holdsState pc = false) ∧
    ((pc.wants = 2 ∨ pc.wants = 3) → holdsState pc = false) := by
  cases pc <;> simp [Pc.wants, holdsIntents, holdsState]

theorem applyStep_locks (tid : Tid) (sh : Shared) (op : Op Bytes) (own : Option (Bytes × Bytes))
    (res : Res) (hi : sh.lockIntents = some tid) (hs : sh.lockState = some tid) :
    let o := applyStep sh op own res
    (holdsIntents o.pc = true ↔ o.sh.lockIntents = some tid) ∧
    (holdsState o.pc = true ↔ o.sh.lockState = some tid) ∧
    (o.sh.lockIntents = some tid ∨ o.sh.lockIntents = none) ∧ o.sh.lockState = none := by
  unfold applyStep
  cases applyOp sh.kind.lt sh.idx op with
  | error e => simp [holdsIntents, holdsState]
  | ok p =>
    obtain ⟨idx', unref⟩ := p
    simp only
    by_cases hp : (List.filter (fun h => !isProtected (bookkeep sh idx' own).prot h) unref).isEmpty = true
    · simp [hp, holdsIntents, holdsState]
    · simp [hp, holdsIntents, holdsState, hi]

/-- effect of one `stepPc` on the locks, relative to the stepping thread -/
theorem stepPc_locks (H : Bytes → Bytes) (tid : Tid) (sh : Shared) (pc : Pc)
    (hen : enabled sh pc = true)
    (hi : holdsIntents pc = true ↔ sh.lockIntents = some tid)
    (hs : holdsState pc = true ↔ sh.lockState = some tid) :
    let o := stepPc H tid sh pc
    (holdsIntents o.pc = true ↔ o.sh.lockIntents = some tid) ∧
    (holdsState o.pc = true ↔ o.sh.lockState = some tid) ∧
    (o.sh.lockIntents = sh.lockIntents ∨ (sh.lockIntents = none ∧ o.sh.lockIntents = some tid) ∨
       (sh.lockIntents = some tid ∧ o.sh.lockIntents = none)) ∧
    (o.sh.lockState = sh.lockState ∨ (sh.lockState = none ∧ o.sh.lockState = some tid) ∨
       (sh.lockState = some tid ∧ o.sh.lockState = none)) := by
  cases pc with
  | idle => simp [stepPc, holdsIntents, holdsState] at *; exact ⟨hi, hs⟩
  | putReg k c => simp [stepPc, holdsIntents, holdsState] at *; exact ⟨hi, hs⟩
  | putRename k c => simp [stepPc, holdsIntents, holdsState] at *; exact ⟨hi, hs⟩
  | apIntents op own res =>
    simp [stepPc, holdsIntents, holdsState, enabled, Pc.wants] at *
    exact ⟨hs, Or.inr hen⟩
  | apState op own res =>
    simp [stepPc, holdsIntents, holdsState, enabled, Pc.wants] at *
    exact ⟨hi, Or.inr hen⟩
  | apWal op own res =>
    simp only [holdsIntents, holdsState, true_iff] at hi hs
    have := applyStep_locks tid sh op own res hi hs
    simp only [stepPc]
    obtain ⟨a, b, c, d⟩ := this
    refine ⟨a, b, ?_, ?_⟩
    · rcases c with c | c
      · left; rw [c, hi]
      · right; right; exact ⟨hi, c⟩
    · right; right; exact ⟨hs, d⟩
  | apUnlink pending t =>
    simp only [holdsIntents, holdsState, true_iff] at hi hs
    have hs' : ¬ sh.lockState = some tid := by simpa using hs
    match pending with
    | [] => simp [stepPc, holdsIntents, holdsState, hi, hs']
    | [h] => simp [stepPc, holdsIntents, holdsState, hi, hs']
    | h :: h' :: rest => simp [stepPc, holdsIntents, holdsState, hi, hs']
  | apUnlocked t =>
    simp only [stepPc]
    by_cases hr : t.rolled = true
    · simp [hr, holdsIntents, holdsState] at *; exact ⟨hi, hs⟩
    · simp [hr, holdsIntents, holdsState] at *; exact ⟨hi, hs⟩
  | ckState t =>
    simp [stepPc, holdsIntents, holdsState, enabled, Pc.wants] at *
    exact ⟨hi, Or.inr hen⟩
  | ckWal t =>
    simp [stepPc, holdsIntents, holdsState] at *
    exact ⟨hi, Or.inr hs⟩
  | rmScan k =>
    simp only [stepPc]
    split <;> (simp [holdsIntents, holdsState] at *; exact ⟨hi, hs⟩)
  | rrScan lo hi' =>
    simp only [stepPc]
    split <;> (simp [holdsIntents, holdsState] at *; exact ⟨hi, hs⟩)
  | rdLookup k =>
    simp only [stepPc]
    split
    · simp [holdsIntents, holdsState] at *; exact ⟨hi, hs⟩
    · split <;> (simp [holdsIntents, holdsState] at *; exact ⟨hi, hs⟩)
  | rdLookupR k s' e' =>
    simp only [stepPc]
    split
    · simp [holdsIntents, holdsState] at *; exact ⟨hi, hs⟩
    · split
      · simp [holdsIntents, holdsState] at *; exact ⟨hi, hs⟩
      · split <;> (simp [holdsIntents, holdsState] at *; exact ⟨hi, hs⟩)
  | rdOpened r => simp [stepPc, holdsIntents, holdsState] at *; exact ⟨hi, hs⟩
  | orIntents hs' del skip =>
    simp only [stepPc]
    split
    · simp [holdsIntents, holdsState] at *; exact ⟨hi, hs⟩
    · simp [holdsIntents, holdsState, enabled, Pc.wants] at *
      exact ⟨hs, Or.inr hen⟩
  | orState h rest del skip =>
    simp only [holdsIntents, true_iff] at hi
    simp only [stepPc]
    split
    · simp [holdsIntents, holdsState, hi] at *; exact hs
    · simp [holdsIntents, holdsState, hi] at *; exact hs
  | orUnlink h rest del skip =>
    simp only [holdsIntents, true_iff] at hi
    simp [stepPc, holdsIntents, holdsState, hi] at *; exact hs
  | orUnlocked rest del skip =>
    simp only [stepPc]
    split <;> (simp [holdsIntents, holdsState] at *; exact ⟨hi, hs⟩)

end CasModel.Conc

namespace CasModel.Conc

theorem startOp_holds (H : Bytes → Bytes) (sh : Shared) (op : COp) :
    holdsIntents (startOp H sh op).1 = false ∧ holdsState (startOp H sh op).1 = false := by
  cases op with
  | getRange k s' e' =>
    simp only [startOp]
    cases kLookup sh.idx.map k with
    | none => simp [holdsIntents, holdsState]
    | some item =>
      by_cases c : s' ≥ item.size <;> simp [c, holdsIntents, holdsState]
  | _ => simp [startOp, holdsIntents, holdsState]

theorem idle_holds : holdsIntents Pc.idle = false ∧ holdsState Pc.idle = false := by
  simp [holdsIntents, holdsState]

/-- a thread that holds a lock is never idle -/
theorem holds_not_idle (pc : Pc) (h : holdsIntents pc = true ∨ holdsState pc = true) : pc ≠ .idle := by
  intro c; subst c; simp [holdsIntents, holdsState] at h

/-- **every step of every thread preserves the lock invariant** -/
theorem step_lockInv (H : Bytes → Bytes) (s s' : Sys) (tid : Tid) (inv : LockInv s)
    (h : step H s tid = some s') : LockInv s' := by
  unfold step at h
  cases hth : s.threads[tid]? with
  | none => simp [hth] at h
  | some th =>
    simp only [hth] at h
    have hlt : tid < s.threads.length := by
      have := List.getElem?_eq_some_iff.mp hth; exact this.1
    -- generic: replacing thread `tid` by a thread with the same lock-holding status, locks unchanged
    have frame : ∀ (th' : Thread), holdsIntents th'.pc = holdsIntents th.pc →
        holdsState th'.pc = holdsState th.pc →
        LockInv { s with threads := s.threads.set tid th' } := by
      intro th' e1 e2
      refine ⟨?_, ?_, by simpa using inv.intentsValid, by simpa using inv.stateValid⟩
      · intro t x hx
        simp only [List.getElem?_set] at hx
        by_cases c : tid = t
        · subst c
          simp only [hlt, ↓reduceIte] at hx
          injection hx with hx; subst hx
          rw [e1]; exact inv.intents tid th hth
        · simp only [c, ↓reduceIte] at hx; exact inv.intents t x hx
      · intro t x hx
        simp only [List.getElem?_set] at hx
        by_cases c : tid = t
        · subst c
          simp only [hlt, ↓reduceIte] at hx
          injection hx with hx; subst hx
          rw [e2]; exact inv.state tid th hth
        · simp only [c, ↓reduceIte] at hx; exact inv.state t x hx
    cases hpc : th.pc with
    | idle =>
      simp only [hpc] at h
      cases hops : th.ops with
      | nil => simp [hops] at h
      | cons op rest =>
        simp only [hops] at h
        have hs := startOp_holds H s.sh op
        split at h
        · cases h
        injection h with h; subst h
        apply frame
        · simp only [hpc]; rw [hs.1]; exact idle_holds.1.symm
        · simp only [hpc]; rw [hs.2]; exact idle_holds.2.symm
    | _ =>
      all_goals
        simp only [hpc] at h
        split at h
        · cases h
        · rename_i hen
          injection h with h; subst h
          have hen' : enabled s.sh th.pc = true := by rw [hpc]; simpa using hen
          have hi := inv.intents tid th hth
          have hs := inv.state tid th hth
          obtain ⟨a, b, c, d⟩ := stepPc_locks H tid s.sh th.pc hen' hi hs
          rw [hpc] at a b c d
          refine ⟨?_, ?_, ?_, ?_⟩
          · intro t x hx
            simp only [List.getElem?_set] at hx
            by_cases cc : tid = t
            · subst cc
              simp only [hlt, ↓reduceIte] at hx
              injection hx with hx; subst hx
              exact a
            · simp only [cc, ↓reduceIte] at hx
              have := inv.intents t x hx
              rcases c with c | ⟨c1, c2⟩ | ⟨c1, c2⟩
              · rw [c]; exact this
              · -- tid just acquired it: nobody held it before
                rw [c2]
                constructor
                · intro hh; rw [this.mp hh] at c1; cases c1
                · intro hh; injection hh with hh; exact absurd hh cc
              · rw [c2]
                constructor
                · intro hh; rw [this.mp hh] at c1; injection c1 with c1; exact absurd c1.symm cc
                · intro hh; cases hh
          · intro t x hx
            simp only [List.getElem?_set] at hx
            by_cases cc : tid = t
            · subst cc
              simp only [hlt, ↓reduceIte] at hx
              injection hx with hx; subst hx
              exact b
            · simp only [cc, ↓reduceIte] at hx
              have := inv.state t x hx
              rcases d with d | ⟨d1, d2⟩ | ⟨d1, d2⟩
              · rw [d]; exact this
              · rw [d2]
                constructor
                · intro hh; rw [this.mp hh] at d1; cases d1
                · intro hh; injection hh with hh; exact absurd hh cc
              · rw [d2]
                constructor
                · intro hh; rw [this.mp hh] at d1; injection d1 with d1; exact absurd d1.symm cc
                · intro hh; cases hh
          · intro t ht
            simp only [List.length_set]
            rcases c with c | ⟨_, c2⟩ | ⟨_, c2⟩
            · rw [c] at ht; exact inv.intentsValid t ht
            · rw [c2] at ht; injection ht with ht; subst ht; exact hlt
            · rw [c2] at ht; cases ht
          · intro t ht
            simp only [List.length_set]
            rcases d with d | ⟨_, d2⟩ | ⟨_, d2⟩
            · rw [d] at ht; exact inv.stateValid t ht
            · rw [d2] at ht; injection ht with ht; subst ht; exact hlt
            · rw [d2] at ht; cases ht

/-- a thread has work left -/
def unfinished (th : Thread) : Prop := th.pc ≠ .idle ∨ th.ops ≠ []

/-- **no deadlock**: whenever some thread has work left, some thread can step -/
theorem progress (H : Bytes → Bytes) (s : Sys) (inv : LockInv s)
    (hw : ∃ (t : Nat) (th : Thread), s.threads[t]? = some th ∧ unfinished th) :
    ∃ t, (step H s t).isSome = true := by
  -- a thread parked at `pc` with `enabled` can step
  have can : ∀ (t : Nat) (th : Thread), s.threads[t]? = some th → th.pc ≠ .idle → enabled s.sh th.pc = true →
      (step H s t).isSome = true := by
    intro t th hth hne hen
    unfold step
    simp only [hth]
    cases hpc : th.pc with
    | idle => exact absurd hpc hne
    | _ => all_goals (rw [hpc] at hen; simp [hen])
  cases hS : s.sh.lockState with
  | some t =>
    -- the holder of `state` is inside its critical section and asks for nothing more
    have hlt := inv.stateValid t hS
    have hth : s.threads[t]? = some s.threads[t] := List.getElem?_eq_getElem hlt
    have hh := (inv.state t _ hth).mpr hS
    refine ⟨t, can t _ hth (holds_not_idle _ (Or.inr hh)) ?_⟩
    cases hpc : (s.threads[t]).pc <;> simp [hpc, holdsState] at hh <;> simp [enabled, Pc.wants]
  | none =>
    cases hI : s.sh.lockIntents with
    | some t =>
      have hlt := inv.intentsValid t hI
      have hth : s.threads[t]? = some s.threads[t] := List.getElem?_eq_getElem hlt
      have hh := (inv.intents t _ hth).mpr hI
      have hns : holdsState (s.threads[t]).pc = false := by
        cases hc : holdsState (s.threads[t]).pc with
        | false => rfl
        | true => have := (inv.state t _ hth).mp hc; rw [hS] at this; cases this
      refine ⟨t, can t _ hth (holds_not_idle _ (Or.inl hh)) ?_⟩
      cases hpc : (s.threads[t]).pc <;> simp [hpc, holdsIntents, holdsState] at hh hns <;>
        simp [enabled, Pc.wants, hS]
    | none =>
      obtain ⟨t, th, hth, hu⟩ := hw
      refine ⟨t, ?_⟩
      by_cases hidle : th.pc = .idle
      · have hops : th.ops ≠ [] := by
          rcases hu with hu | hu
          · exact absurd hidle hu
          · exact hu
        unfold step
        simp only [hth, hidle]
        cases hops' : th.ops with
        | nil => exact absurd hops' hops
        | cons op rest => simp [hS]
      · apply can t th hth hidle
        simp only [enabled]
        split <;> simp [hS, hI]

end CasModel.Conc
