import CasModel.Proofs.Bridge
import CasModel.Proofs.IndexInv
/-
  BridgeMap: byte-level recovery projected to the KEY MAP equals record-level recovery of the
  plain ordered-map machine, and never panics.

  `Bridge.lean` instantiates the record-level machine with the whole `IndexState`; that state
  carries representation detail (order of the refcount table, persisted-version field, file size)
  that differs between a state reached in memory and the state re-loaded from its snapshot, so the
  store-level simulation (Proofs/Simulation.lean) uses the machine over S := KMap with the pure
  map semantics of a record (`mapApply`). Here: when the loaded snapshot satisfies the index
  invariant and every record above it decodes to an operation consistent with the content-size
  function, `logical` succeeds (no panic site reachable during replay), its key map is the
  machine's, and the recovered state satisfies the invariant again.
-/
namespace CasModel
open Ghost

section
variable {K : Type} [DecidableEq K] (lt : K → K → Bool)

/-- the ordered-map semantics of one logged operation -/
def mapApply (m : KMap K) : Op K → KMap K
  | .put k h size => (kInsert lt m k ⟨h, size⟩).1
  | .remove ks => ks.foldl (fun m k => (kErase m k).1) m

theorem statsDrop_map (s s2 : IndexState K) (n : Nat) (h : statsDrop s n = .ok s2) :
    s2.map = s.map := by
  unfold statsDrop at h
  split at h
  · cases h
  · injection h with h; rw [← h]

theorem applyRemoveKey_map (s s' : IndexState K) (k : K) (un : List Bytes)
    (h : applyRemoveKey s k = .ok (s', un)) : s'.map = (kErase s.map k).1 := by
  unfold applyRemoveKey at h
  simp only at h
  have hp := kErase_prev s.map k
  cases hk : (kErase s.map k).2 with
  | none =>
    simp only [hk, Except.ok.injEq, Prod.mk.injEq] at h
    rw [← h.1]
    rw [hk] at hp
    exact (kErase_absent s.map k hp.symm).symm
  | some p =>
    simp only [hk] at h
    cases hd : decRef s.rc p.hash with
    | error e => simp [hd] at h
    | ok x =>
      obtain ⟨rc1, freed⟩ := x
      simp only [hd] at h
      cases freed with
      | none =>
        simp only [Except.ok.injEq, Prod.mk.injEq] at h
        rw [← h.1]
      | some hh =>
        simp only at h
        cases hsd : statsDrop { s with map := (kErase s.map k).1, rc := rc1 } p.size with
        | error e => simp [hsd] at h
        | ok s2 =>
          simp only [hsd, Except.ok.injEq, Prod.mk.injEq] at h
          rw [← h.1, statsDrop_map _ _ _ hsd]

theorem applyRemove_map (s s' : IndexState K) (ks : List K) (un : List Bytes)
    (h : applyRemove s ks = .ok (s', un)) :
    s'.map = ks.foldl (fun m k => (kErase m k).1) s.map := by
  induction ks generalizing s un with
  | nil =>
    simp only [applyRemove, Except.ok.injEq, Prod.mk.injEq] at h
    rw [← h.1]; rfl
  | cons k ks ih =>
    simp only [applyRemove] at h
    cases h1 : applyRemoveKey s k with
    | error e => simp [h1] at h
    | ok x =>
      obtain ⟨s1, u1⟩ := x
      simp only [h1] at h
      cases h2 : applyRemove s1 ks with
      | error e => simp [h2] at h
      | ok y =>
        obtain ⟨s2, u2⟩ := y
        simp only [h2, Except.ok.injEq, Prod.mk.injEq] at h
        obtain ⟨rfl, _⟩ := h
        rw [List.foldl_cons, ih s1 u2 h2, applyRemoveKey_map s s1 k u1 h1]

theorem applyPut_map (s s' : IndexState K) (k : K) (hh : Bytes) (size : Nat) (un : List Bytes)
    (h : applyPut lt s k hh size = .ok (s', un)) : s'.map = (kInsert lt s.map k ⟨hh, size⟩).1 := by
  unfold applyPut at h
  simp only at h
  cases hi : (kInsert lt s.map k ⟨hh, size⟩).2 with
  | none =>
    simp only [hi, Except.ok.injEq, Prod.mk.injEq] at h
    rw [← h.1, statsAdd_map]
  | some p =>
    simp only [hi] at h
    split at h
    · cases hd : decRef s.rc p.hash with
      | error e => simp [hd] at h
      | ok x =>
        obtain ⟨rc1, freed⟩ := x
        simp only [hd] at h
        cases freed with
        | none =>
          simp only [Except.ok.injEq, Prod.mk.injEq] at h
          rw [← h.1, statsAdd_map]
        | some f =>
          simp only at h
          cases hsd : statsDrop { s with map := (kInsert lt s.map k ⟨hh, size⟩).1, rc := rc1 } p.size with
          | error e => simp [hsd] at h
          | ok s2 =>
            simp only [hsd, Except.ok.injEq, Prod.mk.injEq] at h
            rw [← h.1, statsAdd_map]
            exact statsDrop_map _ _ _ hsd
    · split at h
      · simp at h
      · simp only [Except.ok.injEq, Prod.mk.injEq] at h
        rw [← h.1]

/-- whenever `apply_logical_op` succeeds, its key map is the plain ordered-map result -/
theorem applyOp_map (s s' : IndexState K) (op : Op K) (un : List Bytes)
    (h : applyOp lt s op = .ok (s', un)) : s'.map = mapApply lt s.map op := by
  cases op with
  | put k hh size => exact applyPut_map lt s s' k hh size un h
  | remove ks => exact applyRemove_map s s' ks un h

end

/-- one record on the key map: decode, convert the keys, apply -/
def stepM (kind : KeyKind) (m : KMap Bytes) (p : Bytes) : Except OpenErr (KMap Bytes) :=
  match deserWalOp p with
  | .error e => .error (.replayDecode e)
  | .ok raw =>
    match fromRaw kind raw with
    | none => .error .replayConvert
    | some op => .ok (mapApply kind.lt m op)

/-- the record payload decodes to an operation that is consistent with the content sizes -/
def RecOK (kind : KeyKind) (sz : Bytes → Nat) (p : Bytes) : Prop :=
  ∃ raw op, deserWalOp p = .ok raw ∧ fromRaw kind raw = some op ∧ OpOK sz op

/-- replay over whole states projected to the key map = replay over key maps, without panic -/
theorem replayFrom_map (kind : KeyKind) (so : StrictOrder kind.lt) (sz : Bytes → Nat) (ckpt : Nat)
    (l : Recs Bytes) (s : IndexState Bytes) (hi : Nat) (inv : IdxInv kind.lt sz s)
    (hok : ∀ e ∈ l, ckpt < e.1 → RecOK kind sz e.2) :
    ∃ s' hi', replayFrom (recStep kind) ckpt s hi l = .ok (s', hi') ∧
      replayFrom (stepM kind) ckpt s.map hi l = .ok (s'.map, hi') ∧ IdxInv kind.lt sz s' ∧
      s'.lastPersisted = s.lastPersisted := by
  induction l generalizing s hi with
  | nil => exact ⟨s, hi, rfl, rfl, inv, rfl⟩
  | cons e l ih =>
    obtain ⟨v, p⟩ := e
    simp only [replayFrom]
    by_cases hv : v ≤ ckpt
    · simp only [hv, ↓reduceIte]
      exact ih s (max hi v) inv (fun e he => hok e (by simp [he]))
    · simp only [hv, ↓reduceIte]
      obtain ⟨raw, op, h1, h2, h3⟩ := hok (v, p) (by simp) (by simp at hv; omega)
      obtain ⟨s1, un, ha, sok, _⟩ := applyOp_spec so sz s inv op h3
      have hm := applyOp_map kind.lt s s1 op un ha
      have hrec : recStep kind s p = .ok s1 := by simp [recStep, h1, h2, ha]
      have hstm : stepM kind s.map p = .ok s1.map := by simp [stepM, h1, h2, hm]
      simp only [hrec, hstm]
      obtain ⟨s', hi', a, b, c, d⟩ := ih s1 (max hi v) sok.inv (fun e he => hok e (by simp [he]))
      exact ⟨s', hi', a, b, c, by rw [d, sok.persisted]⟩

/-- the map-level abstraction of a disk -/
def absDiskM (H : Bytes → Bytes) (kind : KeyKind) (d : Disk) : Option (GDisk (KMap Bytes) Bytes) :=
  match absDisk H kind d with
  | some g => some ⟨g.snapVer, g.snapState.map, g.segs⟩
  | none => none

/-- **Bridge (key map).** On a disk that abstracts, whose snapshot state satisfies the index
    invariant and whose records above the snapshot version are consistent: byte-level recovery
    succeeds; its key map and next version are those of the ordered-map machine's recovery; the
    recovered state satisfies the index invariant (no panic site was reachable). -/
theorem logical_map_eq_recover (H : Bytes → Bytes) (kind : KeyKind) (so : StrictOrder kind.lt)
    (sz : Bytes → Nat) (d : Disk) (g : GDisk (IndexState Bytes) Bytes)
    (h : absDisk H kind d = some g) (inv : IdxInv kind.lt sz g.snapState)
    (hok : ∀ e ∈ flat g.segs, g.snapVer < e.1 → RecOK kind sz e.2) :
    ∃ a, logical H kind d = .ok a ∧ IdxInv kind.lt sz a.idx ∧
      recover (stepM kind) ⟨g.snapVer, g.snapState.map, g.segs⟩ = .ok (a.idx.map, a.highest + 1) ∧
      a.idx.lastPersisted = g.snapState.lastPersisted := by
  have hb := logical_eq_recover H kind d g h
  obtain ⟨s', hi', r1, r2, r3, r4⟩ := replayFrom_map kind so sz g.snapVer (flat g.segs) g.snapState
    g.snapVer inv hok
  simp only [recover, r1] at hb
  cases hl : logical H kind d with
  | error e => simp [hl, logicalView] at hb
  | ok a =>
    simp only [hl, logicalView, Except.ok.injEq, Prod.mk.injEq] at hb
    refine ⟨a, rfl, by rw [hb.1]; exact r3, ?_, by rw [hb.1]; exact r4⟩
    simp only [recover, r2, hb.1, hb.2]

end CasModel
