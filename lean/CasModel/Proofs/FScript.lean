import CasModel.Proofs.FSim
import CasModel.Proofs.ScriptSim
import CasModel.Fault
/-
  FScript: the scripts a handle runs AFTER a failed append — `logAndApplyBuf` (the commit with
  bytes possibly retained in the segment writer and blobs kept protected) and `checkpointScript` —
  are runs of the machine with failed appends (Proofs/WalFault), event by event.
  `FTied m fs h d`: memory `m` (index, next version, active segment, retained bytes) is tied to the
  machine state `fs` and the disk `d`; it is preserved by both scripts, so by induction by every
  sequence of fault-free operations that follows a fault.
-/
namespace CasModel
open Ghost

/-! ### buffered writes, exactly -/

theorem fset_fset (fs : List (FileId × File)) (f : FileId) (x y : File) :
    fset (fset fs f x) f y = fset fs f y := by
  induction fs with
  | nil => simp [fset]
  | cons e r ih =>
    obtain ⟨g, z⟩ := e
    by_cases c : g = f
    · simp [fset, c]
    · simp [fset, c, ih]

theorem Disk.apply_write_append (d : Disk) (f : FileId) (a b : Bytes) :
    d.apply (.write f (a ++ b)) = (d.apply (.write f a)).apply (.write f b) := by
  simp only [Disk.apply]
  cases h : d.get f with
  | none => simp [h]
  | some x =>
    simp only
    have hg : Disk.get { d with files := fset d.files f { x with data := x.data ++ a } } f =
        some { x with data := x.data ++ a } := by
      simp [Disk.get, fget_fset]
    rw [hg]
    simp only [fset_fset, List.append_assoc]

theorem Disk.apply_write_nil (d : Disk) (hw : d.WF) (f : FileId) :
    ∀ g, (d.apply (.write f [])).get g = d.get g := by
  intro g
  rw [Disk.get_write]
  by_cases c : g = f
  · subst c
    cases d.get g <;> simp
  · simp [c]

/-- `BufWriter::write_all(data)` + `flush()` with `buf` retained: whatever the split into write(2)
    calls, the file receives `buf ++ data` -/
theorem applyAll_bufWrites (d : Disk) (f : FileId) (buf data : Bytes) :
    d.applyAll ((bufWrites buf data).map (fun b => Ev.write f b)) = d.apply (.write f (buf ++ data)) := by
  unfold bufWrites
  by_cases h1 : buf.isEmpty = true
  · have : buf = [] := by simpa using h1
    subst this
    simp [Disk.applyAll]
  · simp only [h1, Bool.false_eq_true, ↓reduceIte]
    by_cases h2 : data.length ≤ 8192 - buf.length
    · simp [h2, Disk.applyAll]
    · simp only [h2, ↓reduceIte, List.map_cons, List.map_nil]
      rw [Disk.apply_write_append]
      rfl

variable (H : Bytes → Bytes) (kind : KeyKind) (sz : Bytes → Nat) (N : Nat)

/-- the bytes of the retained records -/
def pendBytes (pend : Recs Bytes) : Bytes := encodeAll H (pend.map (fun p => ⟨p.1, p.2⟩))

theorem pendBytes_cons (p : Nat × Bytes) (ps : Recs Bytes) :
    pendBytes H (p :: ps) = encodeEntry H ⟨p.1, p.2⟩ ++ pendBytes H ps := rfl

/-- the histories after flushing a list of retained records (each joins the durable history
    unless a snapshot already covers it) -/
def flushHist (snapVer : Nat) (h : Hist Bytes) : Recs Bytes → Hist Bytes
  | [] => h
  | p :: ps => flushHist snapVer (if snapVer < p.1 then { h with hd := h.hd ++ [p] } else h) ps

theorem flushHist_hm (snapVer : Nat) (h : Hist Bytes) (ps : Recs Bytes) :
    (flushHist snapVer h ps).hm = h.hm ∧ (flushHist snapVer h ps).failed = h.failed := by
  induction ps generalizing h with
  | nil => exact ⟨rfl, rfl⟩
  | cons p ps ih =>
    simp only [flushHist]
    split
    · exact ih _
    · exact ih _

/-- all retained records reach their segment file (they sit in the writer of segment `a`), followed
    by further bytes `x` of the same write -/
theorem FCfg.flushAll (hH : Hash32 H) (ps : Recs Bytes) (fs : FSys (KMap Bytes) Bytes)
    (h : Hist Bytes) (d : Disk) (c : FCfg H kind sz N fs h d) (hps : fs.pend = ps) (a : Nat)
    (hseg : ∀ p ∈ ps, Ghost.segOf N p.1 = a) (old : Recs Bytes)
    (hold : segGet fs.sys.g.segs a = some old) (hk : ps ≠ [] → SegFile H d a old 0) (x : Bytes) :
    ∃ fs' d1, fs'.sys.next = fs.sys.next ∧ fs'.sys.st = fs.sys.st ∧ fs'.pend = [] ∧
      fs'.sys.g.snapVer = fs.sys.g.snapVer ∧
      segGet fs'.sys.g.segs a = some (old ++ ps) ∧
      (∀ i, i ≠ a → segGet fs'.sys.g.segs i = segGet fs.sys.g.segs i) ∧
      FCfg H kind sz N fs' (flushHist fs.sys.g.snapVer h ps) d1 ∧
      d.apply (.write (.seg a) (pendBytes H ps ++ x)) = d1.apply (.write (.seg a) x) := by
  induction ps generalizing fs h d old with
  | nil =>
    refine ⟨fs, d, rfl, rfl, hps, rfl, by simpa using hold, fun _ _ => rfl, c, ?_⟩
    simp [pendBytes, encodeAll]
  | cons p ps ih =>
    have hpa : Ghost.segOf N p.1 = a := hseg p (by simp)
    subst hpa
    obtain ⟨fs1, n1, s1, p1, v1, g1, g1', k1, c1⟩ :=
      c.flush H kind sz N hH fs h d p ps hps old hold (hk (by simp))
    have hh : fhistAfter fs h FAct.flush =
        (if fs.sys.g.snapVer < p.1 then { h with hd := h.hd ++ [p] } else h) := by
      simp only [fhistAfter, hps]
    rw [hh] at c1
    obtain ⟨fs2, d2, n2, s2, p2, v2, g2, g2', c2, e2⟩ :=
      ih fs1 _ _ c1 p1 (fun q hq => hseg q (by simp [hq])) (old ++ [p]) g1 (fun _ => k1)
    refine ⟨fs2, d2, by rw [n2, n1], by rw [s2, s1], p2, by rw [v2, v1], ?_, ?_, ?_, ?_⟩
    · rw [g2]; simp
    · intro i hi; rw [g2' i hi, g1' i hi]
    · simp only [flushHist]; rw [v1] at c2; exact c2
    · rw [pendBytes_cons, List.append_assoc, Disk.apply_write_append]
      exact e2

/-! ### memory tied to the machine with failed appends -/

structure FTied (m : Mem) (fs : FSys (KMap Bytes) Bytes) (h : Hist Bytes) (d : Disk) : Prop where
  cfg : FCfg H kind sz N fs h d
  kindEq : m.cfg.kind = kind
  nEq : m.cfg.N = N
  next : fs.sys.next = m.next
  st : fs.sys.st = m.idx.map
  inv : IdxInv kind.lt sz m.idx
  active : ∀ a, m.active = some a →
    a = Ghost.segOf N (m.next - 1) ∧ 1 < m.next ∧ ∃ old, segGet fs.sys.g.segs a = some old
  buf : m.walBuf = pendBytes H fs.pend
  pendSeg : fs.pend ≠ [] → ∃ a old, m.active = some a ∧ (∀ p ∈ fs.pend, Ghost.segOf N p.1 = a) ∧
    segGet fs.sys.g.segs a = some old ∧ SegFile H d a old 0

/-- a fault-free state is a state of the machine with failed appends -/
theorem FTied.of_tied (m : Mem) (sys : Sys (KMap Bytes) Bytes) (hist : Recs Bytes) (d : Disk)
    (t : Tied H kind sz N m sys hist d) (hb : m.walBuf = []) (failed : Recs Bytes) :
    FTied H kind sz N m ⟨sys, []⟩ ⟨hist, hist, failed⟩ d := by
  have g := t.cfg.good
  obtain ⟨m1, m2, m3, m4⟩ := g.mem t.cfg.up
  refine ⟨⟨?_, t.cfg.rel, t.cfg.histOK, by simp, t.cfg.up, ?_⟩, t.kindEq, t.nEq, t.next, t.st, t.inv,
    ?_, by simp [hb, pendBytes, encodeAll], by simp⟩
  · exact {
      ginv := g.ginv, sorted := g.sorted, placed := g.placed, sub := List.Sublist.refl _
      fromFailed := fun e he => Or.inl he
      runs := g.runs, pendFailed := by simp, pendOK := by simp, down := by simp
      pendIncr := List.Pairwise.nil, pendAbove := by simp
      mem := fun _ => ⟨m1, m2, m3, m4, by simp⟩ }
  · intro i recs hg
    rcases t.cfg.unsealed i recs hg with x | ⟨e, he, hlt⟩
    · exact Or.inl x
    · right
      have := m2 e he
      have := segOf_mono N (show e.1 + 1 ≤ sys.next by omega)
      show i < Ghost.segOf N sys.next
      omega
  · intro a ha
    obtain ⟨a1, a2, _, a4⟩ := t.active a ha
    exact ⟨a1, a2, a4⟩


/-! ### checkpoint after a fault -/

theorem segData_unlinks (d : Disk) (hw : d.WF) (js : List Nat) (i : Nat) (hi : ∀ j ∈ js, i ≠ j) :
    segData (d.applyAll (js.map (fun j => Ev.unlink (.seg j)))) i = segData d i := by
  induction js generalizing d with
  | nil => rfl
  | cons j js ih =>
    simp only [List.map_cons, Disk.applyAll_cons]
    rw [ih _ (Disk.apply_WF d hw _) (fun j' hj' => hi j' (by simp [hj'])), segData_unlink d hw]
    simp [hi j (by simp)]

theorem prune_fblock (fs : FSys (KMap Bytes) Bytes) (h : Hist Bytes) (d : Disk)
    (c : FCfg H kind sz N fs h d) (js : List Nat)
    (hjs : ∀ j ∈ js, j < Ghost.segOf N fs.sys.g.snapVer) :
    ∃ fs', fs'.sys.next = fs.sys.next ∧ fs'.sys.st = fs.sys.st ∧ fs'.pend = fs.pend ∧
      fs'.sys.g.snapVer = fs.sys.g.snapVer ∧
      (∀ i, (∀ j ∈ js, i ≠ j) → segGet fs'.sys.g.segs i = segGet fs.sys.g.segs i) ∧
      FCfg H kind sz N fs' h (d.applyAll (js.map (fun j => Ev.unlink (.seg j)))) := by
  induction js generalizing fs d with
  | nil => exact ⟨fs, rfl, rfl, rfl, rfl, fun _ _ => rfl, c⟩
  | cons j js ih =>
    obtain ⟨fs1, h1, h2, h2', h3, g1, c1⟩ := c.prune H kind sz N fs h d j (hjs j (by simp))
    obtain ⟨fs', g1', g2, g2', g3, g4, c'⟩ := ih fs1 _ c1 (fun j' hj' => by
      rw [h3]; exact hjs j' (by simp [hj']))
    refine ⟨fs', by rw [g1', h1], by rw [g2, h2], by rw [g2', h2'], by rw [g3, h3], ?_, c'⟩
    intro i hi
    rw [g4 i (fun j' hj' => hi j' (by simp [hj'])), g1 i (hi j (by simp))]

/-- **checkpoint, with a failed append in the past.** The snapshot is taken from memory: the
    durable history becomes the memory history (failed records at or below the snapshot version
    are skipped by recovery from now on); retained bytes stay in the writer. -/
theorem checkpoint_fsim (so : StrictOrder kind.lt) (reason : CkptReason) (m : Mem)
    (fs : FSys (KMap Bytes) Bytes) (h : Hist Bytes) (d dAny : Disk)
    (t : FTied H kind sz N m fs h d) (hsave : SaveOK kind m.idx) (hver : m.next < U64) :
    ∃ fs' h', FTied H kind sz N (checkpointScript reason m dAny).2 fs' h'
        (d.applyAll (checkpointScript reason m dAny).1) ∧
      h'.hm = h.hm ∧ h'.failed = h.failed ∧
      (checkpointScript reason m dAny).2.idx.map = m.idx.map ∧
      (checkpointScript reason m dAny).2.next = m.next ∧
      (checkpointScript reason m dAny).2.protectedFailed = m.protectedFailed ∧
      ((ckptTarget reason m.next m.idx.lastPersisted = none ∧ fs' = fs) ∨
        fs'.sys.g.snapVer = m.next - 1) ∧ fs'.pend = fs.pend := by
  unfold checkpointScript
  cases hct : ckptTarget reason m.next m.idx.lastPersisted with
  | none => exact ⟨fs, h, t, rfl, rfl, rfl, rfl, rfl, Or.inl ⟨rfl, rfl⟩, rfl⟩
  | some tv =>
    simp only
    have htv : tv = m.next - 1 ∧ 1 < m.next := by
      have key : ∀ b : Bool, (if (b && decide (m.next > 1)) = true then some (m.next - 1) else none)
          = some tv → tv = m.next - 1 ∧ 1 < m.next := by
        intro b hb
        by_cases hc : (b && decide (m.next > 1)) = true
        · simp only [hc, ↓reduceIte, Option.some.injEq] at hb
          simp only [Bool.and_eq_true, decide_eq_true_eq] at hc
          exact ⟨hb.symm, hc.2⟩
        · simp [hc] at hb
      exact key _ hct
    obtain ⟨htv1, htv2⟩ := htv
    let bytes := serIndex (entriesOf m.idx.map) tv
    let save := [Ev.creat .indexTmp true, .write .indexTmp bytes, .sync .indexTmp]
    have hsfree : ∀ e ∈ save, e.segFree = true ∧ e.indexFree = true := by
      intro e he
      simp only [save, List.mem_cons, List.not_mem_nil, or_false] at he
      rcases he with he | he | he <;> subst he <;> simp [Ev.segFree, Ev.indexFree]
    have c3 := t.cfg.freeAll H kind sz N fs h d save hsfree
    have hd3 : d.applyAll save = ((d.apply (.creat .indexTmp true)).apply (.write .indexTmp bytes)).apply
        (.sync .indexTmp) := rfl
    have htmp : ∃ synced, (d.applyAll save).get .indexTmp = some ⟨bytes, synced⟩ := by
      refine ⟨bytes.length, ?_⟩
      rw [hd3, Disk.get_sync, Disk.get_write, Disk.get_creat]
      simp only [↓reduceIte]
      cases d.get .indexTmp <;> simp
    obtain ⟨synced, htmp⟩ := htmp
    have hsv : Saveable kind m.idx (fs.sys.next - 1) := by
      rw [t.next]; exact hsave _ (by omega)
    have htmp' : (d.applyAll save).get .indexTmp =
        some ⟨serIndex (entriesOf m.idx.map) (fs.sys.next - 1), synced⟩ := by
      rw [htmp, t.next, ← htv1]
    obtain ⟨fs4, n4, s4, p4, v4, g4, c4⟩ := c3.install H kind sz N so fs h _ m.idx t.inv t.st.symm
      (by rw [t.next]; exact htv2) hsv synced htmp'
    let prune : List Ev :=
      if m.idx.lastPersisted ≠ 0 ∧ tv ≤ m.idx.lastPersisted then []
      else ((segIds dAny).filter (· < segOf m.cfg.N tv)).map (fun j => Ev.unlink (.seg j))
    have hprune : ∃ js : List Nat, prune = js.map (fun j => Ev.unlink (.seg j)) ∧
        ∀ j ∈ js, j < Ghost.segOf N fs4.sys.g.snapVer := by
      by_cases hc : m.idx.lastPersisted ≠ 0 ∧ tv ≤ m.idx.lastPersisted
      · exact ⟨[], by simp [prune, hc], by simp⟩
      · refine ⟨(segIds dAny).filter (· < segOf m.cfg.N tv), by simp [prune, hc], ?_⟩
        intro j hj
        simp only [List.mem_filter, decide_eq_true_eq] at hj
        rw [v4, t.next, ← htv1, ← t.nEq]
        exact hj.2
    obtain ⟨js, hjs1, hjs2⟩ := hprune
    obtain ⟨fs5, n5, s5, p5, v5, g5, c5⟩ := prune_fblock H kind sz N fs4 _ _ c4 js hjs2
    have hsplit : [Ev.creat .indexTmp true, .write .indexTmp bytes, .sync .indexTmp,
        .rename .indexTmp .index] ++ prune =
        save ++ ([Ev.rename .indexTmp .index] ++ js.map (fun j => Ev.unlink (.seg j))) := by
      rw [hjs1]; rfl
    show ∃ fs' h', FTied H kind sz N _ fs' h' (d.applyAll ([Ev.creat .indexTmp true,
        .write .indexTmp bytes, .sync .indexTmp, .rename .indexTmp .index] ++ prune)) ∧ _
    rw [hsplit]
    -- pruned ids are below the active segment
    have hbelow : ∀ a, m.active = some a → ∀ j ∈ js, a ≠ j := by
      intro a ha j hj
      obtain ⟨a1, _, _⟩ := t.active a ha
      have := hjs2 j hj
      rw [v4, t.next] at this
      omega
    -- segment bytes are untouched except for the pruned files
    have hdata : ∀ i, (∀ j ∈ js, i ≠ j) →
        segData (d.applyAll (save ++ ([Ev.rename .indexTmp .index] ++
          js.map (fun j => Ev.unlink (.seg j))))) i = segData d i := by
      intro i hi
      rw [Disk.applyAll_append, Disk.applyAll_append]
      rw [segData_unlinks _ (Disk.applyAll_WF _ (Disk.applyAll_WF d t.cfg.rel.wf _) _) js i hi]
      simp only [Disk.applyAll_cons, Disk.applyAll_nil]
      rw [segData_segFree _ (Disk.applyAll_WF d t.cfg.rel.wf _) _ (by simp [Ev.segFree])]
      simp only [hd3]
      rw [segData_segFree _ (Disk.apply_WF _ (Disk.apply_WF d t.cfg.rel.wf _) _) _ (by simp [Ev.segFree]),
        segData_segFree _ (Disk.apply_WF d t.cfg.rel.wf _) _ (by simp [Ev.segFree]),
        segData_segFree d t.cfg.rel.wf _ (by simp [Ev.segFree])]
    refine ⟨fs5, { h with hd := h.hm }, ?_, rfl, rfl, trivial, trivial, trivial,
      Or.inr (by rw [v5, v4, t.next]), by rw [p5, p4]⟩
    rw [Disk.applyAll_append, Disk.applyAll_append]
    simp only [Disk.applyAll_cons, Disk.applyAll_nil] at c5 ⊢
    refine ⟨c5, t.kindEq, t.nEq, by rw [n5, n4, t.next], by rw [s5, s4, t.st],
      idxInv_meta kind sz m.idx t.inv _ _, ?_, by rw [p5, p4]; exact t.buf, ?_⟩
    · intro a ha
      obtain ⟨h1, h1', old, h2⟩ := t.active a ha
      refine ⟨h1, h1', old, ?_⟩
      rw [g5 a (hbelow a ha), g4]
      exact h2
    · intro hne
      rw [p5, p4] at hne ⊢
      obtain ⟨a, old, a1, a2, a3, a4⟩ := t.pendSeg hne
      refine ⟨a, old, a1, a2, by rw [g5 a (hbelow a a1), g4]; exact a3, ?_⟩
      apply a4.of_data H d _ a old 0
      have := hdata a (hbelow a a1)
      rw [Disk.applyAll_append, Disk.applyAll_append] at this
      simp only [Disk.applyAll_cons, Disk.applyAll_nil] at this
      exact this


/-! ### a commit after a fault -/

/-- the WAL events of `logAndApplyBuf`: seal/flush the old writer and create the target segment if
    the version moves on, then the record (behind whatever the writer retained) and its sync -/
def walEventsBuf (m : Mem) (p : Bytes) : List Ev :=
  let target := Ghost.segOf N m.next
  (if m.active = some target then []
   else (match m.active with
         | some old => (bufWrites m.walBuf sentinel).map (fun b => Ev.write (.seg old) b) ++ [Ev.sync (.seg old)]
         | none => []) ++ [Ev.creat (.seg target) false]) ++
  ((bufWrites (if m.active = some target then m.walBuf else []) (encodeEntry H ⟨m.next, p⟩)).map
      (fun b => Ev.write (.seg target) b) ++ [Ev.sync (.seg target)])

theorem walPart_fsim (hH : Hash32 H) (m : Mem) (fs : FSys (KMap Bytes) Bytes) (h : Hist Bytes)
    (d : Disk) (t : FTied H kind sz N m fs h d) (p : Bytes) (hp : RecOK kind sz p)
    (hwf : (⟨m.next, p⟩ : Rec).WF) :
    ∃ fs2 h2, FCfg H kind sz N fs2 h2 (d.applyAll (walEventsBuf H N m p)) ∧
      fs2.sys.next = m.next + 1 ∧ stepM kind m.idx.map p = .ok fs2.sys.st ∧ fs2.pend = [] ∧
      h2.hm = h.hm ++ [(m.next, p)] ∧ h2.failed = h.failed ∧
      ∃ old, segGet fs2.sys.g.segs (Ghost.segOf N m.next) = some (old ++ [(m.next, p)]) := by
  unfold walEventsBuf
  simp only
  have hfree : ∀ i, (Ev.sync (.seg i)).segFree = true ∧ (Ev.sync (.seg i)).indexFree = true := by
    intro i; simp [Ev.segFree, Ev.indexFree]
  -- the final step, shared by all cases: the record goes to the (existing) target segment
  have fin : ∀ (fs1 : FSys (KMap Bytes) Bytes) (h1 : Hist Bytes) (d1 : Disk),
      FCfg H kind sz N fs1 h1 d1 → fs1.sys.next = m.next → fs1.sys.st = m.idx.map → fs1.pend = [] →
      h1.hm = h.hm → h1.failed = h.failed →
      (∃ old, segGet fs1.sys.g.segs (Ghost.segOf N m.next) = some old) →
      ∃ fs2 h2, FCfg H kind sz N fs2 h2
          ((d1.apply (.write (.seg (Ghost.segOf N m.next)) (encodeEntry H ⟨m.next, p⟩))).apply
            (.sync (.seg (Ghost.segOf N m.next)))) ∧
        fs2.sys.next = m.next + 1 ∧ stepM kind m.idx.map p = .ok fs2.sys.st ∧ fs2.pend = [] ∧
        h2.hm = h.hm ++ [(m.next, p)] ∧ h2.failed = h.failed ∧
        ∃ old, segGet fs2.sys.g.segs (Ghost.segOf N m.next) = some (old ++ [(m.next, p)]) := by
    intro fs1 h1 d1 c1 n1 s1 p1 e1 e2 ⟨old, ho⟩
    rw [← n1] at ho
    obtain ⟨fs2, n2, st2, p2, _, g2, _, c2⟩ := c1.append H kind sz N hH fs1 h1 d1 p1 p hp
      (by rw [n1]; exact hwf) old ho
    rw [n1] at c2 g2 n2
    have c3 := c2.free H kind sz N fs2 _ _ (.sync (.seg (Ghost.segOf N m.next)))
      (hfree _).1 (hfree _).2
    refine ⟨fs2, _, c3, n2, by rw [← s1]; exact st2, p2, by simp [e1, n1], by simp [e2], _, g2⟩
  by_cases hsame : m.active = some (Ghost.segOf N m.next)
  · -- same segment: retained bytes and the record in one buffered write
    simp only [hsame, ↓reduceIte, List.nil_append]
    rw [Disk.applyAll_append, applyAll_bufWrites, t.buf]
    obtain ⟨_, _, old, ho⟩ := t.active _ hsame
    have hk : SegFile H d (Ghost.segOf N m.next) old 0 := by
      rcases t.cfg.unsealed _ old ho with x | x
      · exact x
      · rw [t.next] at x; omega
    have hseg : ∀ q ∈ fs.pend, Ghost.segOf N q.1 = Ghost.segOf N m.next := by
      intro q hq
      obtain ⟨a, _, a1, a2, _⟩ := t.pendSeg (List.ne_nil_of_mem hq)
      rw [hsame] at a1; injection a1 with a1
      rw [a1]; exact a2 q hq
    obtain ⟨fs1, d1, n1, s1, p1, v1, g1, _, c1, e1⟩ :=
      t.cfg.flushAll H kind sz N hH fs.pend fs h d rfl _ hseg old ho (fun _ => hk)
        (encodeEntry H ⟨m.next, p⟩)
    rw [e1]
    simp only [Disk.applyAll_cons, Disk.applyAll_nil]
    exact fin fs1 _ d1 c1 (by rw [n1, t.next]) (by rw [s1, t.st]) p1
      (flushHist_hm _ _ _).1 (flushHist_hm _ _ _).2 ⟨_, g1⟩
  · simp only [hsame, ↓reduceIte]
    cases ha : m.active with
    | none =>
      -- no writer: nothing can be retained
      have hpe : fs.pend = [] := by
        cases hq : fs.pend with
        | nil => rfl
        | cons q qs =>
          obtain ⟨a, _, a1, _⟩ := t.pendSeg (by simp [hq])
          rw [ha] at a1; cases a1
      simp only [List.nil_append]
      have hb : bufWrites [] (encodeEntry H ⟨m.next, p⟩) = [encodeEntry H ⟨m.next, p⟩] := by
        simp [bufWrites]
      rw [hb]
      simp only [List.map_cons, List.map_nil, List.singleton_append, Disk.applyAll_cons,
        Disk.applyAll_nil]
      obtain ⟨fs1, n1, s1, p1, _, c1, ho, _⟩ := t.cfg.ensure H kind sz N fs h d false (Or.inl rfl)
      rw [t.next] at c1 ho
      exact fin fs1 h _ c1 (by rw [n1, t.next]) (by rw [s1, t.st]) (by rw [p1, hpe]) rfl rfl ho
    | some o =>
      obtain ⟨o1, o2, oldo, hoo⟩ := t.active o ha
      have hne : o ≠ Ghost.segOf N m.next := by
        intro c; rw [ha, c] at hsame; exact hsame rfl
      have hlt : o < Ghost.segOf N m.next := by
        have : o ≤ Ghost.segOf N m.next := by rw [o1]; exact segOf_mono N (by omega)
        omega
      have hb : bufWrites [] (encodeEntry H ⟨m.next, p⟩) = [encodeEntry H ⟨m.next, p⟩] := by
        simp [bufWrites]
      rw [hb]
      simp only [List.map_cons, List.map_nil]
      simp only [Disk.applyAll_append]
      rw [applyAll_bufWrites, t.buf]
      have hseg : ∀ q ∈ fs.pend, Ghost.segOf N q.1 = o := by
        intro q hq
        obtain ⟨a, _, a1, a2, _⟩ := t.pendSeg (List.ne_nil_of_mem hq)
        rw [ha] at a1; injection a1 with a1
        rw [a1]; exact a2 q hq
      have hk : fs.pend ≠ [] → SegFile H d o oldo 0 := by
        intro hq
        obtain ⟨a, old', a1, _, a3, a4⟩ := t.pendSeg hq
        rw [ha] at a1; injection a1 with a1
        subst a1
        rw [hoo] at a3; injection a3 with a3
        subst a3; exact a4
      obtain ⟨fs1, d1, n1, s1, p1, v1, g1, g1', c1, e1⟩ :=
        t.cfg.flushAll H kind sz N hH fs.pend fs h d rfl o hseg oldo hoo hk sentinel
      rw [e1]
      have c2 := c1.seal H kind sz N fs1 _ d1 o (by rw [n1, t.next]; exact hlt)
      have c3 := c2.free H kind sz N fs1 _ _ (.sync (.seg o)) (hfree _).1 (hfree _).2
      obtain ⟨fs4, n4, s4, p4, _, c4, ho4, _⟩ := c3.ensure H kind sz N fs1 _ _ false (Or.inl rfl)
      rw [n1, t.next] at c4 ho4
      simp only [Disk.applyAll_cons, Disk.applyAll_nil]
      exact fin fs4 _ _ c4 (by rw [n4, n1, t.next]) (by rw [s4, s1, t.st]) (by rw [p4, p1])
        (flushHist_hm _ _ _).1 (flushHist_hm _ _ _).2 ho4


theorem logAndApplyBuf_eq (m : Mem) (d : Disk) (op : Op Bytes) (raw : RawOp) (idx' : IndexState Bytes)
    (unref : List Bytes) (ha : applyOp m.cfg.kind.lt m.idx op = .ok (idx', unref)) (hn : m.cfg.N = N) :
    ∃ dels ck, (∀ e ∈ dels, ∃ hh, e = Ev.unlink (.cas hh)) ∧
      (ck = (if (if m.next > 1 then segOf m.cfg.N (m.next - 1) else 0) ≠ segOf m.cfg.N m.next
             then checkpointScript .rollover
               { m with idx := idx', next := m.next + 1, active := some (segOf m.cfg.N m.next), walBuf := [] }
               ((d.applyAll (walEventsBuf H N m (serWalOp raw))).applyAll dels)
             else ([], { m with idx := idx', next := m.next + 1,
                                active := some (segOf m.cfg.N m.next), walBuf := [] }))) ∧
      logAndApplyBuf H m d op raw = .ok (walEventsBuf H N m (serWalOp raw) ++ dels ++ ck.1, ck.2) := by
  unfold logAndApplyBuf
  simp only [ha]
  have hw : walEventsBuf H N m (serWalOp raw) =
      (if m.active = some (segOf m.cfg.N m.next) then []
       else (match m.active with
             | some old => (bufWrites m.walBuf sentinel).map (fun b => Ev.write (.seg old) b) ++ [Ev.sync (.seg old)]
             | none => []) ++ [Ev.creat (.seg (segOf m.cfg.N m.next)) false]) ++
      ((bufWrites (if m.active = some (segOf m.cfg.N m.next) then m.walBuf else [])
          (encodeEntry H ⟨m.next, serWalOp raw⟩)).map
          (fun b => Ev.write (.seg (segOf m.cfg.N m.next)) b) ++ [Ev.sync (.seg (segOf m.cfg.N m.next))]) := by
    unfold walEventsBuf
    rw [hn]; rfl
  rw [hw]
  refine ⟨_, _, ?_, rfl, rfl⟩
  intro e he
  simp only [List.mem_map, List.mem_filter] at he
  obtain ⟨hh, _, rfl⟩ := he
  exact ⟨hh, rfl⟩

/-- **one logged operation after a fault.** From memory and disk tied to the machine with failed
    appends — bytes of a failed record possibly still in the writer, a version gap, blobs kept
    protected — the commit script runs without panic; afterwards memory holds the old key map with
    exactly this operation applied, nothing is retained any more, memory and disk are tied again;
    the memory history grew by this record, the set of failed records is unchanged. -/
theorem logAndApplyBuf_fsim (so : StrictOrder kind.lt) (hH : Hash32 H) (m : Mem)
    (fs : FSys (KMap Bytes) Bytes) (h : Hist Bytes) (d : Disk)
    (t : FTied H kind sz N m fs h d) (op : Op Bytes) (raw : RawOp)
    (hraw : raw.WF) (hconv : fromRaw kind raw = some op) (hop : OpOK sz op)
    (hwf : (⟨m.next, serWalOp raw⟩ : Rec).WF)
    (hsave : ∀ idx' un, applyOp kind.lt m.idx op = .ok (idx', un) → SaveOK kind idx')
    (hver : m.next + 1 < U64) :
    ∃ evs m' fs' h', logAndApplyBuf H m d op raw = .ok (evs, m') ∧
      FTied H kind sz N m' fs' h' (d.applyAll evs) ∧
      h'.hm = h.hm ++ [(m.next, serWalOp raw)] ∧ h'.failed = h.failed ∧
      m'.idx.map = mapApply kind.lt m.idx.map op ∧ m'.next = m.next + 1 ∧ m'.walBuf = [] ∧
      m'.protectedFailed = m.protectedFailed ∧ fs'.pend = [] ∧
      -- the last assigned version is on disk: as this record, or as the snapshot version
      ((∃ rs, segGet fs'.sys.g.segs (Ghost.segOf N m.next) = some rs ∧ (m.next, serWalOp raw) ∈ rs) ∨
        fs'.sys.g.snapVer = m.next) := by
  obtain ⟨idx', unref, ha, sok, _⟩ := applyOp_spec so sz m.idx t.inv op hop
  have ha' : applyOp m.cfg.kind.lt m.idx op = .ok (idx', unref) := by rw [t.kindEq]; exact ha
  obtain ⟨dels, ck, hdels, hck, hrun⟩ := logAndApplyBuf_eq H N m d op raw idx' unref ha' t.nEq
  have hseg : segOf m.cfg.N m.next = Ghost.segOf N m.next := by rw [t.nEq]; rfl
  rw [hseg] at hck
  let p := serWalOp raw
  have hdec : deserWalOp p = .ok raw := by
    have := C16_walop_roundtrip raw hraw []; rwa [List.append_nil] at this
  have hp : RecOK kind sz p := ⟨raw, op, hdec, hconv, hop⟩
  obtain ⟨fs2, h2, c2, n2, st2, p2, e1, e2, old2, g2⟩ := walPart_fsim H kind sz N hH m fs h d t p hp hwf
  -- blob deletions
  have hdfree : ∀ e ∈ dels, e.segFree = true ∧ e.indexFree = true := by
    intro e he
    obtain ⟨hh, rfl⟩ := hdels e he
    simp [Ev.segFree, Ev.indexFree]
  have c4 := c2.freeAll H kind sz N fs2 _ _ dels hdfree
  have hmap : idx'.map = mapApply kind.lt m.idx.map op := applyOp_map kind.lt m.idx idx' op unref ha
  have hst2 : fs2.sys.st = idx'.map := by
    have : stepM kind m.idx.map p = .ok (mapApply kind.lt m.idx.map op) := by
      simp [stepM, hdec, hconv]
    rw [this] at st2
    injection st2 with st2
    rw [← st2, hmap]
  let m1 : Mem := { m with idx := idx', next := m.next + 1, active := some (Ghost.segOf N m.next),
                           walBuf := [] }
  have t1 : FTied H kind sz N m1 fs2 h2 ((d.applyAll (walEventsBuf H N m p)).applyAll dels) := by
    refine ⟨c4, t.kindEq, t.nEq, n2, hst2, sok.inv, ?_, by simp [m1, p2, pendBytes, encodeAll],
      by simp [p2]⟩
    intro a haa
    simp only [m1, Option.some.injEq] at haa
    subst haa
    exact ⟨by simp [m1], by simp only [m1]; have := hwf.1; simp only at this; omega, _, g2⟩
  by_cases hroll : (if m.next > 1 then segOf m.cfg.N (m.next - 1) else 0) ≠ Ghost.segOf N m.next
  · rw [if_pos hroll] at hck
    have hsv : SaveOK kind m1.idx := hsave idx' unref ha
    obtain ⟨fs', h', t', f1, f2, f3, f4, f5, f6, f7⟩ := checkpoint_fsim H kind sz N so .rollover m1 fs2 h2 _
      ((d.applyAll (walEventsBuf H N m (serWalOp raw))).applyAll dels) t1 hsv (by simp only [m1]; omega)
    refine ⟨_, _, fs', h', hrun, ?_, by rw [f1, e1], by rw [f2, e2], ?_, ?_, ?_, ?_, ?_, ?_⟩
    · rw [hck, Disk.applyAll_append, Disk.applyAll_append]; exact t'
    · rw [hck]; rw [f3]; exact hmap
    · rw [hck]; rw [f4]
    · rw [hck]; unfold checkpointScript; split <;> rfl
    · rw [hck]; rw [f5]
    · rw [f7]; exact p2
    · rcases f6 with ⟨_, hfs⟩ | hsv'
      · left; rw [hfs]; exact ⟨_, g2, by simp [p]⟩
      · right; rw [hsv']; simp [m1]
  · rw [if_neg hroll] at hck
    refine ⟨_, _, fs2, h2, hrun, ?_, e1, e2, ?_, ?_, ?_, ?_, p2, Or.inl ⟨_, g2, by simp [p]⟩⟩
    · rw [hck]; simp only [List.append_nil]; rw [Disk.applyAll_append]; exact t1
    · rw [hck]; exact hmap
    · rw [hck]
    · rw [hck]
    · rw [hck]

end CasModel
