import CasModel.Proofs.WalMachine
/-
  WalFault: the record-level machine of Proofs/WalMachine extended with FAILED appends, the error
  paths of `WalManager::append_op` / `SegmentWriter` (src/wal/manager.rs, src/wal/storage.rs) that
  property C14 quantifies over:

    failLost r : the append of `r` fails; its version is consumed (`next_op_version` was advanced
                 before the write), nothing of it is kept                      (memory NOT changed)
    failKeep r : the append fails but the record's bytes stay in the segment writer's `BufWriter`
                 (a failed flush retains them; a failed fsync after a successful write is
                 `failKeep` followed at once by `flush`)                        (memory NOT changed)
    flush      : the oldest retained record reaches its segment file — this happens with the next
                 write of that writer: the next append, the seal at a roll-over, or the drop of the
                 handle — always before any newer record
    ok a       : a fault-free action of the base machine (`append` only with an empty buffer:
                 the real writer emits the retained bytes in front of the new record)

  A failed append leaves the memory index untouched while its record may become durable: memory
  and disk DIVERGE, exactly the uncertainty the property allows.  Three histories describe it:
    hd     : the effective durable history — what recovery reproduces,
    hm     : the history applied in memory (a sub-list of `hd`),
    failed : every record whose append failed so far.
  `fact_good`: every action keeps `FGood`; consequences (`fault_reachable`): from every reachable
  state recovery SUCCEEDS and returns `run init hd`; memory is `run init hm`; `hm` is a sub-list of
  `hd` and every other record of `hd` is a failed one; versions are never reused.  A snapshot is
  taken from memory, so `install` resets `hd` to `hm` (the failed records are then skipped).
  `divergence_bounded` turns this into the per-key statement for any last-writer-wins state.
-/
namespace CasModel.Ghost

variable {S R E : Type}

structure FSys (S R : Type) where
  sys : Sys S R
  pend : Recs R          -- records retained in the active segment writer's buffer, oldest first

inductive FAct (R : Type) where
  | ok (a : Act R)
  | failLost (r : R)
  | failKeep (r : R)
  | flush

def fact (step : S → R → Except E S) (N : Nat) (fs : FSys S R) : FAct R → Option (FSys S R)
  | .ok (.append r) =>
    if fs.pend = [] then
      match act step N fs.sys (.append r) with
      | some s' => some ⟨s', []⟩
      | none => none
    else none
  | .ok .crash => some ⟨{ fs.sys with up := false }, []⟩
  | .ok .close => some ⟨{ fs.sys with up := false }, []⟩
  | .ok a =>
    match act step N fs.sys a with
    | some s' => some ⟨s', fs.pend⟩
    | none => none
  | .failLost _ =>
    if fs.sys.up then some ⟨{ fs.sys with next := fs.sys.next + 1 }, fs.pend⟩ else none
  | .failKeep r =>
    if fs.sys.up then
      match step fs.sys.st r with     -- the record is one the store would have applied
      | .ok _ => some ⟨{ fs.sys with next := fs.sys.next + 1 }, fs.pend ++ [(fs.sys.next, r)]⟩
      | .error _ => none
    else none
  | .flush =>
    if fs.sys.up then
      match fs.pend with
      | [] => none
      | p :: rest =>
        some ⟨{ fs.sys with g := { fs.sys.g with
                  segs := segInsert fs.sys.g.segs (segOf N p.1) (some p) } }, rest⟩
    else none

/-- the three histories -/
structure Hist (R : Type) where
  hd : Recs R
  hm : Recs R
  failed : Recs R

def fhistAfter (fs : FSys S R) (h : Hist R) : FAct R → Hist R
  | .ok (.append r) => { h with hd := h.hd ++ [(fs.sys.next, r)], hm := h.hm ++ [(fs.sys.next, r)] }
  | .ok .install => { h with hd := h.hm }
  | .ok .open_ => { h with hm := h.hd }
  | .ok _ => h
  | .failLost r => { h with failed := h.failed ++ [(fs.sys.next, r)] }
  | .failKeep r => { h with failed := h.failed ++ [(fs.sys.next, r)] }
  | .flush =>
    match fs.pend with
    | [] => h
    | p :: _ => if fs.sys.g.snapVer < p.1 then { h with hd := h.hd ++ [p] } else h

structure FGood (step : S → R → Except E S) (init : S) (N : Nat) (h : Hist R) (fs : FSys S R) : Prop where
  ginv : GInv step init N h.hd fs.sys.g
  sorted : SegSorted fs.sys.g.segs
  placed : Placed N fs.sys.g.segs
  sub : h.hm.Sublist h.hd
  fromFailed : ∀ e ∈ h.hd, e ∈ h.hm ∨ e ∈ h.failed
  runs : ∃ st, run step init h.hd = .ok st
  pendFailed : ∀ p ∈ fs.pend, p ∈ h.failed
  pendOK : ∀ p ∈ fs.pend, ∃ s s', step s p.2 = .ok s'
  down : fs.sys.up = false → fs.pend = []
  pendIncr : Incr fs.pend
  pendAbove : ∀ p ∈ fs.pend, (∀ e ∈ h.hd, e.1 < p.1) ∧ (∀ e ∈ flat fs.sys.g.segs, e.1 < p.1)
  mem : fs.sys.up = true → run step init h.hm = .ok fs.sys.st ∧ (∀ e ∈ h.hd, e.1 < fs.sys.next) ∧
        fs.sys.g.snapVer < fs.sys.next ∧ (∀ e ∈ flat fs.sys.g.segs, e.1 < fs.sys.next) ∧
        (∀ p ∈ fs.pend, p.1 < fs.sys.next)

/-- whether a record can be applied does not depend on the state it is applied to (for the store:
    it depends only on whether the payload decodes) -/
def StepInd (step : S → R → Except E S) : Prop :=
  ∀ s s' r t, step s r = .ok t → ∃ t', step s' r = .ok t'

theorem stepInd_of_total (step : S → R → Except E S) (htot : ∀ s r, ∃ s', step s r = .ok s') :
    StepInd step := fun _ s' r _ _ => htot s' r

theorem run_snoc_ok (step : S → R → Except E S) (hind : StepInd step) (init : S) (l : Recs R)
    (h : ∃ st, run step init l = .ok st) (p : Nat × R) (hp : ∃ s s', step s p.2 = .ok s') :
    ∃ st, run step init (l ++ [p]) = .ok st := by
  obtain ⟨st, hst⟩ := h
  obtain ⟨s, s', hs⟩ := hp
  obtain ⟨t', ht'⟩ := hind s st p.2 s' hs
  refine ⟨t', ?_⟩
  rw [run_append, hst]
  obtain ⟨v, r⟩ := p
  simp only [run] at ht' ⊢
  simp only [ht']

theorem above_nil_of_le (c : Nat) (l : Recs R) (h : ∀ e ∈ l, e.1 ≤ c) : above c l = [] := by
  simp only [above, List.filter_eq_nil_iff, decide_eq_true_eq]
  intro e he; have := h e he; omega

/-- install a snapshot of memory whose version covers everything on disk: the effective durable
    history becomes the memory history -/
theorem GInv.installReset (step : S → R → Except E S) (init : S) (N : Nat) (hd hm : Recs R)
    (g : GDisk S R) (inv : GInv step init N hd g) (hsub : hm.Sublist hd) (t : Nat) (st : S)
    (hrun : run step init hm = .ok st) (hcov : ∀ e ∈ hd, e.1 ≤ t)
    (hflat : ∀ e ∈ flat g.segs, e.1 ≤ t) :
    GInv step init N hm { g with snapVer := t, snapState := st } := by
  refine ⟨List.Pairwise.sublist hsub inv.incr, ?_, ?_⟩
  · show run step init (upto t hm) = .ok st
    rw [upto_all t hm (fun e he => hcov e (hsub.subset he))]; exact hrun
  · show above t (flat g.segs) = above t hm
    rw [above_nil_of_le t _ hflat, above_nil_of_le t hm (fun e he => hcov e (hsub.subset he))]

/-- a record covered by the snapshot reaches the file: recovery skips it -/
theorem GInv.appendCovered (step : S → R → Except E S) (init : S) (N : Nat) (hist : Recs R)
    (g : GDisk S R) (inv : GInv step init N hist g) (p : Nat × R) (hp : p.1 ≤ g.snapVer)
    (segs' : List (Nat × Recs R)) (hflat : flat segs' = flat g.segs ++ [p]) :
    GInv step init N hist { g with segs := segs' } := by
  refine ⟨inv.incr, inv.snap, ?_⟩
  show above g.snapVer (flat segs') = above g.snapVer hist
  rw [hflat, ← inv.recs]
  simp only [above, List.filter_append, List.filter_cons]
  have : ¬ g.snapVer < p.1 := by omega
  simp [this]

/-- **one action, faults included, keeps the system good** -/
theorem fact_good (step : S → R → Except E S) (hind : StepInd step)
    (init : S) (N : Nat) (h : Hist R) (fs fs' : FSys S R)
    (good : FGood step init N h fs) (a : FAct R) (ha : fact step N fs a = some fs') :
    FGood step init N (fhistAfter fs h a) fs' := by
  cases a with
  | failLost r =>
    simp only [fact] at ha
    by_cases hu : fs.sys.up = true
    · simp only [hu, ↓reduceIte] at ha
      injection ha with ha; subst ha
      obtain ⟨m1, m2, m3, m4, m5⟩ := good.mem hu
      exact {
        ginv := good.ginv, sorted := good.sorted, placed := good.placed, sub := good.sub
        fromFailed := by
          intro e he
          rcases good.fromFailed e he with x | x
          · left; exact x
          · right; simp [fhistAfter, x]
        runs := good.runs
        pendFailed := by intro p hp; simp [fhistAfter, good.pendFailed p hp]
        pendOK := good.pendOK
        down := by intro hd; simp at hd
        pendIncr := good.pendIncr
        pendAbove := good.pendAbove
        mem := by
          intro _
          refine ⟨m1, ?_, ?_, ?_, ?_⟩
          · intro e he; have := m2 e he; show e.1 < fs.sys.next + 1; omega
          · show fs.sys.g.snapVer < fs.sys.next + 1; omega
          · intro e he; have := m4 e he; show e.1 < fs.sys.next + 1; omega
          · intro p hp; have := m5 p hp; show p.1 < fs.sys.next + 1; omega }
    · simp [hu] at ha
  | failKeep r =>
    simp only [fact] at ha
    by_cases hu : fs.sys.up = true
    · simp only [hu, ↓reduceIte] at ha
      cases hs : step fs.sys.st r with
      | error e => simp [hs] at ha
      | ok st' =>
        simp only [hs] at ha
        injection ha with ha; subst ha
        obtain ⟨m1, m2, m3, m4, m5⟩ := good.mem hu
        exact {
          ginv := good.ginv, sorted := good.sorted, placed := good.placed, sub := good.sub
          fromFailed := by
            intro e he
            rcases good.fromFailed e he with x | x
            · left; exact x
            · right; simp [fhistAfter, x]
          runs := good.runs
          pendFailed := by
            intro p hp
            rcases List.mem_append.mp hp with hp | hp
            · simp [fhistAfter, good.pendFailed p hp]
            · simp at hp; subst hp; simp [fhistAfter]
          pendOK := by
            intro p hp
            rcases List.mem_append.mp hp with hp | hp
            · exact good.pendOK p hp
            · simp at hp; subst hp; exact ⟨_, _, hs⟩
          down := by intro hd; simp at hd
          pendIncr := List.pairwise_append.mpr ⟨good.pendIncr, by simp, by
            intro a ha b hb; simp at hb; subst hb; exact m5 a ha⟩
          pendAbove := by
            intro p hp
            rcases List.mem_append.mp hp with hp | hp
            · exact good.pendAbove p hp
            · simp at hp; subst hp; exact ⟨m2, m4⟩
          mem := by
            intro _
            refine ⟨m1, ?_, ?_, ?_, ?_⟩
            · intro e he; have := m2 e he; show e.1 < fs.sys.next + 1; omega
            · show fs.sys.g.snapVer < fs.sys.next + 1; omega
            · intro e he; have := m4 e he; show e.1 < fs.sys.next + 1; omega
            · intro p hp
              show p.1 < fs.sys.next + 1
              rcases List.mem_append.mp hp with hp | hp
              · have := m5 p hp; omega
              · simp at hp; subst hp; show fs.sys.next < fs.sys.next + 1; omega }
    · simp [hu] at ha
  | flush =>
    simp only [fact] at ha
    by_cases hu : fs.sys.up = true
    · simp only [hu, ↓reduceIte] at ha
      cases hp : fs.pend with
      | nil => simp [hp] at ha
      | cons p rest =>
        simp only [hp] at ha
        injection ha with ha; subst ha
        obtain ⟨m1, m2, m3, m4, m5⟩ := good.mem hu
        have hpm : p ∈ fs.pend := by simp [hp]
        obtain ⟨pa1, pa2⟩ := good.pendAbove p hpm
        have hincr : Incr (p :: rest) := by rw [← hp]; exact good.pendIncr
        have hrest : ∀ q ∈ rest, p.1 < q.1 := (List.pairwise_cons.mp hincr).1
        have hempty : ∀ s ∈ fs.sys.g.segs, segOf N p.1 < s.1 → s.2 = [] := by
          intro s hs hlt
          cases hrs : s.2 with
          | nil => rfl
          | cons e l =>
            exfalso
            have he : e ∈ s.2 := by simp [hrs]
            have h1 := good.placed s hs e he
            have h2 := pa2 e ((mem_flat _ _).mpr ⟨s, hs, he⟩)
            have := segOf_mono N (Nat.le_of_lt h2)
            omega
        have hflat := flat_segInsert_some fs.sys.g.segs good.sorted (segOf N p.1) p hempty
        have hplaced : Placed N (segInsert fs.sys.g.segs (segOf N p.1) (some p)) := by
          intro s hs e he
          rcases segInsert_mem _ _ _ s hs with ⟨a, b⟩ | hs
          · rcases b e he with ⟨s0, h0, h1, h2⟩ | b
            · have := good.placed s0 h0 e h2; omega
            · injection b with b; subst b; exact a.symm
          · exact good.placed s hs e he
        have hflatmem : ∀ e ∈ flat (segInsert fs.sys.g.segs (segOf N p.1) (some p)),
            e ∈ flat fs.sys.g.segs ∨ e = p := by
          intro e he; rw [hflat] at he
          rcases List.mem_append.mp he with he | he
          · left; exact he
          · right; simpa using he
        by_cases hc : fs.sys.g.snapVer < p.1
        · -- the failed record becomes part of the durable history
          have hh : fhistAfter fs h FAct.flush = { h with hd := h.hd ++ [p] } := by
            simp [fhistAfter, hp, hc]
          rw [hh]
          exact {
            ginv := GInv.append step init N h.hd fs.sys.g good.ginv p.1 p.2 pa1 hc _ hflat
            sorted := segInsert_sorted _ good.sorted _ _
            placed := hplaced
            sub := good.sub.trans (List.sublist_append_left _ _)
            fromFailed := by
              intro e he
              rcases List.mem_append.mp he with he | he
              · exact good.fromFailed e he
              · simp at he; subst he; right; exact good.pendFailed _ hpm
            runs := run_snoc_ok step hind init h.hd good.runs p (good.pendOK p hpm)
            pendFailed := by intro q hq; exact good.pendFailed q (by simp [hp, hq])
            pendOK := by intro q hq; exact good.pendOK q (by simp [hp, hq])
            down := by intro hd; simp at hd
            pendIncr := (List.pairwise_cons.mp hincr).2
            pendAbove := by
              intro q hq
              have hq' : q ∈ fs.pend := by simp [hp, hq]
              obtain ⟨qa1, qa2⟩ := good.pendAbove q hq'
              constructor
              · intro e he
                rcases List.mem_append.mp he with he | he
                · exact qa1 e he
                · simp at he; subst he; exact hrest q hq
              · intro e he
                rcases hflatmem e he with he | he
                · exact qa2 e he
                · subst he; exact hrest q hq
            mem := by
              intro _
              refine ⟨m1, ?_, m3, ?_, ?_⟩
              · intro e he
                rcases List.mem_append.mp he with he | he
                · exact m2 e he
                · simp at he; subst he; exact m5 _ hpm
              · intro e he
                rcases hflatmem e he with he | he
                · exact m4 e he
                · subst he; exact m5 _ hpm
              · intro q hq; exact m5 q (by simp [hp, hq]) }
        · -- already covered by a snapshot taken from memory: recovery skips it
          have hh : fhistAfter fs h FAct.flush = h := by simp [fhistAfter, hp, hc]
          rw [hh]
          exact {
            ginv := GInv.appendCovered step init N h.hd fs.sys.g good.ginv p (by omega) _ hflat
            sorted := segInsert_sorted _ good.sorted _ _
            placed := hplaced
            sub := good.sub
            fromFailed := good.fromFailed
            runs := good.runs
            pendFailed := by intro q hq; exact good.pendFailed q (by simp [hp, hq])
            pendOK := by intro q hq; exact good.pendOK q (by simp [hp, hq])
            down := by intro hd; simp at hd
            pendIncr := (List.pairwise_cons.mp hincr).2
            pendAbove := by
              intro q hq
              have hq' : q ∈ fs.pend := by simp [hp, hq]
              obtain ⟨qa1, qa2⟩ := good.pendAbove q hq'
              refine ⟨qa1, ?_⟩
              intro e he
              rcases hflatmem e he with he | he
              · exact qa2 e he
              · subst he; exact hrest q hq
            mem := by
              intro _
              refine ⟨m1, m2, m3, ?_, ?_⟩
              · intro e he
                rcases hflatmem e he with he | he
                · exact m4 e he
                · subst he; exact m5 _ hpm
              · intro q hq; exact m5 q (by simp [hp, hq]) }
    · simp [hu] at ha
  | ok a =>
    cases a with
    | crash =>
      simp only [fact] at ha
      injection ha with ha; subst ha
      exact {
        ginv := good.ginv, sorted := good.sorted, placed := good.placed, sub := good.sub
        fromFailed := good.fromFailed, runs := good.runs
        pendFailed := by simp, pendOK := by simp, down := by simp
        pendIncr := List.Pairwise.nil, pendAbove := by simp, mem := by simp }
    | close =>
      simp only [fact] at ha
      injection ha with ha; subst ha
      exact {
        ginv := good.ginv, sorted := good.sorted, placed := good.placed, sub := good.sub
        fromFailed := good.fromFailed, runs := good.runs
        pendFailed := by simp, pendOK := by simp, down := by simp
        pendIncr := List.Pairwise.nil, pendAbove := by simp, mem := by simp }
    | open_ =>
      simp only [fact, act] at ha
      by_cases hu : fs.sys.up = true
      · simp [hu] at ha
      · simp only [hu, Bool.false_eq_true, ↓reduceIte] at ha
        obtain ⟨st, hst⟩ := good.runs
        obtain ⟨next, hr, h1, h2, h3⟩ := recover_eq step init N h.hd fs.sys.g good.ginv st hst
        simp only [hr] at ha
        injection ha with ha; subst ha
        have hpe : fs.pend = [] := good.down (by simpa using hu)
        exact {
          ginv := good.ginv, sorted := good.sorted, placed := good.placed
          sub := List.Sublist.refl _
          fromFailed := by intro e he; left; exact he
          runs := good.runs
          pendFailed := by intro p hp; rw [hpe] at hp; cases hp
          pendOK := by intro p hp; rw [hpe] at hp; cases hp
          down := by intro _; exact hpe
          pendIncr := by rw [hpe]; exact List.Pairwise.nil
          pendAbove := by intro p hp; rw [hpe] at hp; cases hp
          mem := by
            intro _
            refine ⟨hst, h1, h3, h2, ?_⟩
            intro p hp; rw [hpe] at hp; cases hp }
    | ensure =>
      simp only [fact, act] at ha
      by_cases hu : fs.sys.up = true
      · simp only [hu, ↓reduceIte] at ha
        injection ha with ha; subst ha
        have hflat := flat_segInsert_none fs.sys.g.segs (segOf N fs.sys.next)
        exact {
          ginv := GInv.addEmpty step init N h.hd fs.sys.g good.ginv _ hflat
          sorted := segInsert_sorted _ good.sorted _ _
          placed := by
            intro s hs e he
            rcases segInsert_mem _ _ _ s hs with ⟨_, b⟩ | hs
            · rcases b e he with ⟨s0, h0, h1, h2⟩ | b
              · have := good.placed s0 h0 e h2; omega
              · cases b
            · exact good.placed s hs e he
          sub := good.sub, fromFailed := good.fromFailed, runs := good.runs
          pendFailed := good.pendFailed, pendOK := good.pendOK
          down := by intro hd; simp at hd
          pendIncr := good.pendIncr
          pendAbove := by
            intro p hp
            obtain ⟨a, b⟩ := good.pendAbove p hp
            refine ⟨a, ?_⟩
            simp only [hflat]; exact b
          mem := by
            intro _
            obtain ⟨a, b, c, d, e⟩ := good.mem hu
            refine ⟨a, b, c, ?_, e⟩
            simp only [hflat]; exact d }
      · simp [hu] at ha
    | append r =>
      simp only [fact] at ha
      by_cases hpe : fs.pend = []
      · simp only [hpe, ↓reduceIte, act] at ha
        by_cases hu : fs.sys.up = true
        · simp only [hu, ↓reduceIte] at ha
          obtain ⟨hrun, hv, hsn, hfl, _⟩ := good.mem hu
          cases hs : step fs.sys.st r with
          | error e => simp [hs] at ha
          | ok st' =>
            simp only [hs] at ha
            injection ha with ha; subst ha
            have hempty : ∀ s ∈ fs.sys.g.segs, segOf N fs.sys.next < s.1 → s.2 = [] := by
              intro s hs hlt
              cases hrs : s.2 with
              | nil => rfl
              | cons e l =>
                exfalso
                have he : e ∈ s.2 := by simp [hrs]
                have h1 := good.placed s hs e he
                have h2 := hfl e ((mem_flat _ _).mpr ⟨s, hs, he⟩)
                have := segOf_mono N (Nat.le_of_lt h2)
                omega
            have hflat := flat_segInsert_some fs.sys.g.segs good.sorted (segOf N fs.sys.next)
              (fs.sys.next, r) hempty
            have hrun' : run step init (h.hm ++ [(fs.sys.next, r)]) = .ok st' := by
              rw [run_append, hrun]; simp [run, hs]
            exact {
              ginv := GInv.append step init N h.hd fs.sys.g good.ginv fs.sys.next r hv hsn _ hflat
              sorted := segInsert_sorted _ good.sorted _ _
              placed := by
                intro s hs e he
                rcases segInsert_mem _ _ _ s hs with ⟨a, b⟩ | hs
                · rcases b e he with ⟨s0, h0, h1, h2⟩ | b
                  · have := good.placed s0 h0 e h2; omega
                  · injection b with b; subst b; exact a.symm
                · exact good.placed s hs e he
              sub := List.Sublist.append good.sub (List.Sublist.refl _)
              fromFailed := by
                intro e he
                simp only [fhistAfter] at he ⊢
                rcases List.mem_append.mp he with he | he
                · rcases good.fromFailed e he with x | x
                  · left; exact List.mem_append_left _ x
                  · right; exact x
                · left; exact List.mem_append_right _ he
              runs := run_snoc_ok step hind init h.hd good.runs (fs.sys.next, r) ⟨_, _, hs⟩
              pendFailed := by simp, pendOK := by simp, down := by simp
              pendIncr := List.Pairwise.nil, pendAbove := by simp
              mem := by
                intro _
                refine ⟨hrun', ?_, by show fs.sys.g.snapVer < fs.sys.next + 1; omega, ?_, by simp⟩
                · intro e he
                  show e.1 < fs.sys.next + 1
                  simp only [fhistAfter] at he
                  rcases List.mem_append.mp he with he | he
                  · have := hv e he; omega
                  · simp at he; subst he; show fs.sys.next < fs.sys.next + 1; omega
                · intro e he
                  show e.1 < fs.sys.next + 1
                  simp only [hflat] at he
                  rcases List.mem_append.mp he with he | he
                  · have := hfl e he; omega
                  · simp at he; subst he; show fs.sys.next < fs.sys.next + 1; omega }
        · simp [hu] at ha
      · simp [hpe] at ha
    | install =>
      simp only [fact, act] at ha
      by_cases hc : fs.sys.up = true ∧ 1 < fs.sys.next
      · simp only [hc, and_self, ↓reduceIte] at ha
        injection ha with ha; subst ha
        obtain ⟨hrun, hv, hsn, hfl, hpn⟩ := good.mem hc.1
        exact {
          ginv := GInv.installReset step init N h.hd h.hm fs.sys.g good.ginv good.sub
            (fs.sys.next - 1) fs.sys.st hrun (fun e he => by have := hv e he; omega)
            (fun e he => by have := hfl e he; omega)
          sorted := good.sorted, placed := good.placed
          sub := List.Sublist.refl _
          fromFailed := by intro e he; left; exact he
          runs := ⟨_, hrun⟩
          pendFailed := good.pendFailed, pendOK := good.pendOK
          down := by intro hd; simp at hd
          pendIncr := good.pendIncr
          pendAbove := by
            intro p hp
            obtain ⟨a, b⟩ := good.pendAbove p hp
            exact ⟨fun e he => a e (good.sub.subset he), b⟩
          mem := by
            intro _
            exact ⟨hrun, fun e he => hv e (good.sub.subset he),
              by show fs.sys.next - 1 < fs.sys.next; omega, hfl, hpn⟩ }
      · simp [hc] at ha
    | prune j =>
      simp only [fact, act] at ha
      by_cases hc : j < segOf N fs.sys.g.snapVer
      · simp only [hc, ↓reduceIte] at ha
        injection ha with ha; subst ha
        have hsub := removeSeg_sublist fs.sys.g.segs j
        have hflatsub : ∀ e ∈ flat (removeSeg fs.sys.g.segs j), e ∈ flat fs.sys.g.segs := by
          intro e he
          rw [mem_flat] at he ⊢
          obtain ⟨s, hs, hes⟩ := he
          exact ⟨s, hsub.subset hs, hes⟩
        have gi : GInv step init N h.hd { fs.sys.g with segs := removeSeg fs.sys.g.segs j } := by
          rcases removeSeg_split fs.sys.g.segs j with heq | ⟨pre, rs, post, h1, h2⟩
          · simp only [heq]; exact good.ginv
          · have hcov : ∀ e ∈ rs, e.1 ≤ fs.sys.g.snapVer := by
              intro e he
              have hp := good.placed (j, rs) (by rw [h1]; simp) e he
              apply Nat.le_of_not_lt
              intro hlt
              have := segOf_mono N (Nat.le_of_lt hlt)
              simp only at hp
              omega
            simp only [h2]
            exact GInv.prune step init N h.hd fs.sys.g good.ginv pre post j rs h1 hcov
        exact {
          ginv := gi
          sorted := List.Pairwise.sublist hsub good.sorted
          placed := fun s hs => good.placed s (hsub.subset hs)
          sub := good.sub, fromFailed := good.fromFailed, runs := good.runs
          pendFailed := good.pendFailed, pendOK := good.pendOK, down := good.down
          pendIncr := good.pendIncr
          pendAbove := by
            intro p hp
            obtain ⟨a, b⟩ := good.pendAbove p hp
            exact ⟨a, fun e he => b e (hflatsub e he)⟩
          mem := by
            intro hup
            obtain ⟨a, b, c, d, e⟩ := good.mem hup
            exact ⟨a, b, c, fun x hx => d x (hflatsub x hx), e⟩ }
      · simp [hc] at ha

/-- run a sequence of actions with faults, tracking the three histories -/
def runFActs (step : S → R → Except E S) (N : Nat) :
    FSys S R → Hist R → List (FAct R) → Option (FSys S R × Hist R)
  | fs, h, [] => some (fs, h)
  | fs, h, a :: as =>
    match fact step N fs a with
    | none => none
    | some fs' => runFActs step N fs' (fhistAfter fs h a) as

def emptyFSys (init : S) : FSys S R := ⟨emptySys init, []⟩

theorem fgood_empty (step : S → R → Except E S) (init : S) (N : Nat) :
    FGood step init N ⟨[], [], []⟩ (emptyFSys init : FSys S R) :=
  { ginv := GInv.empty step init N
    sorted := List.Pairwise.nil
    placed := by intro s hs; cases hs
    sub := List.Sublist.refl _
    fromFailed := by intro e he; cases he
    runs := ⟨init, rfl⟩
    pendFailed := by intro e he; cases he
    pendOK := by intro e he; cases he
    down := by intro _; rfl
    pendIncr := List.Pairwise.nil
    pendAbove := by intro e he; cases he
    mem := by simp [emptyFSys, emptySys] }

theorem freachable_good (step : S → R → Except E S) (hind : StepInd step)
    (init : S) (N : Nat) (acts : List (FAct R)) (fs : FSys S R) (h : Hist R)
    (good : FGood step init N h fs) (fs' : FSys S R) (h' : Hist R)
    (hr : runFActs step N fs h acts = some (fs', h')) : FGood step init N h' fs' := by
  induction acts generalizing fs h with
  | nil => simp only [runFActs] at hr; injection hr with hr; injection hr with h1 h2; subst h1 h2; exact good
  | cons a as ih =>
    simp only [runFActs] at hr
    cases ha : fact step N fs a with
    | none => simp [ha] at hr
    | some fs1 =>
      simp only [ha] at hr
      exact ih fs1 _ (fact_good step hind init N h fs fs1 good a ha) hr

/-- **Failed appends are contained (record level).**  After ANY sequence of actions, failed
    appends, buffer flushes, crashes and reopens, starting from the empty store:
    recovery succeeds and returns the state after the durable history `hd`, with a next version
    above every version ever on disk; a live handle holds exactly the state after the memory
    history `hm`; `hm` is a sub-list of `hd`, and every record of `hd` outside `hm` is one whose
    append failed. -/
theorem fault_reachable (step : S → R → Except E S) (hind : StepInd step)
    (init : S) (N : Nat) (acts : List (FAct R)) (fs : FSys S R) (h : Hist R)
    (hr : runFActs step N (emptyFSys init) ⟨[], [], []⟩ acts = some (fs, h)) :
    (∃ st next, run step init h.hd = .ok st ∧ recover step fs.sys.g = .ok (st, next) ∧
        (∀ e ∈ h.hd, e.1 < next) ∧ (∀ e ∈ flat fs.sys.g.segs, e.1 < next)) ∧
    (fs.sys.up = true → run step init h.hm = .ok fs.sys.st) ∧
    h.hm.Sublist h.hd ∧ (∀ e ∈ h.hd, e ∈ h.hm ∨ e ∈ h.failed) := by
  have good := freachable_good step hind init N acts _ _ (fgood_empty step init N) fs h hr
  obtain ⟨st, hst⟩ := good.runs
  obtain ⟨next, hrec, h1, h2, _⟩ := recover_eq step init N h.hd fs.sys.g good.ginv st hst
  exact ⟨⟨st, next, hst, hrec, h1, h2⟩, fun hu => (good.mem hu).1, good.sub, good.fromFailed⟩

/-! ### what the divergence can be, key by key -/

/-- For a last-writer-wins state (`look` after a step is the record's effect on that key if it has
    one, else unchanged): if `hm` is a sub-list of `hd`, then at every key the state after `hd`
    agrees with the state after `hm`, or holds the value written by a record of `hd` that is not
    accounted for by `hm` (versions in `hd` strictly increase, so records are distinct). -/
theorem divergence_bounded {K V : Type} (step : S → R → Except E S) (inv : S → Prop)
    (look : S → K → V) (eff : R → K → Option V)
    (hinv : ∀ s r s', inv s → step s r = .ok s' → inv s')
    (heff : ∀ s r s', inv s → step s r = .ok s' → ∀ k, look s' k = (eff r k).getD (look s k))
    (hm hd : Recs R) (hsub : hm.Sublist hd) (hincr : Incr hd) (extra : Recs R)
    (hextra : ∀ e ∈ hd, e ∈ hm ∨ e ∈ extra)
    (sd sm sd' sm' : S) (id : inv sd) (im : inv sm)
    (rd : run step sd hd = .ok sd') (rm : run step sm hm = .ok sm') (k : K)
    (h0 : look sd k = look sm k ∨ ∃ e ∈ extra, eff e.2 k = some (look sd k)) :
    look sd' k = look sm' k ∨ ∃ e ∈ extra, eff e.2 k = some (look sd' k) := by
  induction hsub generalizing sd sm with
  | slnil =>
    simp only [run] at rd rm
    injection rd with rd; injection rm with rm; subst rd rm; exact h0
  | @cons l1 l2 a hs ih =>
    -- a record only the disk has
    obtain ⟨v, r⟩ := a
    simp only [run] at rd
    cases h1 : step sd r with
    | error e => simp [h1] at rd
    | ok s1 =>
      simp only [h1] at rd
      have hx : ∀ e ∈ l2, e ∈ l1 ∨ e ∈ extra := fun e he => hextra e (by simp [he])
      apply ih (List.pairwise_cons.mp hincr).2 hx s1 sm (hinv _ _ _ id h1) im rd rm
      have hl := heff _ _ _ id h1 k
      cases he : eff r k with
      | none =>
        rw [he] at hl; simp only [Option.getD_none] at hl
        rw [hl]; exact h0
      | some x =>
        rw [he] at hl; simp only [Option.getD_some] at hl
        -- is this record one of `hm`'s?  Either way the disjunction holds
        rcases hextra (v, r) (by simp) with hin | hin
        · -- impossible: it would occur again later in `hd`, whose versions strictly increase
          have := (List.pairwise_cons.mp hincr).1 _ (hs.subset hin)
          simp at this
        · right; exact ⟨(v, r), hin, by rw [hl]; exact he⟩
  | @cons_cons l1 l2 a hs ih =>
    obtain ⟨v, r⟩ := a
    simp only [run] at rd rm
    cases h1 : step sd r with
    | error e => simp [h1] at rd
    | ok s1 =>
      cases h2 : step sm r with
      | error e => simp [h2] at rm
      | ok s2 =>
        simp only [h1] at rd; simp only [h2] at rm
        have hx : ∀ e ∈ l2, e ∈ l1 ∨ e ∈ extra := by
          intro e he
          rcases hextra e (by simp [he]) with x | x
          · rcases List.mem_cons.mp x with x | x
            · subst x
              have := (List.pairwise_cons.mp hincr).1 _ he
              simp at this
            · left; exact x
          · right; exact x
        apply ih (List.pairwise_cons.mp hincr).2 hx s1 s2 (hinv _ _ _ id h1) (hinv _ _ _ im h2) rd rm
        have hl1 := heff _ _ _ id h1 k
        have hl2 := heff _ _ _ im h2 k
        cases he : eff r k with
        | none =>
          rw [he] at hl1 hl2; simp only [Option.getD_none] at hl1 hl2
          rw [hl1, hl2]; exact h0
        | some x =>
          rw [he] at hl1 hl2; simp only [Option.getD_some] at hl1 hl2
          left; rw [hl1, hl2]

end CasModel.Ghost
