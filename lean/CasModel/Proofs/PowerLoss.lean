import CasModel.Proofs.ApiSim
import CasModel.Props.C09
/-
  PowerLoss: C09 composed with the byte-level simulation.
  Loss model (the property's): at the instant of the cut every file selected by `lose` keeps only
  the prefix covered by its last sync; directory operations persist in issue order.
  Argument: recoverability (`Recoverable`, i.e. `DCfg`) only looks at the BYTES of the segment files
  and of the index file (`of_view`).  In the store's scripts a write to a WAL file (segment,
  index.tmp) is always followed at once by the sync of that file (`Disc`), and nothing else leaves
  such a file with an unsynced suffix; so at any cut at most one WAL file is dirty, namely the one
  just written, and the power-loss image has the same WAL bytes as the crash image one event
  earlier (if that file is lost) or as the crash image itself.  Both are recoverable by the
  process-kill theorems — hence so is every power-loss image.
-/
namespace CasModel
open Ghost

variable (H : Bytes → Bytes) (kind : KeyKind) (sz : Bytes → Nat) (N : Nat)

/-! ### recoverability depends on the WAL bytes only -/

theorem DCfg.of_view (sys : Sys (KMap Bytes) Bytes) (hist : Recs Bytes) (d d' : Disk)
    (c : DCfg H kind sz N sys hist d) (hw : d'.WF) (hs : ∀ i, segData d' i = segData d i)
    (hi : indexData d' = indexData d) : DCfg H kind sz N sys hist d' := by
  refine ⟨c.good, ⟨hw, c.rel.segs.of_data H d d' _ hs, ?_⟩, c.histOK, ?_⟩
  · obtain ⟨s, a, b⟩ := c.rel.snap
    exact ⟨s, by rw [loadSnapshot_congr kind d d' hi]; exact a, b⟩
  · intro i recs hg
    rcases c.unsealed i recs hg with h | h
    · exact Or.inl (h.of_data H d d' i recs 0 (hs i))
    · exact Or.inr h

theorem Recoverable.of_view (hists : List (Recs Bytes)) (d d' : Disk)
    (r : Recoverable H kind sz N hists d) (hw : d'.WF) (hs : ∀ i, segData d' i = segData d i)
    (hi : indexData d' = indexData d) : Recoverable H kind sz N hists d' := by
  obtain ⟨sys, hist, hm, c⟩ := r
  exact ⟨sys, hist, hm, c.of_view H kind sz N sys hist d d' hw hs hi⟩

/-! ### power loss on files -/

theorem powerLoss_get (d : Disk) (lose : FileId → Bool) (f : FileId) :
    (d.powerLoss lose).get f =
      (d.get f).map (fun x => if lose f then { x with data := x.data.take x.synced } else x) := by
  unfold Disk.powerLoss Disk.get
  simp only
  induction d.files with
  | nil => rfl
  | cons e fs ih =>
    obtain ⟨a, x⟩ := e
    simp only [List.map_cons]
    by_cases hl : lose a = true
    · simp only [hl, ↓reduceIte, fget]
      by_cases c : a = f
      · subst c; simp [hl]
      · simp only [c, ↓reduceIte]; exact ih
    · simp only [hl, Bool.false_eq_true, ↓reduceIte, fget]
      by_cases c : a = f
      · subst c; simp [hl]
      · simp only [c, ↓reduceIte]; exact ih

theorem powerLoss_WF (d : Disk) (lose : FileId → Bool) (hw : d.WF) : (d.powerLoss lose).WF := by
  unfold Disk.WF FKeysNodup Disk.powerLoss at *
  simp only [List.map_map]
  have : (d.files.map ((fun x => x.1) ∘ fun (p : FileId × File) =>
      if lose p.1 then (p.1, { p.2 with data := p.2.data.take p.2.synced }) else (p.1, p.2))) =
      d.files.map (·.1) := by
    apply List.map_congr_left
    intro p _
    simp only [Function.comp]
    split <;> rfl
  rw [this]; exact hw

/-- the WAL files whose every byte is covered by a sync -/
def Dur (d : Disk) : Prop :=
  (∀ i x, d.get (.seg i) = some x → x.synced = x.data.length) ∧
  (∀ x, d.get .index = some x → x.synced = x.data.length) ∧
  (∀ x, d.get .indexTmp = some x → x.synced = x.data.length)

theorem powerLoss_view_dur (d : Disk) (lose : FileId → Bool) (hd : Dur d) :
    (∀ i, segData (d.powerLoss lose) i = segData d i) ∧
    indexData (d.powerLoss lose) = indexData d := by
  constructor
  · intro i
    unfold segData
    rw [powerLoss_get]
    cases hg : d.get (.seg i) with
    | none => rfl
    | some x =>
      simp only [Option.map_some, Option.some.injEq]
      split
      · simp [hd.1 i x hg]
      · rfl
  · unfold indexData
    rw [powerLoss_get]
    cases hg : d.get .index with
    | none => rfl
    | some x =>
      simp only [Option.map_some, Option.some.injEq]
      split
      · simp [hd.2.1 x hg]
      · rfl

/-- right after an unsynced append to segment `t` of a durable disk: the loss image has the WAL
    bytes of the disk before the append (segment lost) or after it (segment kept) -/
theorem powerLoss_view_after_write (d : Disk) (lose : FileId → Bool) (hd : Dur d) (t : Nat) (bs : Bytes) :
    ((∀ i, segData ((d.apply (.write (.seg t) bs)).powerLoss lose) i = segData d i) ∨
     (∀ i, segData ((d.apply (.write (.seg t) bs)).powerLoss lose) i =
        segData (d.apply (.write (.seg t) bs)) i)) ∧
    indexData ((d.apply (.write (.seg t) bs)).powerLoss lose) = indexData d := by
  constructor
  · by_cases hl : lose (.seg t) = true
    · left
      intro i
      unfold segData
      rw [powerLoss_get, Disk.get_write]
      by_cases c : i = t
      · subst c
        simp only [↓reduceIte, hl]
        cases hg : d.get (.seg i) with
        | none => rfl
        | some x =>
          simp only [Option.map_some, Option.some.injEq]
          rw [hd.1 i x hg]
          simp
      · have : ¬ FileId.seg i = FileId.seg t := by simpa using c
        simp only [this, ↓reduceIte]
        cases hg : d.get (.seg i) with
        | none => rfl
        | some x =>
          simp only [Option.map_some, Option.some.injEq]
          split
          · simp [hd.1 i x hg]
          · rfl
    · right
      intro i
      unfold segData
      rw [powerLoss_get, Disk.get_write]
      by_cases c : i = t
      · subst c
        simp only [↓reduceIte, hl]
        cases d.get (.seg i) <;> rfl
      · have : ¬ FileId.seg i = FileId.seg t := by simpa using c
        simp only [this, ↓reduceIte]
        cases hg : d.get (.seg i) with
        | none => rfl
        | some x =>
          simp only [Option.map_some, Option.some.injEq]
          split
          · simp [hd.1 i x hg]
          · rfl
  · unfold indexData
    rw [powerLoss_get, Disk.get_write]
    have : ¬ FileId.index = FileId.seg t := by intro c; cases c
    simp only [this, ↓reduceIte]
    cases hg : d.get .index with
    | none => rfl
    | some x =>
      simp only [Option.map_some, Option.some.injEq]
      split
      · simp [hd.2.1 x hg]
      · rfl

end CasModel

namespace CasModel
open Ghost

variable (H : Bytes → Bytes) (kind : KeyKind) (sz : Bytes → Nat) (N : Nat)

def isWal : FileId → Bool
  | .seg _ | .index | .indexTmp => true
  | _ => false

/-- events that cannot leave a WAL file with an unsynced suffix -/
def Ev.walClean : Ev → Bool
  | .write f _ => !isWal f
  | .rename a b => !isWal b || isWal a
  | _ => true

theorem dur_get {d d' : Disk} (hd : Dur d)
    (h : ∀ f, isWal f = true → ∀ x, d'.get f = some x → x.synced = x.data.length ∨ d.get f = some x) :
    Dur d' := by
  refine ⟨?_, ?_, ?_⟩
  · intro i x hx
    rcases h (.seg i) rfl x hx with a | a
    · exact a
    · exact hd.1 i x a
  · intro x hx
    rcases h .index rfl x hx with a | a
    · exact a
    · exact hd.2.1 x a
  · intro x hx
    rcases h .indexTmp rfl x hx with a | a
    · exact a
    · exact hd.2.2 x a

theorem dur_of_wal {d : Disk} (hd : Dur d) (f : FileId) (hf : isWal f = true) (x : File)
    (hx : d.get f = some x) : x.synced = x.data.length := by
  cases f with
  | seg i => exact hd.1 i x hx
  | index => exact hd.2.1 x hx
  | indexTmp => exact hd.2.2 x hx
  | _ => simp [isWal] at hf

theorem Dur.clean (d : Disk) (hw : d.WF) (hd : Dur d) (e : Ev) (hc : e.walClean = true) :
    Dur (d.apply e) := by
  apply dur_get hd
  intro f hf x hx
  cases e with
  | mkdir p => rw [Disk.get_mkdir] at hx; exact Or.inr hx
  | mkdirTree => exact Or.inr hx
  | flock => exact Or.inr hx
  | creat g t =>
    rw [Disk.get_creat] at hx
    by_cases c : f = g
    · subst c
      simp only [↓reduceIte] at hx
      cases hg : d.get f with
      | none => simp only [hg, Option.some.injEq] at hx; subst hx; left; rfl
      | some y =>
        simp only [hg] at hx
        cases t with
        | true => simp only [↓reduceIte, Option.some.injEq] at hx; subst hx; left; rfl
        | false => simp only [Bool.false_eq_true, ↓reduceIte, Option.some.injEq] at hx; subst hx; right; rfl
    · simp only [c, ↓reduceIte] at hx; exact Or.inr hx
  | write g bs =>
    rw [Disk.get_write] at hx
    have : ¬ f = g := by
      intro c; subst c; simp [Ev.walClean, hf] at hc
    simp only [this, ↓reduceIte] at hx; exact Or.inr hx
  | sync g =>
    rw [Disk.get_sync] at hx
    by_cases c : f = g
    · subst c
      simp only [↓reduceIte] at hx
      cases hg : d.get f with
      | none => simp [hg] at hx
      | some y => simp only [hg, Option.map_some, Option.some.injEq] at hx; subst hx; left; rfl
    · simp only [c, ↓reduceIte] at hx; exact Or.inr hx
  | unlink g =>
    rw [Disk.get_unlink d hw] at hx
    by_cases c : f = g
    · simp [c] at hx
    · simp only [c, ↓reduceIte] at hx; exact Or.inr hx
  | rename a b =>
    rw [Disk.get_rename d hw] at hx
    cases hga : d.get a with
    | none => simp only [hga] at hx; exact Or.inr hx
    | some y =>
      simp only [hga] at hx
      by_cases cb : f = b
      · subst cb
        simp only [↓reduceIte, Option.some.injEq] at hx
        subst hx
        simp only [Ev.walClean, hf, Bool.not_true, Bool.false_or] at hc
        left
        exact dur_of_wal hd a hc y hga
      · simp only [cb, ↓reduceIte] at hx
        by_cases ca : f = a
        · simp [ca] at hx
        · simp only [ca, ↓reduceIte] at hx; exact Or.inr hx

theorem Dur.write_sync (d : Disk) (hd : Dur d) (f : FileId) (bs : Bytes) :
    Dur ((d.apply (.write f bs)).apply (.sync f)) := by
  apply dur_get hd
  intro g hg x hx
  rw [Disk.get_sync, Disk.get_write] at hx
  by_cases c : g = f
  · subst c
    simp only [↓reduceIte] at hx
    cases hgg : d.get g with
    | none => simp [hgg] at hx
    | some y => simp only [hgg, Option.map_some, Option.some.injEq] at hx; subst hx; left; rfl
  · rw [Disk.get_write] at hx
    simp only [c, ↓reduceIte] at hx
    exact Or.inr hx

/-- the sync discipline of a script: a write to a WAL file is followed at once by its sync -/
def Disc : List Ev → Prop
  | [] => True
  | e :: rest =>
    match e with
    | .write f _ =>
      if isWal f then
        (match rest with
         | .sync g :: rest' => g = f ∧ f ≠ .index ∧ Disc rest'
         | _ => False)
      else Disc rest
    | e => e.walClean = true ∧ Disc rest

theorem allPre_uncons (P : Disk → Prop) (d : Disk) (e : Ev) (es : List Ev) (h : AllPre P d (e :: es)) :
    P d ∧ AllPre P (d.apply e) es := by
  refine ⟨by simpa [Disk.applyAll] using h 0, ?_⟩
  intro j
  have := h (j + 1)
  simpa [Disk.applyAll_cons] using this

/-- **power loss at any cut of a disciplined script** -/
theorem powerLoss_allPre (hists : List (Recs Bytes)) (evs : List Ev) :
    ∀ (d : Disk), d.WF → Dur d → Disc evs → AllPre (Recoverable H kind sz N hists) d evs →
    ∀ j lose, Recoverable H kind sz N hists ((d.applyAll (evs.take j)).powerLoss lose) := by
  induction hl : evs.length using Nat.strongRecOn generalizing evs with
  | _ n ih =>
    intro d hw hd hdisc hpre j lose
    have base : Recoverable H kind sz N hists (d.powerLoss lose) := by
      have v := powerLoss_view_dur d lose hd
      have h0 := hpre 0
      simp only [List.take_zero, Disk.applyAll_nil] at h0
      exact h0.of_view H kind sz N hists d _ (powerLoss_WF d lose hw) v.1 v.2
    cases evs with
    | nil => simpa [Disk.applyAll] using base
    | cons e rest =>
      cases j with
      | zero => simpa [Disk.applyAll] using base
      | succ j =>
        obtain ⟨_, hpre1⟩ := allPre_uncons _ d e rest hpre
        -- is `e` a write to a WAL file?
        cases e with
        | write f bs =>
          by_cases hf : isWal f = true
          · unfold Disc at hdisc
            simp only [hf, ↓reduceIte] at hdisc
            cases rest with
            | nil => exact absurd hdisc (by simp)
            | cons e2 rest' =>
              cases e2 with
              | sync g =>
                simp only at hdisc
                obtain ⟨hg, hni, hdisc'⟩ := hdisc
                subst hg
                obtain ⟨_, hpre2⟩ := allPre_uncons _ _ _ rest' hpre1
                cases j with
                | zero =>
                  -- the cut is between the write and its sync
                  simp only [List.take_succ_cons, List.take_zero, Disk.applyAll_cons, Disk.applyAll_nil]
                  have h1 := hpre 1
                  simp only [List.take_succ_cons, List.take_zero, Disk.applyAll_cons, Disk.applyAll_nil] at h1
                  have h0 := hpre 0
                  simp only [List.take_zero, Disk.applyAll_nil] at h0
                  have hw1 := Disk.apply_WF d hw (.write g bs)
                  cases g with
                  | seg t =>
                    obtain ⟨vs, vi⟩ := powerLoss_view_after_write d lose hd t bs
                    have vi' : indexData ((d.apply (.write (.seg t) bs)).powerLoss lose) =
                        indexData (d.apply (.write (.seg t) bs)) := by
                      rw [vi]
                      exact (indexData_indexFree d hw _ (by simp [Ev.indexFree])).symm
                    rcases vs with vs | vs
                    · exact h0.of_view H kind sz N hists d _ (powerLoss_WF _ lose hw1) vs vi
                    · exact h1.of_view H kind sz N hists _ _ (powerLoss_WF _ lose hw1) vs vi'
                  | indexTmp =>
                    -- index.tmp is not part of what recovery reads
                    have v := powerLoss_view_dur d lose hd
                    refine h0.of_view H kind sz N hists d _ (powerLoss_WF _ lose hw1) ?_ ?_
                    · intro i
                      unfold segData
                      rw [powerLoss_get, Disk.get_write]
                      have : ¬ FileId.seg i = FileId.indexTmp := by intro c; cases c
                      simp only [this, ↓reduceIte]
                      cases hg : d.get (.seg i) with
                      | none => rfl
                      | some x =>
                        simp only [Option.map_some, Option.some.injEq]
                        split
                        · simp [hd.1 i x hg]
                        · rfl
                    · unfold indexData
                      rw [powerLoss_get, Disk.get_write]
                      have : ¬ FileId.index = FileId.indexTmp := by intro c; cases c
                      simp only [this, ↓reduceIte]
                      cases hg : d.get .index with
                      | none => rfl
                      | some x =>
                        simp only [Option.map_some, Option.some.injEq]
                        split
                        · simp [hd.2.1 x hg]
                        · rfl
                  | index => exact absurd rfl hni
                  | _ => simp [isWal] at hf
                | succ j =>
                  simp only [List.take_succ_cons, Disk.applyAll_cons]
                  exact ih rest'.length (by simp at hl; omega) rest' rfl _
                    (Disk.apply_WF _ (Disk.apply_WF d hw _) _) (hd.write_sync d g bs) hdisc' hpre2 j lose
              | _ => simp at hdisc
          · unfold Disc at hdisc
            simp only [hf, Bool.false_eq_true, ↓reduceIte] at hdisc
            simp only [List.take_succ_cons, Disk.applyAll_cons]
            exact ih rest.length (by simp at hl; omega) rest rfl _ (Disk.apply_WF d hw _)
              (hd.clean d hw _ (by simp [Ev.walClean, hf])) hdisc hpre1 j lose
        | _ =>
          all_goals
            simp only [Disc] at hdisc
            simp only [List.take_succ_cons, Disk.applyAll_cons]
            exact ih rest.length (by simp at hl; omega) rest rfl _ (Disk.apply_WF d hw _)
              (hd.clean d hw _ hdisc.1) hdisc.2 hpre1 j lose

end CasModel

namespace CasModel
open Ghost

variable (H : Bytes → Bytes) (kind : KeyKind) (sz : Bytes → Nat) (N : Nat)

theorem disc_of_clean (evs : List Ev) (h : ∀ e ∈ evs, e.walClean = true) : Disc evs := by
  induction evs with
  | nil => trivial
  | cons e es ih =>
    have he := h e (by simp)
    have hes := ih (fun e' he' => h e' (by simp [he']))
    unfold Disc
    cases e with
    | write f bs =>
      simp only [Ev.walClean, Bool.not_eq_true'] at he
      simp only [he, Bool.false_eq_true, ↓reduceIte]
      exact hes
    | _ => exact ⟨he, hes⟩

theorem disc_append (a b : List Ev) (ha : Disc a) (hb : Disc b) : Disc (a ++ b) := by
  induction hl : a.length using Nat.strongRecOn generalizing a with
  | _ n ih =>
    cases a with
    | nil => exact hb
    | cons e rest =>
      cases e with
      | write f bs =>
        by_cases hf : isWal f = true
        · unfold Disc at ha
          simp only [hf, ↓reduceIte] at ha
          cases rest with
          | nil => exact absurd ha (by simp)
          | cons e2 rest' =>
            cases e2 with
            | sync g =>
              simp only at ha
              obtain ⟨h1, h2, h3⟩ := ha
              simp only [List.cons_append]
              unfold Disc
              simp only [hf, ↓reduceIte]
              exact ⟨h1, h2, ih rest'.length (by simp at hl; omega) rest' h3 rfl⟩
            | _ => simp at ha
        · unfold Disc at ha
          simp only [hf, Bool.false_eq_true, ↓reduceIte] at ha
          simp only [List.cons_append]
          unfold Disc
          simp only [hf, Bool.false_eq_true, ↓reduceIte]
          exact ih rest.length (by simp at hl; omega) rest ha rfl
      | _ =>
        all_goals
          unfold Disc at ha
          simp only [List.cons_append]
          unfold Disc
          exact ⟨ha.1, ih rest.length (by simp at hl; omega) rest ha.2 rfl⟩

theorem dur_applyAll_disc (evs : List Ev) : ∀ (d : Disk), d.WF → Dur d → Disc evs → Dur (d.applyAll evs) := by
  induction hl : evs.length using Nat.strongRecOn generalizing evs with
  | _ n ih =>
    intro d hw hd hdisc
    cases evs with
    | nil => exact hd
    | cons e rest =>
      cases e with
      | write f bs =>
        by_cases hf : isWal f = true
        · unfold Disc at hdisc
          simp only [hf, ↓reduceIte] at hdisc
          cases rest with
          | nil => exact absurd hdisc (by simp)
          | cons e2 rest' =>
            cases e2 with
            | sync g =>
              simp only at hdisc
              obtain ⟨h1, _, h3⟩ := hdisc
              subst h1
              simp only [Disk.applyAll_cons]
              exact ih rest'.length (by simp at hl; omega) rest' rfl _
                (Disk.apply_WF _ (Disk.apply_WF d hw _) _) (hd.write_sync d g bs) h3
            | _ => simp at hdisc
        · unfold Disc at hdisc
          simp only [hf, Bool.false_eq_true, ↓reduceIte] at hdisc
          simp only [Disk.applyAll_cons]
          exact ih rest.length (by simp at hl; omega) rest rfl _ (Disk.apply_WF d hw _)
            (hd.clean d hw _ (by simp [Ev.walClean, hf])) hdisc
      | _ =>
        all_goals
          unfold Disc at hdisc
          simp only [Disk.applyAll_cons]
          exact ih rest.length (by simp at hl; omega) rest rfl _ (Disk.apply_WF d hw _)
            (hd.clean d hw _ hdisc.1) hdisc.2

theorem disc_write_sync (f : FileId) (bs : Bytes) (hf : isWal f = true) (hni : f ≠ .index)
    (rest : List Ev) (h : Disc rest) : Disc (.write f bs :: .sync f :: rest) := by
  unfold Disc
  simp only [hf, ↓reduceIte]
  exact ⟨trivial, hni, h⟩

theorem disc_cons_clean (e : Ev) (he : e.walClean = true) (rest : List Ev) (h : Disc rest) :
    Disc (e :: rest) := by
  have := disc_append [e] rest (disc_of_clean [e] (by intro x hx; simp only [List.mem_singleton] at hx; subst hx; exact he)) h
  exact this

theorem ite_fst_P {P : List Ev → Prop} (c : Prop) [Decidable c] (a b : List Ev × Mem)
    (ha : P a.1) (hb : P b.1) : P (if c then a else b).1 := by split <;> assumption

/-- the checkpoint script is disciplined -/
theorem checkpointScript_disc (r : CkptReason) (m : Mem) (d : Disk) : Disc (checkpointScript r m d).1 := by
  rcases C09_snapshot_order r m d with h | ⟨bytes, prunes, h, hp⟩
  · rw [h]; trivial
  · rw [h]
    show Disc (Ev.creat .indexTmp true :: Ev.write .indexTmp bytes :: Ev.sync .indexTmp ::
      Ev.rename .indexTmp .index :: prunes)
    apply disc_cons_clean _ rfl
    apply disc_write_sync _ _ rfl (by intro c; cases c)
    apply disc_cons_clean _ rfl
    apply disc_of_clean
    intro e he
    obtain ⟨j, rfl⟩ := hp e he
    rfl

/-- the commit script is disciplined -/
theorem logAndApply_disc (m : Mem) (d : Disk) (op : Op Bytes) (raw : RawOp)
    (evs : List Ev) (m' : Mem) (h : logAndApply H m d op raw = .ok (evs, m')) : Disc evs := by
  unfold logAndApply at h
  simp only at h
  split at h
  · cases h
  · injection h with h; injection h with h1 _
    subst h1
    apply disc_append
    · apply disc_append
      · apply disc_append
        · -- roll
          split
          · trivial
          · apply disc_append
            · split
              · exact disc_write_sync _ _ rfl (by intro c; cases c) [] trivial
              · trivial
            · exact disc_of_clean _ (by intro e he; simp only [List.mem_singleton] at he; subst he; rfl)
        · exact disc_write_sync _ _ rfl (by intro c; cases c) [] trivial
      · apply disc_of_clean
        intro e he
        simp only [List.mem_map] at he
        obtain ⟨x, _, rfl⟩ := he
        rfl
    · exact ite_fst_P (P := Disc) _ _ _ (checkpointScript_disc _ _ _) trivial

end CasModel

namespace CasModel

/-- no file claims more synced bytes than it has -/
def SyncLe (d : Disk) : Prop := ∀ f x, d.get f = some x → x.synced ≤ x.data.length

theorem SyncLe.apply (d : Disk) (hw : d.WF) (h : SyncLe d) (e : Ev) : SyncLe (d.apply e) := by
  intro f x hx
  cases e with
  | mkdir p => rw [Disk.get_mkdir] at hx; exact h f x hx
  | mkdirTree => exact h f x hx
  | flock => exact h f x hx
  | creat g t =>
    rw [Disk.get_creat] at hx
    by_cases c : f = g
    · subst c
      simp only [↓reduceIte] at hx
      cases hg : d.get f with
      | none => simp only [hg, Option.some.injEq] at hx; subst hx; simp
      | some y =>
        simp only [hg] at hx
        cases t with
        | true => simp only [↓reduceIte, Option.some.injEq] at hx; subst hx; simp
        | false => simp only [Bool.false_eq_true, ↓reduceIte, Option.some.injEq] at hx; subst hx; exact h f y hg
    · simp only [c, ↓reduceIte] at hx; exact h f x hx
  | write g bs =>
    rw [Disk.get_write] at hx
    by_cases c : f = g
    · subst c
      simp only [↓reduceIte] at hx
      cases hg : d.get f with
      | none => simp [hg] at hx
      | some y =>
        simp only [hg, Option.map_some, Option.some.injEq] at hx
        subst hx
        have := h f y hg
        simp only [List.length_append]; omega
    · simp only [c, ↓reduceIte] at hx; exact h f x hx
  | sync g =>
    rw [Disk.get_sync] at hx
    by_cases c : f = g
    · subst c
      simp only [↓reduceIte] at hx
      cases hg : d.get f with
      | none => simp [hg] at hx
      | some y => simp only [hg, Option.map_some, Option.some.injEq] at hx; subst hx; simp
    · simp only [c, ↓reduceIte] at hx; exact h f x hx
  | unlink g =>
    rw [Disk.get_unlink d hw] at hx
    by_cases c : f = g
    · simp [c] at hx
    · simp only [c, ↓reduceIte] at hx; exact h f x hx
  | rename a b =>
    rw [Disk.get_rename d hw] at hx
    cases hga : d.get a with
    | none => simp only [hga] at hx; exact h f x hx
    | some y =>
      simp only [hga] at hx
      by_cases cb : f = b
      · simp only [cb, ↓reduceIte, Option.some.injEq] at hx; subst hx; exact h a y hga
      · simp only [cb, ↓reduceIte] at hx
        by_cases ca : f = a
        · simp [ca] at hx
        · simp only [ca, ↓reduceIte] at hx; exact h f x hx

theorem SyncLe.applyAll (d : Disk) (hw : d.WF) (h : SyncLe d) (evs : List Ev) : SyncLe (d.applyAll evs) := by
  induction evs generalizing d with
  | nil => exact h
  | cons e es ih =>
    rw [Disk.applyAll_cons]
    exact ih _ (Disk.apply_WF d hw e) (h.apply d hw e)

/-- after a power loss that hits EVERY file, what is left is fully synced -/
theorem dur_of_full_loss (d : Disk) (h : SyncLe d) : Dur (d.powerLoss (fun _ => true)) ∧
    SyncLe (d.powerLoss (fun _ => true)) := by
  have key : ∀ f x, (d.powerLoss (fun _ => true)).get f = some x → x.synced = x.data.length := by
    intro f x hx
    rw [powerLoss_get] at hx
    cases hg : d.get f with
    | none => simp [hg] at hx
    | some y =>
      simp only [hg, Option.map_some, ↓reduceIte, Option.some.injEq] at hx
      subst hx
      have := h f y hg
      simp only [List.length_take]
      omega
  exact ⟨⟨fun i x hx => key _ x hx, fun x hx => key _ x hx, fun x hx => key _ x hx⟩,
    fun f x hx => by rw [key f x hx]; exact Nat.le_refl _⟩

theorem settle_get (d : Disk) (f : FileId) :
    d.settle.get f = (d.get f).map (fun x => { x with synced := x.data.length }) := by
  unfold Disk.settle Disk.get
  simp only
  induction d.files with
  | nil => rfl
  | cons e fs ih =>
    obtain ⟨a, x⟩ := e
    simp only [List.map_cons, fget]
    by_cases h : a = f
    · simp [h]
    · simp [h, ih]

theorem settle_WF (d : Disk) (hw : d.WF) : d.settle.WF := by
  unfold Disk.WF FKeysNodup Disk.settle at *
  simp only [List.map_map]
  have : (d.files.map ((fun x => x.1) ∘ fun (p : FileId × File) =>
      (p.1, { p.2 with synced := p.2.data.length }))) = d.files.map (·.1) := by
    apply List.map_congr_left
    intro p _
    rfl
  rw [this]; exact hw

theorem settle_synced (d : Disk) (f : FileId) (x : File) (h : d.settle.get f = some x) :
    x.synced = x.data.length := by
  rw [settle_get] at h
  cases hg : d.get f with
  | none => simp [hg] at h
  | some y => simp only [hg, Option.map_some, Option.some.injEq] at h; subst h; rfl

theorem dur_settle (d : Disk) : Dur d.settle ∧ SyncLe d.settle :=
  ⟨⟨fun _ x hx => settle_synced d _ x hx, fun x hx => settle_synced d _ x hx,
    fun x hx => settle_synced d _ x hx⟩,
   fun f x hx => by rw [settle_synced d f x hx]; exact Nat.le_refl _⟩

theorem settle_data (d : Disk) (f : FileId) : (d.settle.get f).map (·.data) = (d.get f).map (·.data) := by
  rw [settle_get]; cases d.get f <;> rfl

theorem settle_isSome (d : Disk) (f : FileId) : (d.settle.get f).isSome = (d.get f).isSome := by
  rw [settle_get]; cases d.get f <;> rfl

end CasModel
