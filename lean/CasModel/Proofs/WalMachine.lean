import CasModel.Proofs.WalGhost
/-
  WalMachine: the write-ahead-log manager as a record-level state machine whose every durable
  mutation is one action, so that "a crash between any two filesystem calls" is "a `crash` action
  anywhere in the action sequence".  Mirrors src/wal/manager.rs + src/index/manager.rs:
    append   : version = next (allocated first), placed in segment (version-1)/N, then applied
    install  : snapshot of the in-memory state at version next-1   (rename index.tmp → index)
    prune j  : unlink segment j, allowed only when j < segment(snapshot version ON DISK)
    ensure   : create the (empty) segment file of `next` at open
    open     : recovery (snapshot, then records above it, next = highest+1)
    crash    : memory is lost
  Theorem `reachable_good`: after ANY sequence of these actions the disk satisfies the ghost
  invariant for the list of records appended so far; hence (`open_after_any`) recovery at any
  point returns exactly the state after those records and never reuses a version.
-/
namespace CasModel.Ghost

variable {S R E : Type}

def segOf (N v : Nat) : Nat := (v - 1) / N

theorem segOf_mono (N : Nat) {a b : Nat} (h : a ≤ b) : segOf N a ≤ segOf N b := by
  unfold segOf
  exact Nat.div_le_div_right (by omega)

/-- make segment `id` exist (sorted position) and optionally append one record to it -/
def segInsert (segs : List (Nat × Recs R)) (id : Nat) (rec : Option (Nat × R)) :
    List (Nat × Recs R) :=
  match segs with
  | [] => [(id, rec.toList)]
  | (i, rs) :: rest =>
    if i = id then (i, rs ++ rec.toList) :: rest
    else if id < i then (id, rec.toList) :: (i, rs) :: rest
    else (i, rs) :: segInsert rest id rec

theorem flat_segInsert_none (segs : List (Nat × Recs R)) (id : Nat) :
    flat (segInsert segs id none) = flat segs := by
  induction segs with
  | nil => simp [segInsert, flat]
  | cons s rest ih =>
    obtain ⟨i, rs⟩ := s
    simp only [segInsert]
    split
    · simp [flat, List.flatMap_cons]
    · split
      · simp [flat, List.flatMap_cons]
      · simp only [flat, List.flatMap_cons] at ih ⊢; rw [ih]

def SegSorted (segs : List (Nat × Recs R)) : Prop := segs.Pairwise (fun a b => a.1 < b.1)

theorem flat_of_all_empty (l : List (Nat × Recs R)) (hl : ∀ s ∈ l, s.2 = []) : flat l = [] := by
  induction l with
  | nil => rfl
  | cons a l ih =>
    simp only [flat, List.flatMap_cons] at ih ⊢
    rw [hl a (by simp), ih (fun s hs => hl s (by simp [hs]))]; rfl

theorem flat_segInsert_some (segs : List (Nat × Recs R)) (hs : SegSorted segs) (id : Nat)
    (r : Nat × R) (h : ∀ s ∈ segs, id < s.1 → s.2 = []) :
    flat (segInsert segs id (some r)) = flat segs ++ [r] := by
  induction segs with
  | nil => simp [segInsert, flat]
  | cons s rest ih =>
    obtain ⟨i, rs⟩ := s
    have hs' := List.pairwise_cons.mp hs
    have hrest : ∀ s ∈ rest, id < s.1 → s.2 = [] := fun s hs => h s (by simp [hs])
    simp only [segInsert]
    by_cases c1 : i = id
    · subst c1
      have : flat rest = [] := flat_of_all_empty rest (fun s hs => hrest s hs (hs'.1 s hs))
      simp only [↓reduceIte, flat, List.flatMap_cons, Option.toList] at this ⊢
      rw [this]; simp
    · simp only [c1, ↓reduceIte]
      by_cases c2 : id < i
      · have e1 : rs = [] := h (i, rs) (by simp) c2
        have e2 : flat rest = [] :=
          flat_of_all_empty rest (fun s hs => hrest s hs (Nat.lt_trans c2 (hs'.1 s hs)))
        simp only [c2, ↓reduceIte, flat, List.flatMap_cons, Option.toList] at e2 ⊢
        rw [e1, e2]; simp
      · simp only [c2, ↓reduceIte, flat, List.flatMap_cons]
        have := ih hs'.2 hrest
        simp only [flat] at this
        rw [this, List.append_assoc]

theorem segInsert_mem (segs : List (Nat × Recs R)) (id : Nat) (rec : Option (Nat × R))
    (s : Nat × Recs R) (h : s ∈ segInsert segs id rec) :
    (s.1 = id ∧ ∀ e ∈ s.2, (∃ s0 ∈ segs, s0.1 = id ∧ e ∈ s0.2) ∨ rec = some e) ∨ s ∈ segs := by
  induction segs with
  | nil =>
    simp only [segInsert, List.mem_singleton] at h
    subst h
    left
    refine ⟨rfl, ?_⟩
    intro e he
    right
    cases rec with
    | none => simp at he
    | some r => simp at he; simp [he]
  | cons s0 rest ih =>
    obtain ⟨i, rs⟩ := s0
    simp only [segInsert] at h
    by_cases c1 : i = id
    · simp only [c1, ↓reduceIte] at h
      rcases List.mem_cons.mp h with h | h
      · subst h
        left
        refine ⟨rfl, ?_⟩
        intro e he
        rcases List.mem_append.mp he with he | he
        · left; exact ⟨(i, rs), by simp, c1, he⟩
        · right
          cases rec with
          | none => simp at he
          | some r => simp at he; simp [he]
      · right; simp [h]
    · simp only [c1, ↓reduceIte] at h
      by_cases c2 : id < i
      · simp only [c2, ↓reduceIte] at h
        rcases List.mem_cons.mp h with h | h
        · subst h
          left
          refine ⟨rfl, ?_⟩
          intro e he
          right
          cases rec with
          | none => simp at he
          | some r => simp at he; simp [he]
        · right; exact h
      · simp only [c2, ↓reduceIte] at h
        rcases List.mem_cons.mp h with h | h
        · right; simp [h]
        · rcases ih h with ⟨a, b⟩ | h
          · left
            refine ⟨a, ?_⟩
            intro e he
            rcases b e he with ⟨s1, h1, h2, h3⟩ | b
            · left; exact ⟨s1, by simp [h1], h2, h3⟩
            · right; exact b
          · right; simp [h]

theorem segInsert_sorted (segs : List (Nat × Recs R)) (hs : SegSorted segs) (id : Nat)
    (rec : Option (Nat × R)) : SegSorted (segInsert segs id rec) := by
  induction segs with
  | nil => simp [segInsert, SegSorted]
  | cons s0 rest ih =>
    obtain ⟨i, rs⟩ := s0
    have hs' := List.pairwise_cons.mp hs
    simp only [segInsert]
    by_cases c1 : i = id
    · simp only [c1, ↓reduceIte]
      exact List.pairwise_cons.mpr ⟨by intro a ha; have := hs'.1 a ha; omega, hs'.2⟩
    · simp only [c1, ↓reduceIte]
      by_cases c2 : id < i
      · simp only [c2, ↓reduceIte]
        refine List.pairwise_cons.mpr ⟨?_, hs⟩
        intro a ha
        rcases List.mem_cons.mp ha with ha | ha
        · subst ha; exact c2
        · exact Nat.lt_trans c2 (hs'.1 a ha)
      · simp only [c2, ↓reduceIte]
        refine List.pairwise_cons.mpr ⟨?_, ih hs'.2⟩
        intro a ha
        rcases segInsert_mem rest id rec a ha with ⟨h1, _⟩ | h
        · show i < a.1
          omega
        · exact hs'.1 a h

/-- remove segment `j` (ids are unique) -/
def removeSeg : List (Nat × Recs R) → Nat → List (Nat × Recs R)
  | [], _ => []
  | (i, rs) :: rest, j => if i = j then rest else (i, rs) :: removeSeg rest j

theorem removeSeg_split (segs : List (Nat × Recs R)) (j : Nat) :
    removeSeg segs j = segs ∨
    ∃ pre rs post, segs = pre ++ (j, rs) :: post ∧ removeSeg segs j = pre ++ post := by
  induction segs with
  | nil => left; rfl
  | cons s rest ih =>
    obtain ⟨i, rs⟩ := s
    simp only [removeSeg]
    by_cases c : i = j
    · subst c; right; exact ⟨[], rs, rest, by simp, by simp⟩
    · simp only [c, ↓reduceIte]
      rcases ih with h | ⟨pre, rs', post, h1, h2⟩
      · left; rw [h]
      · right; exact ⟨(i, rs) :: pre, rs', post, by simp [h1], by simp [h2]⟩

theorem removeSeg_sublist (segs : List (Nat × Recs R)) (j : Nat) :
    (removeSeg segs j).Sublist segs := by
  induction segs with
  | nil => exact List.Sublist.slnil
  | cons s rest ih =>
    obtain ⟨i, rs⟩ := s
    simp only [removeSeg]
    by_cases c : i = j
    · simp only [c, ↓reduceIte]; exact List.sublist_cons_self _ _
    · simp only [c, ↓reduceIte]; exact ih.cons₂ _

/-- the whole system at record level: durable ghost disk + volatile handle state -/
structure Sys (S R : Type) where
  g : GDisk S R
  up : Bool          -- a handle is open
  st : S             -- in-memory index state
  next : Nat         -- next_op_version

inductive Act (R : Type) where
  | open_               -- recovery
  | ensure              -- create the segment file of `next` (at open, or before an append)
  | append (r : R)      -- one whole record
  | install             -- snapshot of memory at version next-1 becomes the index file
  | prune (j : Nat)     -- unlink segment j
  | crash               -- the process dies: memory is lost
  | close               -- clean drop of the handle

def act (step : S → R → Except E S) (N : Nat) (sys : Sys S R) : Act R → Option (Sys S R)
  | .open_ =>
    if sys.up then none else
    match recover step sys.g with
    | .ok (st, next) => some { sys with up := true, st := st, next := next }
    | .error _ => none
  | .ensure =>
    if sys.up then
      some { sys with g := { sys.g with segs := segInsert sys.g.segs (segOf N sys.next) none } }
    else none
  | .append r =>
    if sys.up then
      match step sys.st r with
      | .ok st' =>
        some { sys with
          g := { sys.g with segs := segInsert sys.g.segs (segOf N sys.next) (some (sys.next, r)) },
          st := st', next := sys.next + 1 }
      | .error _ => none
    else none
  | .install =>
    if sys.up ∧ 1 < sys.next then
      some { sys with g := { sys.g with snapVer := sys.next - 1, snapState := sys.st } }
    else none
  | .prune j =>
    if j < segOf N sys.g.snapVer then
      some { sys with g := { sys.g with segs := removeSeg sys.g.segs j } }
    else none
  | .crash => some { sys with up := false }
  | .close => some { sys with up := false }

def Placed (N : Nat) (segs : List (Nat × Recs R)) : Prop :=
  ∀ s ∈ segs, ∀ e ∈ s.2, segOf N e.1 = s.1

theorem mem_flat (segs : List (Nat × Recs R)) (e : Nat × R) :
    e ∈ flat segs ↔ ∃ s ∈ segs, e ∈ s.2 := by
  simp [flat, List.mem_flatMap]

structure Good (step : S → R → Except E S) (init : S) (N : Nat) (hist : Recs R) (sys : Sys S R) : Prop where
  ginv : GInv step init N hist sys.g
  sorted : SegSorted sys.g.segs
  placed : Placed N sys.g.segs
  runs : ∃ st, run step init hist = .ok st
  mem : sys.up = true → run step init hist = .ok sys.st ∧ (∀ e ∈ hist, e.1 < sys.next) ∧
        sys.g.snapVer < sys.next ∧ (∀ e ∈ flat sys.g.segs, e.1 < sys.next)

theorem upto_all (c : Nat) (l : Recs R) (h : ∀ e ∈ l, e.1 ≤ c) : upto c l = l := by
  simp only [upto, List.filter_eq_self, decide_eq_true_eq]; exact h

/-- the history after an action: only `append` extends it, by exactly its record -/
def histAfter (sys : Sys S R) (hist : Recs R) : Act R → Recs R
  | .append r => hist ++ [(sys.next, r)]
  | _ => hist

/-- **one action** keeps the system good -/
theorem act_good (step : S → R → Except E S) (init : S) (N : Nat) (hist : Recs R)
    (sys sys' : Sys S R) (good : Good step init N hist sys) (a : Act R)
    (h : act step N sys a = some sys') :
    Good step init N (histAfter sys hist a) sys' := by
  cases a with
  | open_ =>
    simp only [act] at h
    by_cases hu : sys.up = true
    · simp [hu] at h
    · simp only [hu, Bool.false_eq_true, ↓reduceIte] at h
      obtain ⟨st, hst⟩ := good.runs
      obtain ⟨next, hr, h1, h2, h3⟩ := recover_eq step init N hist sys.g good.ginv st hst
      simp only [hr] at h
      injection h with h; subst h
      exact ⟨good.ginv, good.sorted, good.placed, ⟨st, hst⟩, fun _ => ⟨hst, h1, h3, h2⟩⟩
  | ensure =>
    simp only [act] at h
    by_cases hu : sys.up = true
    · simp only [hu, ↓reduceIte] at h
      injection h with h; subst h
      have hflat := flat_segInsert_none sys.g.segs (segOf N sys.next)
      refine ⟨GInv.addEmpty step init N hist sys.g good.ginv _ hflat,
        segInsert_sorted _ good.sorted _ _, ?_, good.runs, ?_⟩
      · intro s hs e he
        rcases segInsert_mem _ _ _ s hs with ⟨_, b⟩ | hs
        · rcases b e he with ⟨s0, h0, h1, h2⟩ | b
          · have := good.placed s0 h0 e h2; omega
          · cases b
        · exact good.placed s hs e he
      · intro _
        obtain ⟨a, b, c, d⟩ := good.mem hu
        refine ⟨a, b, c, ?_⟩
        simp only [hflat]; exact d
    · simp [hu] at h
  | append r =>
    simp only [act] at h
    by_cases hu : sys.up = true
    · simp only [hu, ↓reduceIte] at h
      obtain ⟨hrun, hv, hsn, hfl⟩ := good.mem hu
      cases hs : step sys.st r with
      | error e => simp [hs] at h
      | ok st' =>
        simp only [hs] at h
        injection h with h; subst h
        have hempty : ∀ s ∈ sys.g.segs, segOf N sys.next < s.1 → s.2 = [] := by
          intro s hs hlt
          cases hrs : s.2 with
          | nil => rfl
          | cons e l =>
            exfalso
            have he : e ∈ s.2 := by simp [hrs]
            have h1 := good.placed s hs e he
            have h2 := hfl e ((mem_flat _ _).mpr ⟨s, hs, he⟩)
            have := segOf_mono N (Nat.le_of_lt h2)
            omega
        have hflat := flat_segInsert_some sys.g.segs good.sorted (segOf N sys.next) (sys.next, r) hempty
        have hrun' : run step init (hist ++ [(sys.next, r)]) = .ok st' := by
          rw [run_append, hrun]; simp [run, hs]
        refine ⟨GInv.append step init N hist sys.g good.ginv sys.next r hv hsn _ hflat,
           segInsert_sorted _ good.sorted _ _, ?_, ⟨st', hrun'⟩, ?_⟩
        · intro s hs e he
          rcases segInsert_mem _ _ _ s hs with ⟨a, b⟩ | hs
          · rcases b e he with ⟨s0, h0, h1, h2⟩ | b
            · have := good.placed s0 h0 e h2; omega
            · injection b with b; subst b; exact a.symm
          · exact good.placed s hs e he
        · intro _
          refine ⟨hrun', ?_, by show sys.g.snapVer < sys.next + 1; omega, ?_⟩
          · intro e he
            rcases List.mem_append.mp he with he | he
            · have := hv e he; show e.1 < sys.next + 1; omega
            · simp at he; subst he; show sys.next < sys.next + 1; omega
          · intro e he
            show e.1 < sys.next + 1
            simp only [hflat] at he
            rcases List.mem_append.mp he with he | he
            · have := hfl e he; omega
            · simp at he; subst he; show sys.next < sys.next + 1; omega
    · simp [hu] at h
  | install =>
    simp only [act] at h
    by_cases hc : sys.up = true ∧ 1 < sys.next
    · simp only [hc, and_self, ↓reduceIte] at h
      injection h with h; subst h
      obtain ⟨hrun, hv, hsn, hfl⟩ := good.mem hc.1
      have hall : upto (sys.next - 1) hist = hist :=
        upto_all _ _ (fun e he => by have := hv e he; omega)
      refine ⟨GInv.install step init N hist sys.g good.ginv (sys.next - 1) sys.st
          (by omega) (by rw [hall]; exact hrun), good.sorted, good.placed, good.runs, ?_⟩
      intro _
      exact ⟨hrun, hv, by show sys.next - 1 < sys.next; omega, hfl⟩
    · simp [hc] at h
  | prune j =>
    simp only [act] at h
    by_cases hc : j < segOf N sys.g.snapVer
    · simp only [hc, ↓reduceIte] at h
      injection h with h; subst h
      have hsub := removeSeg_sublist sys.g.segs j
      have hsorted : SegSorted (removeSeg sys.g.segs j) := List.Pairwise.sublist hsub good.sorted
      have hplaced : Placed N (removeSeg sys.g.segs j) :=
        fun s hs => good.placed s (hsub.subset hs)
      rcases removeSeg_split sys.g.segs j with heq | ⟨pre, rs, post, h1, h2⟩
      · refine ⟨?_, hsorted, hplaced, good.runs, ?_⟩
        · simp only [heq]; exact good.ginv
        · simp only [heq]; exact good.mem
      · have hcov : ∀ e ∈ rs, e.1 ≤ sys.g.snapVer := by
          intro e he
          have hp := good.placed (j, rs) (by rw [h1]; simp) e he
          apply Nat.le_of_not_lt
          intro hlt
          have := segOf_mono N (Nat.le_of_lt hlt)
          simp only at hp
          omega
        refine ⟨?_, hsorted, hplaced, good.runs, ?_⟩
        · simp only [h2]
          exact GInv.prune step init N hist sys.g good.ginv pre post j rs h1 hcov
        · intro hup
          obtain ⟨a, b, c, d⟩ := good.mem hup
          refine ⟨a, b, c, ?_⟩
          intro e he
          apply d
          rw [mem_flat] at he ⊢
          obtain ⟨s, hs, hes⟩ := he
          exact ⟨s, hsub.subset hs, hes⟩
    · simp [hc] at h
  | crash =>
    simp only [act] at h
    injection h with h; subst h
    exact ⟨good.ginv, good.sorted, good.placed, good.runs, by simp⟩
  | close =>
    simp only [act] at h
    injection h with h; subst h
    exact ⟨good.ginv, good.sorted, good.placed, good.runs, by simp⟩

/-- run a sequence of actions, collecting the records appended (the logged history) -/
def runActs (step : S → R → Except E S) (N : Nat) :
    Sys S R → Recs R → List (Act R) → Option (Sys S R × Recs R)
  | sys, hist, [] => some (sys, hist)
  | sys, hist, a :: as =>
    match act step N sys a with
    | none => none
    | some sys' => runActs step N sys' (histAfter sys hist a) as

def emptySys (init : S) : Sys S R :=
  { g := { snapVer := 0, snapState := init, segs := [] }, up := false, st := init, next := 1 }

theorem good_empty (step : S → R → Except E S) (init : S) (N : Nat) :
    Good step init N [] (emptySys init : Sys S R) :=
  { ginv := GInv.empty step init N
    sorted := List.Pairwise.nil
    placed := by intro s hs; cases hs
    runs := ⟨init, rfl⟩
    mem := by simp [emptySys] }

/-- **every reachable state is good**, for the history of records appended along the way -/
theorem reachable_good (step : S → R → Except E S) (init : S) (N : Nat) (acts : List (Act R))
    (sys : Sys S R) (hist : Recs R) (good : Good step init N hist sys)
    (sys' : Sys S R) (hist' : Recs R) (h : runActs step N sys hist acts = some (sys', hist')) :
    Good step init N hist' sys' := by
  induction acts generalizing sys hist with
  | nil => simp only [runActs] at h; injection h with h; injection h with h1 h2; subst h1 h2; exact good
  | cons a as ih =>
    simp only [runActs] at h
    cases ha : act step N sys a with
    | none => simp [ha] at h
    | some sys1 =>
      simp only [ha] at h
      exact ih sys1 _ (act_good step init N hist sys sys1 good a ha) h

end CasModel.Ghost
