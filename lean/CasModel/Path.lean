import CasModel.Bytes
/-
  Path: model of BlobHash::{to_hex, relative_path, from_relative_path} (src/types.rs) and
  DbPaths::cas_file_path (src/paths.rs). A path is a list of components, a component a byte list.
-/
namespace CasModel

def hexDigit (n : Nat) : UInt8 :=
  if n < 10 then UInt8.ofNat (48 + n) else UInt8.ofNat (87 + n)

/-- `hex` crate `val`: accepts both cases. -/
def fromHexDigit (c : UInt8) : Option Nat :=
  let n := c.toNat
  if 48 ≤ n ∧ n ≤ 57 then some (n - 48)
  else if 97 ≤ n ∧ n ≤ 102 then some (n - 87)
  else if 65 ≤ n ∧ n ≤ 70 then some (n - 55)
  else none

def toHex : Bytes → Bytes
  | [] => []
  | b :: bs => hexDigit (b.toNat / 16) :: hexDigit (b.toNat % 16) :: toHex bs

/-- hex-decode an even-length digit string -/
def decodeHex : Bytes → Option Bytes
  | [] => some []
  | [_] => none
  | a :: b :: rest =>
    match fromHexDigit a, fromHexDigit b, decodeHex rest with
    | some x, some y, some bs => some (UInt8.ofNat (x * 16 + y) :: bs)
    | _, _, _ => none

/-- `BlobHash::relative_path`: hex[0..2] / hex[2..4] / hex[4..] -/
def relativePath (h : Bytes) : List Bytes :=
  let hex := toHex h
  [hex.take 2, (hex.drop 2).take 2, hex.drop 4]

/-- `BlobHash::from_relative_path`: the last three components, concatenated, must hex-decode
    to exactly 32 bytes (`decode_to_slice` into `[u8;32]`). -/
def fromRelativePath (comps : List Bytes) : Option Bytes :=
  match comps.reverse with
  | c :: b :: a :: _ =>
    let buf := a ++ (b ++ c)
    if buf.length = 64 then decodeHex buf else none
  | _ => none

/-- the fix for F5 (scan_orphans): a path is accepted only when it is the canonical one -/
def fromCanonicalPath (comps : List Bytes) : Option Bytes :=
  match fromRelativePath comps with
  | some h => if relativePath h = comps then some h else none
  | none => none

end CasModel
