import CasModel.Bytes
/-
  Frame: model of the WAL record framing in src/wal/storage.rs
  (`SegmentWriter::write_entry`, `seal`, `SegmentReader::read_next_entry`, the reader iterator).
  record = [u64 version][32B H(payload)][u32 len][payload];  sentinel = 44 zero bytes.
  `H` is a parameter (BLAKE3 in the driver); no theorem unfolds it.
-/
namespace CasModel

structure Rec where
  ver : Nat
  payload : Bytes
  deriving DecidableEq, Repr

def HEADER : Nat := 44

def encodeEntry (H : Bytes → Bytes) (r : Rec) : Bytes :=
  leBytes 8 r.ver ++ (H r.payload ++ (leBytes 4 r.payload.length ++ r.payload))

def sentinel : Bytes := List.replicate 44 0

def encodeAll (H : Bytes → Bytes) : List Rec → Bytes
  | [] => []
  | r :: rs => encodeEntry H r ++ encodeAll H rs

inductive ReadErr where
  | shortPayload     -- WalError::ReplayIo{ReadOpData, UnexpectedEof}
  | checksum         -- WalError::ReplayChecksumMismatch
  deriving DecidableEq, Repr

inductive ReadRes where
  | entry (r : Rec) (rest : Bytes)
  | done                      -- short header, version 0 (sentinel) or zero length
  | err (e : ReadErr)
  deriving DecidableEq, Repr

/-- `read_next_entry` on the unread remainder `bs` of a segment file. -/
def readNext (H : Bytes → Bytes) (bs : Bytes) : ReadRes :=
  if bs.length < 44 then .done else
  let ver := leNat (bs.take 8)
  let hash := (bs.drop 8).take 32
  let len := leNat ((bs.drop 40).take 4)
  if ver = 0 then .done else
  if len = 0 then .done else
  let rest := bs.drop 44
  if rest.length < len then .err .shortPayload else
  let p := rest.take len
  if H p = hash then .entry ⟨ver, p⟩ (rest.drop len) else .err .checksum

/-- the reader iterator, collected (fuel = an upper bound on the number of records). -/
def readSegmentFuel (H : Bytes → Bytes) : Nat → Bytes → Except ReadErr (List Rec)
  | 0, _ => .ok []
  | f+1, bs =>
    match readNext H bs with
    | .done => .ok []
    | .err e => .error e
    | .entry r rest =>
      match readSegmentFuel H f rest with
      | .error e => .error e
      | .ok rs => .ok (r :: rs)

def readSegment (H : Bytes → Bytes) (bs : Bytes) : Except ReadErr (List Rec) :=
  readSegmentFuel H (bs.length / 45 + 1) bs

/-- what `write_entry` accepts without silent damage: non-zero version below 2^64,
    non-empty payload shorter than 2^32 -/
def Rec.WF (r : Rec) : Prop :=
  0 < r.ver ∧ r.ver < U64 ∧ 0 < r.payload.length ∧ r.payload.length < U32

end CasModel
