/-
  The directory-lock protocol of `Cas::open` / `Drop` across threads and processes (C11).

  What is modelled (src/cas.rs `CasInner::new`, field `_lockfile`, `Cas` = `Arc<CasInner>`):
    * `open` opens the file LOCK (`OpenOptions … open`) — a NEW open file description (`start`),
    * calls `File::try_lock` on it = `flock(LOCK_EX | LOCK_NB)` (`tryLock`): refused ⇒ the `File`
      is dropped and `AlreadyOpened` returned; granted ⇒ the rest of `open` runs,
    * the rest of `open` either fails (`fail`: settings gate, I/O error, integrity gate — the
      `File` is dropped with the half-built handle) or returns the handle (`succeed`), one strong
      reference, or two when the orphan statistics (which own a clone of the inner handle) are
      returned as well,
    * `Cas::clone` / dropping a clone or the statistics (`clone`, `drop`): the `File` is closed
      when the LAST reference goes,
    * a process dies (`die`): the kernel closes every descriptor it had.
  The kernel's part — assumed, and exercised by the correspondence slice `c11p`: an exclusive
  `flock` is granted iff no OTHER open file description holds one on the file (also inside one
  process); it is released when the description is closed; a dead process's descriptions are
  closed.  `dup`/`fork` sharing of a description does not occur in the code.
-/
namespace CasModel.Lock

/-- where one call of `open` (and the handle it may return) stands -/
inductive St where
  | opening            -- LOCK opened, `try_lock` not yet called
  | holding            -- `try_lock` granted, `open` still running
  | live (refs : Nat)  -- handle returned; `refs` strong references to the inner handle
  deriving DecidableEq, Repr

structure Ent where
  proc : Nat
  st : St
  deriving DecidableEq, Repr

/-- open file descriptions of LOCK are numbered in creation order -/
structure State where
  next : Nat := 0
  /-- the description holding the exclusive flock -/
  holder : Option Nat := none
  ents : Nat → Option Ent := fun _ => none

inductive Step where
  | start (p : Nat)
  | tryLock (o : Nat)
  | fail (o : Nat)
  | succeed (o : Nat) (stats : Bool)
  | clone (o : Nat)
  | drop (o : Nat)
  | die (p : Nat)
  deriving DecidableEq, Repr

inductive Out where
  | opened (o : Nat)
  | granted
  | refused            -- `LibError::AlreadyOpened`
  | ok
  | noop               -- the step does not apply in this state
  deriving DecidableEq, Repr

/-- the kernel closes description `o` -/
def State.close (s : State) (o : Nat) : State :=
  { s with ents := fun x => if x = o then none else s.ents x,
           holder := if s.holder = some o then none else s.holder }

def step (s : State) : Step → State × Out
  | .start p =>
    ({ s with next := s.next + 1,
              ents := fun x => if x = s.next then some ⟨p, .opening⟩ else s.ents x }, .opened s.next)
  | .tryLock o =>
    match s.ents o with
    | some ⟨p, .opening⟩ =>
      match s.holder with
      | none => ({ s with holder := some o,
                          ents := fun x => if x = o then some ⟨p, .holding⟩ else s.ents x }, .granted)
      | some _ => (s.close o, .refused)
    | _ => (s, .noop)
  | .fail o =>
    match s.ents o with
    | some ⟨_, .holding⟩ => (s.close o, .ok)
    | _ => (s, .noop)
  | .succeed o stats =>
    match s.ents o with
    | some ⟨p, .holding⟩ =>
      ({ s with ents := fun x => if x = o then some ⟨p, .live (if stats then 2 else 1)⟩ else s.ents x }, .ok)
    | _ => (s, .noop)
  | .clone o =>
    match s.ents o with
    | some ⟨p, .live n⟩ =>
      ({ s with ents := fun x => if x = o then some ⟨p, .live (n + 1)⟩ else s.ents x }, .ok)
    | _ => (s, .noop)
  | .drop o =>
    match s.ents o with
    | some ⟨p, .live n⟩ =>
      if n ≤ 1 then (s.close o, .ok)
      else ({ s with ents := fun x => if x = o then some ⟨p, .live (n - 1)⟩ else s.ents x }, .ok)
    | _ => (s, .noop)
  | .die p =>
    ({ s with ents := fun x => match s.ents x with
                               | some e => if e.proc = p then none else some e
                               | none => none,
              holder := match s.holder with
                        | some o => (match s.ents o with
                                     | some e => if e.proc = p then none else some o
                                     | none => some o)
                        | none => none }, .ok)

def run (s : State) (l : List Step) : State := l.foldl (fun s x => (step s x).1) s

/-- a description that has been granted the lock: an `open` past `try_lock`, or a live handle -/
def St.owns : St → Bool
  | .opening => false
  | _ => true

/-- one whole call of `open` by process `p`, as the correspondence slice drives it (the real
    code cannot be stopped between the calls without a hook): `good` = the rest of `open`
    succeeds once the lock is granted -/
def openCall (s : State) (p : Nat) (good stats : Bool) : State × Out :=
  let o := s.next
  let s1 := (step s (.start p)).1
  match step s1 (.tryLock o) with
  | (s2, .granted) =>
    if good then ((step s2 (.succeed o stats)).1, .granted) else ((step s2 (.fail o)).1, .ok)
  | (s2, r) => (s2, r)

/-- the live handles, as description numbers (for the driver) -/
def State.liveList (s : State) : List Nat :=
  (List.range s.next).filter (fun o => match s.ents o with | some ⟨_, .live _⟩ => true | _ => false)

def State.refs (s : State) (o : Nat) : Option Nat :=
  match s.ents o with
  | some ⟨_, .live n⟩ => some n
  | _ => none

end CasModel.Lock
