import CasModel.Sim
/-
  Fault: what each operation does when its (k+1)-th counted filesystem call fails with an error
  and no side effect (EIO/ENOSPC model of property C14).  The functions take the fault-free
  script of the operation, cut it at the failing event and append what the error paths of the
  real code do: `?` propagation, `Drop` of the transaction (unlink of the staging file),
  `BufWriter`'s retry-on-drop and retention of unflushed bytes, the version consumed by a failed
  append, the in-memory `last_persisted_version` set before a failed snapshot, ignored prune errors,
  and (F4 repair) the protection kept for the blob of a put whose append failed.
  Sources: src/transaction.rs, src/index/manager.rs, src/wal/{manager,storage}.rs, src/io.rs,
  std::io::BufWriter.
-/
namespace CasModel

/-- split a script at its (k+1)-th counted event: events before it, the event, events after -/
def splitAtCounted : Nat → List Ev → List Ev × Option Ev × List Ev
  | _, [] => ([], none, [])
  | k, e :: es =>
    if counted e then
      match k with
      | 0 => ([], some e, es)
      | k+1 => let r := splitAtCounted k es; (e :: r.1, r.2.1, r.2.2)
    else let r := splitAtCounted k es; (e :: r.1, r.2.1, r.2.2)

inductive FaultRes where
  | completed            -- the armed call index was not reached
  | err                  -- the operation returned an error
  | okDespite            -- the failure was swallowed (prune errors, close)
  deriving DecidableEq, Repr

/-- `BufWriter::write_all(data)` followed by `flush()` with `buf` already retained:
    the write(2) calls issued (capacity 8192) -/
def bufWrites (buf data : Bytes) : List Bytes :=
  if buf.isEmpty then [data]
  else if data.length ≤ 8192 - buf.length then [buf ++ data]
  else [buf, data]

def putHash : Op Bytes → List Bytes
  | .put _ h _ => [h]
  | .remove _ => []

/-- memory after the WAL step of `logAndApply` (before any rollover checkpoint) -/
def memAfterApply (m : Mem) (op : Op Bytes) : Mem :=
  match applyOp m.cfg.kind.lt m.idx op with
  | .error _ => m
  | .ok (idx', _) =>
    { m with idx := idx', next := m.next + 1, active := some (segOf m.cfg.N m.next), walBuf := [] }

/-- `logAndApply` when the segment writer still holds bytes of an earlier, failed flush:
    same as `Store.logAndApply` except for the write(2) calls of the seal and of the record -/
def logAndApplyBuf (H : Bytes → Bytes) (m : Mem) (d : Disk) (op : Op Bytes) (raw : RawOp) :
    Except IdxPanic (List Ev × Mem) :=
  let preSeg := if m.next > 1 then segOf m.cfg.N (m.next - 1) else 0
  let ver := m.next
  let target := segOf m.cfg.N ver
  let sameSeg := m.active = some target
  let roll : List Ev :=
    if sameSeg then []
    else (match m.active with
          | some old => (bufWrites m.walBuf sentinel).map (fun b => Ev.write (.seg old) b) ++ [Ev.sync (.seg old)]
          | none => []) ++ [Ev.creat (.seg target) false]
  let buf := if sameSeg then m.walBuf else []
  let rec_ := encodeEntry H ⟨ver, serWalOp raw⟩
  let append := (bufWrites buf rec_).map (fun b => Ev.write (.seg target) b) ++ [Ev.sync (.seg target)]
  match applyOp m.cfg.kind.lt m.idx op with
  | .error p => .error p
  | .ok (idx', unref) =>
    let d1 := d.applyAll (roll ++ append)
    let dels := ((unref.filter (fun h => !m.protectedFailed.contains h)).filter
                  (fun h => d1.has (.cas h))).map (fun h => Ev.unlink (.cas h))
    let m1 := { m with idx := idx', next := ver + 1, active := some target, walBuf := [] }
    let d2 := d1.applyAll dels
    let ck := if preSeg ≠ target then checkpointScript .rollover m1 d2 else ([], m1)
    .ok (roll ++ append ++ dels ++ ck.1, ck.2)

/-- the log-and-apply part used by the driver: the proven fault-free function unless an earlier
    fault left state behind -/
def logAndApplyAny (H : Bytes → Bytes) (m : Mem) (d : Disk) (op : Op Bytes) (raw : RawOp) :
    Except IdxPanic (List Ev × Mem) :=
  if m.walBuf.isEmpty ∧ m.protectedFailed.isEmpty then logAndApply H m d op raw
  else logAndApplyBuf H m d op raw

/-- fault at event `e` inside the log-and-apply part (`pre` = its events before `e`) -/
def faultLogAndApply (H : Bytes → Bytes) (m : Mem) (op : Op Bytes) (raw : RawOp)
    (pre : List Ev) (e : Ev) : List Ev × Mem × FaultRes :=
  let target := segOf m.cfg.N m.next
  let rec_ := encodeEntry H ⟨m.next, serWalOp raw⟩
  let isRecWrite (x : Ev) : Bool := match x with
    | .write (.seg j) bs => j == target && (bs == rec_ || bs == m.walBuf ++ rec_)
    | _ => false
  let recWritten := pre.any isRecWrite
  let failedAppend (active : Option Nat) (buf : Bytes) : Mem :=
    { m with next := m.next + 1, active := active, walBuf := buf,
             protectedFailed := m.protectedFailed ++ putHash op }
  match e with
  | .write (.seg j) bs =>
    if j == target && (bs == rec_ || bs == m.walBuf ++ rec_ ||
                       (m.active == some target && bs == m.walBuf && !m.walBuf.isEmpty)) then
      -- the record's flush failed: whatever was in the BufWriter stays there, and a small entry
      -- joins it (a large one went straight to the file and is lost)
      let before := if m.active == some target then m.walBuf else []
      let flushedFirst := pre.any (fun x => x == Ev.write (.seg target) before) && !before.isEmpty
      let kept := if flushedFirst then [] else before
      let retained := if bs == before && !before.isEmpty then before ++ (if rec_.length < 8192 then rec_ else [])
                      else if rec_.length < 8192 then kept ++ rec_ else kept
      (pre, failedAppend (some target) retained, .err)
    else
      -- the seal of the old segment: `into_inner`'s flush failed; the BufWriter, dropped with the
      -- error, flushes once more — successfully — but the segment is never synced
      (pre ++ [Ev.write (.seg j) bs], failedAppend none [], .err)
  | .sync (.seg _) =>
    if recWritten then (pre, failedAppend (some target) [], .err)
    else (pre, failedAppend none [], .err)      -- sync of the sealed segment
  | .creat (.seg _) _ => (pre, failedAppend none [], .err)
  | .unlink (.cas _) =>
    -- delete_fn failed: logged and applied already; the rollover checkpoint is skipped
    (pre, memAfterApply m op, .err)
  | .creat .indexTmp _ | .write .indexTmp _ | .sync .indexTmp | .rename .indexTmp .index =>
    -- rollover snapshot failed: `last_persisted_version` was already set in memory
    let m1 := memAfterApply m op
    (pre, { m1 with idx := { m1.idx with lastPersisted := m1.next - 1 } }, .err)
  | .unlink (.seg _) =>
    -- prune errors are ignored; the loop stops at the first one
    let m1 := memAfterApply m op
    let bytes := serIndex (entriesOf m1.idx.map) (m1.next - 1)
    (pre, { m1 with idx := { m1.idx with lastPersisted := m1.next - 1, serializedSize := bytes.length } },
     .okDespite)
  | _ => (pre ++ [e], m, .completed)

structure FaultOut where
  events : List Ev          -- what actually happened on disk (the failed call excluded)
  mem : Option Mem          -- memory afterwards (none: no handle)
  res : FaultRes
  attempts : Nat            -- counted calls attempted, the failed one included
  deriving Repr

/-- a put whose fault-free script is `head ++ tailEvs` (`head` = staging, mkdirs and the rename;
    `tailEvs` = the log-and-apply part), with its (k+1)-th counted call failing -/
def faultPutCore (H : Bytes → Bytes) (m m' : Mem) (op : Op Bytes) (t : Nat)
    (head tailEvs : List Ev) (k : Nat) : FaultOut :=
  let all := head ++ tailEvs
  let sp := splitAtCounted k all
  match sp.2.1 with
  | none => ⟨all, some m', .completed, countedCount all⟩
  | some e =>
    if k < countedCount head then
      -- before the blob is in place: error out; dropping the transaction unlinks the staging file
      let pre := sp.1
      let cleanup := if pre.any (fun x => x == Ev.creat (.staging t) true) then [Ev.unlink (.staging t)] else []
      ⟨pre ++ cleanup, some m, .err, countedCount pre + 1 + countedCount cleanup⟩
    else
      let preTail := sp.1.drop head.length
      let r := faultLogAndApply H m op (match op with | .put k h s => .put k h s | .remove ks => .remove ks) preTail e
      ⟨head ++ r.1, some r.2.1, r.2.2,
       countedCount (head ++ preTail) + 1 + (countedCount r.1 - countedCount preTail)⟩

/-- a whole put under a fault at its (k+1)-th counted call -/
def faultPut (H : Bytes → Bytes) (m : Mem) (d : Disk) (t : Nat) (key : Bytes) (chunks : List Bytes)
    (k : Nat) : FaultOut :=
  let content := chunks.flatten
  let h := H content
  let size := (chunks.map List.length).sum
  let head := beginScript t ++ [Ev.write (.staging t) content] ++
              (if m.cfg.sync then [Ev.sync (.staging t)] else []) ++
              (if m.preCreated then [] else mkdirsFor (d.applyAll (beginScript t)) h) ++
              [Ev.rename (.staging t) (.cas h)]
  match logAndApplyAny H m (d.applyAll head) (.put key h size) (.put key h size) with
  | .error _ => ⟨head, some m, .err, countedCount head⟩
  | .ok (tailEvs, m') => faultPutCore H m m' (.put key h size) t head tailEvs k

/-- remove / remove_range (after the scan found `keys`, non-empty) under a fault -/
def faultRemove (H : Bytes → Bytes) (m : Mem) (d : Disk) (keys : List Bytes) (k : Nat) : FaultOut :=
  match logAndApplyAny H m d (.remove keys) (.remove keys) with
  | .error _ => ⟨[], some m, .err, 0⟩
  | .ok (all, m') =>
    let sp := splitAtCounted k all
    match sp.2.1 with
    | none => ⟨all, some m', .completed, countedCount all⟩
    | some e =>
      let (evs, m2, r) := faultLogAndApply H m (.remove keys) (.remove keys) sp.1 e
      ⟨evs, some m2, r, countedCount sp.1 + 1 + (countedCount evs - countedCount sp.1)⟩

/-- explicit checkpoint under a fault -/
def faultCheckpoint (m : Mem) (d : Disk) (k : Nat) : FaultOut :=
  let (all, m') := checkpointScript .explicit m d
  let sp := splitAtCounted k all
  match sp.2.1 with
  | none => ⟨all, some m', .completed, countedCount all⟩
  | some (.unlink (.seg _)) => ⟨sp.1, some m', .okDespite, countedCount sp.1 + 1⟩
  | some _ =>
    ⟨sp.1, some { m with idx := { m.idx with lastPersisted := m.next - 1 } }, .err, countedCount sp.1 + 1⟩

/-- dropping the handle under a fault: errors of the final flush/sync are only logged -/
def faultClose (m : Mem) (k : Nat) : FaultOut :=
  let all := (if m.walBuf.isEmpty then [] else
                match m.active with | some i => [Ev.write (.seg i) m.walBuf] | none => []) ++ closeScript m
  let sp := splitAtCounted k all
  match sp.2.1 with
  | none => ⟨all, none, .completed, countedCount all⟩
  | some (.write (.seg i) bs) =>
    -- `into_inner` failed: the dropped BufWriter flushes again, successfully; no sync follows
    ⟨sp.1 ++ [Ev.write (.seg i) bs], none, .okDespite, countedCount sp.1 + 2⟩
  | some _ => ⟨sp.1, none, .okDespite, countedCount sp.1 + 1⟩

/-- open under a fault: every call is on a `?` path except the prunes of the after-replay checkpoint -/
def faultOpen (H : Bytes → Bytes) (cfg : Config) (d : Disk) (k : Nat) :
    FaultOut × Option (Except OpenErr (Mem × ScanOut)) :=
  let (all, r) := openScript H cfg d false
  let sp := splitAtCounted k all
  match sp.2.1 with
  | none => (⟨all, none, .completed, countedCount all⟩, some r)
  | some (.unlink (.seg _)) =>
    (⟨sp.1, none, .okDespite, countedCount sp.1 + 1⟩, some r)
  | some _ => (⟨sp.1, none, .err, countedCount sp.1 + 1⟩, none)

end CasModel
