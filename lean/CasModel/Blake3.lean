/-
  Pure Lean 4 implementation of BLAKE3 (default hash mode, 32-byte digest).

  Core only (no Mathlib, no Std imports).  All functions are total
  (structural recursion / bounded `for` loops); nothing is `partial`,
  `unsafe` or `implemented_by`.

  Follows the BLAKE3 reference implementation (`reference_impl.rs`):
  * `compress` is the 7-round compression function,
  * `chunkCV` chains the (up to 16) 64-byte blocks of a 1024-byte chunk,
  * `pushCV` / `finalizeStack` are the "lazy merge by trailing zero bits of
    the chunk counter" CV-stack algorithm building the binary tree.

  Validated against the Rust `blake3` crate (1.8.7) by `tests/Blake3Test.lean`.
-/

namespace CasModel.Blake3

/-- A chaining value / 8 little-endian words. -/
abbrev Words := Array UInt32

def IV : Words :=
  #[0x6A09E667, 0xBB67AE85, 0x3C6EF372, 0xA54FF53A,
    0x510E527F, 0x9B05688C, 0x1F83D9AB, 0x5BE0CD19]

def MSG_PERMUTATION : Array Nat :=
  #[2, 6, 3, 10, 7, 0, 4, 13, 1, 11, 12, 5, 9, 14, 15, 8]

def CHUNK_START : UInt32 := 1
def CHUNK_END   : UInt32 := 2
def PARENT      : UInt32 := 4
def ROOT        : UInt32 := 8

def BLOCK_LEN : Nat := 64
def CHUNK_LEN : Nat := 1024

/-- Rotate right; only used with `0 < n < 32`. -/
@[inline] def rotr (x : UInt32) (n : UInt32) : UInt32 :=
  (x >>> n) ||| (x <<< (32 - n))

/-- The quarter-round / mixing function `g`. -/
@[inline] def g (s : Words) (a b c d : Nat) (mx my : UInt32) : Words :=
  let va := s[a]!; let vb := s[b]!; let vc := s[c]!; let vd := s[d]!
  let va := va + vb + mx
  let vd := rotr (vd ^^^ va) 16
  let vc := vc + vd
  let vb := rotr (vb ^^^ vc) 12
  let va := va + vb + my
  let vd := rotr (vd ^^^ va) 8
  let vc := vc + vd
  let vb := rotr (vb ^^^ vc) 7
  (((s.set! a va).set! b vb).set! c vc).set! d vd

/-- One full round: 4 column mixes then 4 diagonal mixes. -/
def round (s : Words) (m : Words) : Words :=
  let s := g s 0 4 8  12 m[0]!  m[1]!
  let s := g s 1 5 9  13 m[2]!  m[3]!
  let s := g s 2 6 10 14 m[4]!  m[5]!
  let s := g s 3 7 11 15 m[6]!  m[7]!
  let s := g s 0 5 10 15 m[8]!  m[9]!
  let s := g s 1 6 11 12 m[10]! m[11]!
  let s := g s 2 7 8  13 m[12]! m[13]!
  let s := g s 3 4 9  14 m[14]! m[15]!
  s

/-- Apply `MSG_PERMUTATION` to the 16 message words. -/
def permute (m : Words) : Words :=
  MSG_PERMUTATION.map fun i => m[i]!

/-- The BLAKE3 compression function, truncated to the first 8 output words
    (all that is needed for chaining values and for a 32-byte root output). -/
def compress (cv : Words) (m : Words) (counter : UInt64) (blockLen flags : UInt32) : Words :=
  let s : Words :=
    #[cv[0]!, cv[1]!, cv[2]!, cv[3]!, cv[4]!, cv[5]!, cv[6]!, cv[7]!,
      IV[0]!, IV[1]!, IV[2]!, IV[3]!,
      counter.toUInt32, (counter >>> 32).toUInt32, blockLen, flags]
  let s := round s m; let m := permute m   -- 1
  let s := round s m; let m := permute m   -- 2
  let s := round s m; let m := permute m   -- 3
  let s := round s m; let m := permute m   -- 4
  let s := round s m; let m := permute m   -- 5
  let s := round s m; let m := permute m   -- 6
  let s := round s m                       -- 7
  #[s[0]! ^^^ s[8]!,  s[1]! ^^^ s[9]!,  s[2]! ^^^ s[10]!, s[3]! ^^^ s[11]!,
    s[4]! ^^^ s[12]!, s[5]! ^^^ s[13]!, s[6]! ^^^ s[14]!, s[7]! ^^^ s[15]!]

/-- Byte `i` of `b` as a word, or `0` if `i ≥ lim` (zero padding). -/
@[inline] def byteOrZero (b : ByteArray) (i lim : Nat) : UInt32 :=
  if i < lim then (b.get! i).toUInt32 else 0

/-- Little-endian word at byte offset `i`, zero-padded beyond `lim`. -/
@[inline] def wordAt (b : ByteArray) (i lim : Nat) : UInt32 :=
  byteOrZero b i lim
    ||| (byteOrZero b (i + 1) lim <<< 8)
    ||| (byteOrZero b (i + 2) lim <<< 16)
    ||| (byteOrZero b (i + 3) lim <<< 24)

/-- The 16 message words of the 64-byte block starting at `off`,
    zero-padded from byte offset `lim` on. -/
def blockWords (b : ByteArray) (off lim : Nat) : Words :=
  #[wordAt b off lim,        wordAt b (off + 4) lim,  wordAt b (off + 8) lim,  wordAt b (off + 12) lim,
    wordAt b (off + 16) lim, wordAt b (off + 20) lim, wordAt b (off + 24) lim, wordAt b (off + 28) lim,
    wordAt b (off + 32) lim, wordAt b (off + 36) lim, wordAt b (off + 40) lim, wordAt b (off + 44) lim,
    wordAt b (off + 48) lim, wordAt b (off + 52) lim, wordAt b (off + 56) lim, wordAt b (off + 60) lim]

/-- Chaining value (or, with `rootFlag = ROOT`, the root output words) of the
    chunk `input[start, start+len)`, `len ≤ 1024`, with chunk counter `counter`.
    An empty chunk (only possible for the empty input) is one empty block. -/
def chunkCV (input : ByteArray) (start len : Nat) (counter : UInt64) (rootFlag : UInt32) : Words :=
  Id.run do
    let lim := start + len
    let nBlocks := if len == 0 then 1 else (len + BLOCK_LEN - 1) / BLOCK_LEN
    let mut cv := IV
    for j in [0:nBlocks] do
      let off := start + j * BLOCK_LEN
      let blen := if lim - off < BLOCK_LEN then lim - off else BLOCK_LEN
      let f0 := if j == 0 then CHUNK_START else 0
      let f1 := if j + 1 == nBlocks then CHUNK_END ||| rootFlag else 0
      cv := compress cv (blockWords input off lim) counter blen.toUInt32 (f0 ||| f1)
    return cv

/-- Chaining value (or root output words, with `rootFlag = ROOT`) of a parent node. -/
def parentCV (l r : Words) (rootFlag : UInt32) : Words :=
  let m : Words :=
    #[l[0]!, l[1]!, l[2]!, l[3]!, l[4]!, l[5]!, l[6]!, l[7]!,
      r[0]!, r[1]!, r[2]!, r[3]!, r[4]!, r[5]!, r[6]!, r[7]!]
  compress IV m 0 BLOCK_LEN.toUInt32 (PARENT ||| rootFlag)

/-- Push the CV of a completed (non-final) chunk on the subtree stack
    (head = top).  `total` is the number of chunks completed *including* this
    one; for every trailing zero bit of `total` a completed subtree is merged. -/
def pushCV : List Words → Words → Nat → List Words
  | [], cv, _ => [cv]
  | l :: rest, cv, total =>
    if total % 2 == 0 then pushCV rest (parentCV l cv 0) (total / 2)
    else cv :: l :: rest

/-- Merge the final chunk's CV with every subtree on the stack, right to left;
    the last merge is the root. -/
def finalizeStack : List Words → Words → Words
  | [], cv => cv                       -- unreachable: stack is non-empty for ≥ 2 chunks
  | [l], cv => parentCV l cv ROOT
  | l :: rest, cv => finalizeStack rest (parentCV l cv 0)

/-- The 8 root output words of BLAKE3(input). -/
def rootWords (input : ByteArray) : Words :=
  let n := input.size
  if n ≤ CHUNK_LEN then
    chunkCV input 0 n 0 ROOT
  else Id.run do
    let nChunks := (n + CHUNK_LEN - 1) / CHUNK_LEN      -- ≥ 2
    let mut stack : List Words := []
    for i in [0:nChunks - 1] do
      let cv := chunkCV input (i * CHUNK_LEN) CHUNK_LEN i.toUInt64 0
      stack := pushCV stack cv (i + 1)
    let last := nChunks - 1
    let cv := chunkCV input (last * CHUNK_LEN) (n - last * CHUNK_LEN) last.toUInt64 0
    return finalizeStack stack cv

/-- Serialize words little-endian. -/
def wordsToBytes (ws : Words) : ByteArray :=
  ws.foldl (init := ByteArray.emptyWithCapacity (4 * ws.size)) fun (acc : ByteArray) (w : UInt32) =>
    (((acc.push w.toUInt8).push (w >>> 8).toUInt8).push (w >>> 16).toUInt8).push (w >>> 24).toUInt8

/-- BLAKE3 (hash mode, 32-byte digest) of a byte array. -/
def hash (input : ByteArray) : ByteArray :=
  wordsToBytes (rootWords input)

/-- BLAKE3 (hash mode, 32-byte digest), list interface. -/
def hashList (input : List UInt8) : List UInt8 :=
  (hash ⟨input.toArray⟩).toList

/-- Lower-case hex rendering of a byte array (for digests). -/
def toHex (b : ByteArray) : String :=
  let hexDigit (n : UInt8) : Char :=
    if n < 10 then Char.ofNat (48 + n.toNat) else Char.ofNat (87 + n.toNat)
  String.ofList (b.toList.flatMap fun (x : UInt8) => [hexDigit (x >>> 4), hexDigit (x &&& 0xF)])

end CasModel.Blake3
