import CasModel.Bytes
/-
  Fs: the filesystem semantics the store relies on (ASSUMED, see DESIGN §9), restricted to the
  names the store uses. A file is (data, synced) where `synced` is the length of the prefix made
  durable by the last fsync/fdatasync; directory operations (create, rename, unlink) are taken to
  be durable in issue order (the loss model of property C09).
-/
namespace CasModel

inductive FileId where
  | lock
  | settings
  | settingsTmp
  | index
  | indexTmp
  | seg (id : Nat)
  | cas (hash : Bytes)          -- cas/<hh>/<hh>/<rest>, canonical path of `hash`
  | staging (n : Nat)           -- staging/<n-th temp file created>
  | stray (path : List Bytes)   -- any other regular file below cas/ (planted garbage), by components
  deriving DecidableEq, Repr

structure File where
  data : Bytes
  synced : Nat
  deriving DecidableEq, Repr

inductive Ev where
  | mkdir (path : List Bytes)            -- components below the db root
  | mkdirTree                            -- the 256 + 65 536 mkdirs of `pre_create_all_cas_directories`
  | creat (f : FileId) (trunc : Bool)    -- successful open with O_CREAT (and O_TRUNC / O_EXCL)
  | write (f : FileId) (bs : Bytes)      -- append (all store writes are sequential appends)
  | sync (f : FileId)                    -- fsync / fdatasync
  | rename (a b : FileId)                -- atomic, replaces `b`
  | unlink (f : FileId)
  | flock                                -- successful flock(LOCK_EX|LOCK_NB) on LOCK
  deriving DecidableEq, Repr

structure Disk where
  files : List (FileId × File) := []
  dirs : List (List Bytes) := []         -- directories that exist (below the root)
  preTree : Bool := false                -- the whole cas/<hh>/<hh> tree exists
  deriving Repr

def fget (fs : List (FileId × File)) (f : FileId) : Option File :=
  match fs with
  | [] => none
  | (g, x) :: r => if g = f then some x else fget r f

def fdel (fs : List (FileId × File)) (f : FileId) : List (FileId × File) :=
  match fs with
  | [] => []
  | (g, x) :: r => if g = f then r else (g, x) :: fdel r f

def fset (fs : List (FileId × File)) (f : FileId) (x : File) : List (FileId × File) :=
  match fs with
  | [] => [(f, x)]
  | (g, y) :: r => if g = f then (f, x) :: r else (g, y) :: fset r f x

def Disk.get (d : Disk) (f : FileId) : Option File := fget d.files f
def Disk.has (d : Disk) (f : FileId) : Bool := (fget d.files f).isSome

/-- effect of one successful mutating call -/
def Disk.apply (d : Disk) : Ev → Disk
  | .mkdir p => if d.dirs.contains p then d else { d with dirs := d.dirs ++ [p] }
  | .mkdirTree => { d with preTree := true }
  | .creat f trunc =>
    match d.get f with
    | none => { d with files := fset d.files f ⟨[], 0⟩ }
    | some _ => if trunc then { d with files := fset d.files f ⟨[], 0⟩ } else d
  | .write f bs =>
    match d.get f with
    | none => d        -- (never: every write follows an open of that name)
    | some x => { d with files := fset d.files f { x with data := x.data ++ bs } }
  | .sync f =>
    match d.get f with
    | none => d
    | some x => { d with files := fset d.files f { x with synced := x.data.length } }
  | .rename a b =>
    match d.get a with
    | none => d
    | some x => { d with files := fset (fdel d.files a) b x }
  | .unlink f => { d with files := fdel d.files f }
  | .flock => d

def Disk.applyAll (d : Disk) (evs : List Ev) : Disk := evs.foldl Disk.apply d

/-- power-loss image (C09): every file in `lose` keeps only its synced prefix -/
def Disk.powerLoss (d : Disk) (lose : FileId → Bool) : Disk :=
  { d with files := d.files.map (fun (f, x) =>
      if lose f then (f, { x with data := x.data.take x.synced }) else (f, x)) }

/-- once the machine is back up, what is on the disk IS durable: the bytes that happened to survive
    a power loss cannot be lost by the next one -/
def Disk.settle (d : Disk) : Disk :=
  { d with files := d.files.map (fun (p : FileId × File) => (p.1, { p.2 with synced := p.2.data.length })) }

/-- the image the next `open` finds after a power loss in which the files in `lose` kept only their
    synced prefix (C09: every choice of `lose`) -/
def Disk.reboot (d : Disk) (lose : FileId → Bool) : Disk := (d.powerLoss lose).settle

end CasModel
