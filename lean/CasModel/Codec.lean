import CasModel.Bytes
/-
  Codec: model of src/serialization.rs (serialize_/deserialize_wal_op_raw,
  serialize_/deserialize_index_state and the `read_*`/`take_bytes` helpers).
  Decoders return the same three error classes as `SerializationError`.
  Like the Rust decoders they do NOT demand that the whole input is consumed.
-/
namespace CasModel

inductive DecErr where
  | eof           -- SerializationError::UnexpectedEof (only `read_u8`)
  | insufficient  -- SerializationError::InsufficientData (`take_bytes`)
  | badTag        -- SerializationError::InvalidVariantTag
  deriving DecidableEq, Repr

/-- `take_bytes`: `split_at_checked(len)`. -/
def takeBytes (n : Nat) (bs : Bytes) : Except DecErr (Bytes × Bytes) :=
  if n ≤ bs.length then .ok (bs.take n, bs.drop n) else .error .insufficient

def readU8 : Bytes → Except DecErr (UInt8 × Bytes)
  | [] => .error .eof
  | b :: r => .ok (b, r)

def readU32 (bs : Bytes) : Except DecErr (Nat × Bytes) :=
  match takeBytes 4 bs with
  | .error e => .error e
  | .ok (h, r) => .ok (leNat h, r)

def readU64 (bs : Bytes) : Except DecErr (Nat × Bytes) :=
  match takeBytes 8 bs with
  | .error e => .error e
  | .ok (h, r) => .ok (leNat h, r)

/-- `read_bytes_with_len`: u32 length, then that many bytes (copied). -/
def readLenBytes (bs : Bytes) : Except DecErr (Bytes × Bytes) :=
  match readU32 bs with
  | .error e => .error e
  | .ok (n, r) => takeBytes n r

/-- `WalOpRaw` -/
inductive RawOp where
  | put (key : Bytes) (hash : Bytes) (size : Nat)
  | remove (keys : List Bytes)
  deriving DecidableEq, Repr

def serKey (k : Bytes) : Bytes := leBytes 4 k.length ++ k

def serKeys : List Bytes → Bytes
  | [] => []
  | k :: ks => serKey k ++ serKeys ks

/-- `serialize_wal_op_raw` (lengths go through `as u32`, sizes are u64). -/
def serWalOp : RawOp → Bytes
  | .put k h s => 0 :: (serKey k ++ (h ++ leBytes 8 s))
  | .remove ks => 1 :: (leBytes 4 ks.length ++ serKeys ks)

def readKeys : Nat → Bytes → Except DecErr (List Bytes × Bytes)
  | 0, bs => .ok ([], bs)
  | n+1, bs =>
    match readLenBytes bs with
    | .error e => .error e
    | .ok (k, r) =>
      match readKeys n r with
      | .error e => .error e
      | .ok (ks, r') => .ok (k :: ks, r')

/-- `deserialize_wal_op_raw` -/
def deserWalOp (bs : Bytes) : Except DecErr RawOp :=
  match readU8 bs with
  | .error e => .error e
  | .ok (tag, r) =>
    if tag = 0 then
      match readLenBytes r with
      | .error e => .error e
      | .ok (k, r1) =>
        match takeBytes 32 r1 with
        | .error e => .error e
        | .ok (h, r2) =>
          match readU64 r2 with
          | .error e => .error e
          | .ok (s, _) => .ok (.put k h s)
    else if tag = 1 then
      match readU32 r with
      | .error e => .error e
      | .ok (n, r1) =>
        match readKeys n r1 with
        | .error e => .error e
        | .ok (ks, _) => .ok (.remove ks)
    else .error .badTag

/-- one snapshot entry: key bytes, 32-byte hash, blob size -/
structure Entry where
  key : Bytes
  hash : Bytes
  size : Nat
  deriving DecidableEq, Repr

def serEntry (e : Entry) : Bytes := serKey e.key ++ (e.hash ++ leBytes 8 e.size)

def serEntries : List Entry → Bytes
  | [] => []
  | e :: es => serEntry e ++ serEntries es

/-- `serialize_index_state`: `[u64 ver][u32 n]{[u32 klen][key][hash][u64 size]}*`.
    `ver = 0` encodes `None`. -/
def serIndex (es : List Entry) (ver : Nat) : Bytes :=
  leBytes 8 ver ++ (leBytes 4 es.length ++ serEntries es)

def readEntries : Nat → Bytes → Except DecErr (List Entry × Bytes)
  | 0, bs => .ok ([], bs)
  | n+1, bs =>
    match readLenBytes bs with
    | .error e => .error e
    | .ok (k, r1) =>
      match takeBytes 32 r1 with
      | .error e => .error e
      | .ok (h, r2) =>
        match readU64 r2 with
        | .error e => .error e
        | .ok (s, r3) =>
          match readEntries n r3 with
          | .error e => .error e
          | .ok (es, r') => .ok (⟨k, h, s⟩ :: es, r')

/-- `deserialize_index_state`, before the entries are inserted into the `BTreeMap<Vec<u8>,_>`
    (file order is kept here; `Index.loadEntries` performs the inserts). -/
def deserIndex (bs : Bytes) : Except DecErr (List Entry × Nat) :=
  match readU64 bs with
  | .error e => .error e
  | .ok (ver, r) =>
    match readU32 r with
    | .error e => .error e
    | .ok (n, r1) =>
      match readEntries n r1 with
      | .error e => .error e
      | .ok (es, _) => .ok (es, ver)

/-! ### Well-formedness (the `as u32` / u64 guards) -/

def KeyWF (k : Bytes) : Prop := k.length < U32
def EntryWF (e : Entry) : Prop := KeyWF e.key ∧ e.hash.length = 32 ∧ e.size < U64

def RawOp.WF : RawOp → Prop
  | .put k h s => KeyWF k ∧ h.length = 32 ∧ s < U64
  | .remove ks => ks.length < U32 ∧ ∀ k ∈ ks, KeyWF k

end CasModel
