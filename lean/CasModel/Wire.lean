import CasModel.Bytes
/-
  Wire: text encoding used by the line protocol between the Rust harness and the model driver.
  bytes = lower-case hex, "-" for the empty string; lists are comma-separated, "_" = empty list.
  This is I/O shell (trusted as part of the correspondence check), not part of the model.
-/
namespace CasModel.Wire
open CasModel

def hexChar (n : Nat) : Char :=
  if n < 10 then Char.ofNat (48 + n) else Char.ofNat (87 + n)

def toHexString (bs : Bytes) : String :=
  if bs.isEmpty then "-" else
  String.ofList (bs.foldr (fun b acc => hexChar (b.toNat / 16) :: hexChar (b.toNat % 16) :: acc) [])

def hexVal (c : Char) : Option Nat :=
  let n := c.toNat
  if 48 ≤ n ∧ n ≤ 57 then some (n - 48)
  else if 97 ≤ n ∧ n ≤ 102 then some (n - 87)
  else none

def parseHexChars : List Char → Option Bytes
  | [] => some []
  | [_] => none
  | a :: b :: rest =>
    match hexVal a, hexVal b, parseHexChars rest with
    | some x, some y, some bs => some (UInt8.ofNat (x * 16 + y) :: bs)
    | _, _, _ => none

def parseHex (s : String) : Option Bytes :=
  if s = "-" then some [] else parseHexChars s.toList

def parseList {α} (p : String → Option α) (s : String) : Option (List α) :=
  if s = "_" then some [] else (s.splitOn ",").mapM p

def showList {α} (f : α → String) (l : List α) : String :=
  if l.isEmpty then "_" else ",".intercalate (l.map f)

def asciiString (bs : Bytes) : String := String.ofList (bs.map (fun b => Char.ofNat b.toNat))

end CasModel.Wire
