import CasModel.Path
import CasModel.Index
/-
  Orphan: model of `scan_orphans` (src/orphan.rs, after the F5 repair) over an ARBITRARY tree of
  regular files below cas/ (any names, depth ≤ 3 — deeper entries are never visited and a
  directory at depth 3 is outside the property's "regular files" scope) and any index.
  Each file is classified on its own; the result lists keep the directory order.
-/
namespace CasModel

/-- a regular file below cas/: its path components and its bytes -/
abbrev TreeFile := List Bytes × Bytes

inductive FClass where
  | orphan (h : Bytes)        -- blob file at its canonical path, hash not referenced
  | corrupt (h : Bytes)       -- referenced blob whose size or content hash does not match
  | blob (h : Bytes)          -- referenced blob (accepted; verified if verification is on)
  | invalid (p : List Bytes)  -- anything else
  deriving DecidableEq, Repr

/-- expected size of a referenced hash: `ExpectedMeta` (the last key in key order wins) -/
def expectedSize {K : Type} (m : KMap K) (h : Bytes) : Option Nat :=
  m.foldl (fun acc e => if e.2.hash = h then some e.2.size else acc) none

def refd {K : Type} (m : KMap K) (h : Bytes) : Bool := m.any (fun e => e.2.hash == h)

def classify {K : Type} (H : Bytes → Bytes) (verify : Bool) (m : KMap K) (f : TreeFile) : FClass :=
  if f.1.length = 3 then
    match fromCanonicalPath f.1 with
    | some h =>
      if refd m h then
        if verify && (some f.2.length != expectedSize m h || H f.2 != h) then .corrupt h else .blob h
      else .orphan h
    | none => .invalid f.1
  else .invalid f.1

structure ScanRes where
  orphaned : List Bytes
  invalid : List (List Bytes)
  missing : List Bytes
  corrupted : List Bytes
  total : Nat
  deriving Repr

def distinctHashes {K : Type} (m : KMap K) : List Bytes := (m.map (·.2.hash)).eraseDups

/-- does the scan "see" hash `h`, i.e. is some file classified as a blob-like entry for it -/
def seen (cs : List FClass) (h : Bytes) : Bool :=
  cs.any (fun c => c == .orphan h || c == .corrupt h || c == .blob h)

def scanTree {K : Type} (H : Bytes → Bytes) (verify : Bool) (m : KMap K) (files : List TreeFile) : ScanRes :=
  let cs := files.map (classify H verify m)
  { orphaned := cs.filterMap (fun c => match c with | .orphan h => some h | _ => none)
    corrupted := cs.filterMap (fun c => match c with | .corrupt h => some h | _ => none)
    invalid := cs.filterMap (fun c => match c with | .invalid p => some p | _ => none)
    missing := (distinctHashes m).filter (fun h => !seen cs h)
    total := (cs.filterMap (fun c => match c with
                | .orphan h => some h | .corrupt h => some h | .blob h => some h | _ => none)).eraseDups.length }

end CasModel
