import CasModel.Index
import CasModel.Keys
import CasModel.Store
import CasModel.Range
/-
  Conc: small-step interleaving model of the concurrent protocol (src/index/manager.rs,
  src/transaction.rs, src/cas.rs, src/orphan.rs, src/cas_manager.rs).
  One step = one thread runs from the yield point it is parked at to its next yield point
  (`crate::verif::point`), exactly the granularity at which the harness forces schedules:
  yield points sit before every acquisition of the three index locks and before every blob
  rename/unlink. WAL + snapshot are abstracted to "log and apply" under state.write + wal
  (the Store model covers them); what is kept is everything the blob-safety argument needs:
  the index, the pending-intent bookkeeping, the lock holders and the CAS directory.
  Models the code AFTER the repairs of F2 (protection counted per hash) and F3 (blob opened
  under the read guard).
-/
namespace CasModel.Conc
open CasModel

abbrev Tid := Nat

inductive COp where
  | put (k : Bytes) (content : Bytes)
  | abort (k : Bytes) (content : Bytes)     -- begun, written, dropped without finish
  | remove (k : Bytes)
  | removeRange (lo hi : Bound)
  | get (k : Bytes)
  | getRange (k : Bytes) (s e : Nat)         -- get_range: size pre-check, then lookup + open + slice
  | checkpoint
  | cleanup (hs : List Bytes)               -- delete_orphans over a previously scanned list
  deriving Repr

inductive Res where
  | ok
  | bool (b : Bool)
  | count (n : Nat)
  | absent
  | found (content : Bytes)
  | missing                                 -- BlobDataMissing
  | cleaned (deleted skipped : Nat)
  | panic
  deriving DecidableEq, Repr

/-- what a thread that has passed the WAL step still has to do -/
structure Tail where
  own : Option (Bytes × Bytes)              -- (key, hash) of a put: its IntentGuard
  res : Res
  rolled : Bool
  deriving Repr

inductive Pc where
  | idle
  | putReg (k content : Bytes)                         -- put.before_register
  | putRename (k content : Bytes)                      -- put.before_rename (intent registered)
  | apIntents (op : Op Bytes) (own : Option (Bytes × Bytes)) (res : Res)   -- apply.before_intents
  | apState (op : Op Bytes) (own : Option (Bytes × Bytes)) (res : Res)     -- apply.before_state   [holds intents]
  | apWal (op : Op Bytes) (own : Option (Bytes × Bytes)) (res : Res)       -- apply.before_wal     [intents, state]
  | apUnlink (pending : List Bytes) (t : Tail)         -- delete_blobs.before_unlink               [intents]
  | apUnlocked (t : Tail)                              -- apply.after_intents_unlock
  | ckState (t : Tail)                                 -- checkpoint.before_state
  | ckWal (t : Tail)                                   -- checkpoint.before_wal                    [state]
  | rmScan (k : Bytes)                                 -- remove.before_scan
  | rrScan (lo hi : Bound)                             -- remove_range.before_scan
  | rdLookup (k : Bytes)                               -- read.before_lookup
  | rdLookupR (k : Bytes) (s e : Nat)                  -- read.before_lookup of a get_range (pre-check passed)
  | rdOpened (r : Res)                                 -- read.after_open (fd held, guard released)
  | orIntents (hs : List Bytes) (del skip : Nat)       -- orphan.before_intents
  | orState (h : Bytes) (hs : List Bytes) (del skip : Nat)    -- orphan.before_state            [intents]
  | orUnlink (h : Bytes) (hs : List Bytes) (del skip : Nat)   -- orphan.before_unlink           [intents]
  | orUnlocked (hs : List Bytes) (del skip : Nat)      -- orphan.after_unlock
  deriving Repr

structure Thread where
  ops : List COp
  pc : Pc := .idle
  results : List Res := []
  deriving Repr

structure Shared where
  kind : KeyKind := .bytes
  N : Nat := 10000
  idx : IndexState Bytes := {}
  next : Nat := 1                                   -- next op version (rollover decisions)
  byKey : List (Bytes × Bytes) := []                -- pending_intents: key → latest hash
  prot : List (Bytes × Nat) := []                   -- protection count per hash
  lockIntents : Option Tid := none
  lockState : Option Tid := none                    -- exclusive holder (readers never park)
  cas : List (Bytes × Bytes) := []                  -- hash → content
  deriving Repr

structure Sys where
  sh : Shared
  threads : List Thread
  deriving Repr

def protCount (p : List (Bytes × Nat)) (h : Bytes) : Nat := (rcGet p h).getD 0
def protect (p : List (Bytes × Nat)) (h : Bytes) : List (Bytes × Nat) := rcSet p h (protCount p h + 1)
def unprotect (p : List (Bytes × Nat)) (h : Bytes) : List (Bytes × Nat) :=
  if protCount p h ≤ 1 then rcErase p h else rcSet p h (protCount p h - 1)
def isProtected (p : List (Bytes × Nat)) (h : Bytes) : Bool := protCount p h > 0

def casGet (c : List (Bytes × Bytes)) (h : Bytes) : Option Bytes :=
  match c with
  | [] => none
  | (h', x) :: r => if h' = h then some x else casGet r h
def casDel (c : List (Bytes × Bytes)) (h : Bytes) : List (Bytes × Bytes) := c.filter (·.1 ≠ h)
def casPut (c : List (Bytes × Bytes)) (h x : Bytes) : List (Bytes × Bytes) := casDel c h ++ [(h, x)]

def bkGet (m : List (Bytes × Bytes)) (k : Bytes) : Option Bytes := casGet m k
def bkDel (m : List (Bytes × Bytes)) (k : Bytes) : List (Bytes × Bytes) := casDel m k
def bkSet (m : List (Bytes × Bytes)) (k h : Bytes) : List (Bytes × Bytes) := casPut m k h

/-- which lock a parked thread is about to take: 0 none, 1 intents, 2 state (exclusive),
    3 state (shared) -/
def Pc.wants : Pc → Nat
  | .putReg .. | .apIntents .. | .orIntents .. => 1
  | .apState .. | .ckState .. => 2
  | .rmScan .. | .rrScan .. | .rdLookup .. | .rdLookupR .. | .orState .. => 3
  | _ => 0

def enabled (sh : Shared) (pc : Pc) : Bool :=
  match pc.wants with
  | 1 => sh.lockIntents.isNone
  | 2 => sh.lockState.isNone
  | 3 => sh.lockState.isNone
  | _ => true

def segOfV (N v : Nat) : Nat := (v - 1) / N

structure StepOut where
  sh : Shared
  pc : Pc
  done : Option Res := none       -- the current operation finished with this result

/-- index/intent bookkeeping of the WAL step (no lock changes): new index, version, and for a
    put the removal of its key entry and the release of its protection -/
def bookkeep (sh : Shared) (idx' : IndexState Bytes) (own : Option (Bytes × Bytes)) : Shared :=
  match own with
  | some (k, h) => { sh with idx := idx', next := sh.next + 1, byKey := bkDel sh.byKey k,
                             prot := unprotect sh.prot h }
  | none => { sh with idx := idx', next := sh.next + 1 }

@[simp] theorem bookkeep_lockIntents (sh : Shared) (i : IndexState Bytes) (o : Option (Bytes × Bytes)) :
    (bookkeep sh i o).lockIntents = sh.lockIntents := by
  unfold bookkeep; split <;> rfl
@[simp] theorem bookkeep_lockState (sh : Shared) (i : IndexState Bytes) (o : Option (Bytes × Bytes)) :
    (bookkeep sh i o).lockState = sh.lockState := by
  unfold bookkeep; split <;> rfl

/-- the WAL step: log + apply under state.write and wal, release both, then either start
    deleting what became unreferenced and is not protected, or release the intents lock -/
def applyStep (sh : Shared) (op : Op Bytes) (own : Option (Bytes × Bytes)) (res : Res) : StepOut :=
  let preSeg := if sh.next > 1 then segOfV sh.N (sh.next - 1) else 0
  let rolled := preSeg != segOfV sh.N sh.next
  match applyOp sh.kind.lt sh.idx op with
  | .error _ => ⟨{ sh with lockState := none, lockIntents := none }, .idle, some .panic⟩
  | .ok (idx', unref) =>
    let sh2 := bookkeep sh idx' own
    let pending := unref.filter (fun h => !isProtected sh2.prot h)
    if pending.isEmpty then
      ⟨{ sh2 with lockState := none, lockIntents := none }, .apUnlocked ⟨own, res, rolled⟩, none⟩
    else ⟨{ sh2 with lockState := none }, .apUnlink pending ⟨own, res, rolled⟩, none⟩

/-- start the next operation of a thread: runs up to its first yield point (staging a blob
    touches only the private staging file); some operations finish before any yield point -/
def startOp (H : Bytes → Bytes) (sh : Shared) : COp → Pc × Option Res
  | .put k c => (.putReg k c, none)
  | .abort _ _ => (.idle, some .ok)
  | .remove k => (.rmScan k, none)
  | .removeRange lo hi => (.rrScan lo hi, none)
  | .get k => (.rdLookup k, none)
  | .getRange k s e =>
    -- `get_size` pre-check (its own short read-lock section, no yield point inside)
    match kLookup sh.idx.map k with
    | none => (.idle, some .absent)
    | some item => if s ≥ item.size then (.idle, some (.found [])) else (.rdLookupR k s e, none)
  | .checkpoint => (.ckState ⟨none, .ok, false⟩, none)
  | .cleanup hs => (.orIntents hs 0 0, none)
where _h := H

/-- operations whose first action (before any yield point) takes the state lock -/
def COp.startsWithStateRead : COp → Bool
  | .getRange .. => true
  | _ => false

/-- one scheduling step of a thread parked at `pc` (must be `enabled`) -/
def stepPc (H : Bytes → Bytes) (tid : Tid) (sh : Shared) : Pc → StepOut
  | .idle => ⟨sh, .idle, none⟩
  | .putReg k c =>
    let h := H c
    -- register_intent: remember the replaced entry, record key → hash, protect the hash
    ⟨{ sh with byKey := bkSet sh.byKey k h, prot := protect sh.prot h }, .putRename k c, none⟩
  | .putRename k c =>
    let h := H c
    ⟨{ sh with cas := casPut sh.cas h c }, .apIntents (.put k h c.length) (some (k, h)) .ok, none⟩
  | .apIntents op own res => ⟨{ sh with lockIntents := some tid }, .apState op own res, none⟩
  | .apState op own res => ⟨{ sh with lockState := some tid }, .apWal op own res, none⟩
  | .apWal op own res => applyStep sh op own res
  | .apUnlink [] t => ⟨{ sh with lockIntents := none }, .apUnlocked t, none⟩
  | .apUnlink [h] t => ⟨{ sh with cas := casDel sh.cas h, lockIntents := none }, .apUnlocked t, none⟩
  | .apUnlink (h :: h' :: rest) t => ⟨{ sh with cas := casDel sh.cas h }, .apUnlink (h' :: rest) t, none⟩
  | .apUnlocked t =>
    if t.rolled then ⟨sh, .ckState t, none⟩
    else ⟨sh, .idle, some t.res⟩    -- (a committed guard has nothing left to release)
  | .ckState t => ⟨{ sh with lockState := some tid }, .ckWal t, none⟩
  | .ckWal t =>
    -- snapshot + prune: no effect on this model
    ⟨{ sh with lockState := none }, .idle, some t.res⟩
  | .rmScan k =>
    match kLookup sh.idx.map k with
    | none => ⟨sh, .idle, some (.bool false)⟩
    | some _ => ⟨sh, .apIntents (.remove [k]) none (.bool true), none⟩
  | .rrScan lo hi =>
    let keys := (sh.idx.map.filter (fun (k, _) => inRange sh.kind.lt lo hi k)).map (·.1)
    if keys.isEmpty then ⟨sh, .idle, some (.count 0)⟩
    else ⟨sh, .apIntents (.remove keys) none (.count keys.length), none⟩
  | .rdLookup k =>
    match kLookup sh.idx.map k with
    | none => ⟨sh, .idle, some .absent⟩
    | some item =>
      match casGet sh.cas item.hash with
      | none => ⟨sh, .rdOpened .missing, none⟩
      | some c => ⟨sh, .rdOpened (.found c), none⟩
  | .rdLookupR k s e =>
    match kLookup sh.idx.map k with
    | none => ⟨sh, .idle, some .absent⟩
    | some item =>
      match casGet sh.cas item.hash with
      | none => ⟨sh, .rdOpened .missing, none⟩
      | some c =>
        -- the slice is cut from the blob that was opened, clamped with ITS recorded size
        match getRange c item.size [] s e with
        | .ok out => ⟨sh, .rdOpened (.found out.bytes), none⟩
        | .error _ => ⟨sh, .rdOpened .panic, none⟩
  | .rdOpened r => ⟨sh, .idle, some r⟩
  | .orIntents hs del skip =>
    match hs with
    | [] => ⟨sh, .idle, some (.cleaned del skip)⟩
    | h :: rest => ⟨{ sh with lockIntents := some tid }, .orState h rest del skip, none⟩
  | .orState h rest del skip =>
    if (rcGet sh.idx.rc h).isSome || isProtected sh.prot h then
      ⟨{ sh with lockIntents := none }, .orUnlocked rest del (skip + 1), none⟩
    else ⟨sh, .orUnlink h rest del skip, none⟩
  | .orUnlink h rest del skip =>
    let existed := (casGet sh.cas h).isSome
    ⟨{ sh with cas := casDel sh.cas h, lockIntents := none },
     .orUnlocked rest (if existed then del + 1 else del) (if existed then skip else skip + 1), none⟩
  | .orUnlocked rest del skip =>
    match rest with
    | [] => ⟨sh, .idle, some (.cleaned del skip)⟩
    | _ => ⟨sh, .orIntents rest del skip, none⟩

/-- schedule thread `tid` for one step. `none` if it has nothing to do or is blocked.
    An idle thread starts its next operation and runs up to that operation's first yield point
    (an abandoned transaction has none: it completes within the start step). -/
def step (H : Bytes → Bytes) (s : Sys) (tid : Tid) : Option Sys :=
  match s.threads[tid]? with
  | none => none
  | some th =>
    match th.pc with
    | .idle =>
      match th.ops with
      | [] => none
      | op :: rest =>
        if op.startsWithStateRead && s.sh.lockState.isSome then none else
        let st := startOp H s.sh op
        let th' : Thread := { th with ops := rest, pc := st.1, results := th.results ++ st.2.toList }
        some { s with threads := s.threads.set tid th' }
    | pc =>
      if !enabled s.sh pc then none else
      let o := stepPc H tid s.sh pc
      let th' : Thread := { th with pc := o.pc, results := th.results ++ o.done.toList }
      some { sh := o.sh, threads := s.threads.set tid th' }

def run (H : Bytes → Bytes) (s : Sys) : List Tid → Option Sys
  | [] => some s
  | t :: ts => match step H s t with
    | none => none
    | some s' => run H s' ts

end CasModel.Conc
