import CasModel.Bytes
/-
  Range: model of CasInner::get_range (src/cas.rs) and CasManager::read_blob_range
  (src/cas_manager.rs), including the `read_at` loop under arbitrary short reads.
-/
namespace CasModel

inductive RangeErr where
  | invalidRange     -- CasManagerError::InvalidRangeStartEnd
  deriving DecidableEq, Repr

/-- one `read_at(buf[..want], off)`: the OS returns between 1 and `min want (L-off)` bytes
    (`pick` chooses how many; 0 only at/after EOF). Returns the bytes delivered. -/
def readAt (content : Bytes) (off want pick : Nat) : Bytes :=
  let avail := min want (content.length - off)
  let k := if avail = 0 then 0 else (pick % avail) + 1
  (content.drop off).take k

/-- the loop of `read_blob_range`; `picks` drives the short reads; returns
    (buffer, capacity requested). Loop ends when filled, at EOF (0 bytes), fuel = read_len. -/
def readLoop (content : Bytes) : (fuel : Nat) → (picks : List Nat) → (off remaining : Nat) → Bytes
  | 0, _, _, _ => []
  | f+1, picks, off, remaining =>
    if remaining = 0 then [] else
    let got := readAt content off remaining (picks.headD 0)
    if got.length = 0 then [] else
    got ++ readLoop content f picks.tail (off + got.length) (remaining - got.length)

structure RangeOut where
  bytes : Bytes
  capacity : Nat      -- `Vec::with_capacity(read_len)`; 0 when no allocation happens
  deriving DecidableEq, Repr

def readBlobRange (content : Bytes) (picks : List Nat) (s e : Nat) : Except RangeErr RangeOut :=
  if s > e then .error .invalidRange else
  let len := e - s
  if len = 0 then .ok ⟨[], 0⟩ else
  .ok ⟨readLoop content len picks s len, len⟩

/-- `get_range` for a present key whose index item records `size` and whose file holds `content`. -/
def getRange (content : Bytes) (size : Nat) (picks : List Nat) (s e : Nat) :
    Except RangeErr RangeOut :=
  if s ≥ size then .ok ⟨[], 0⟩ else
  readBlobRange content picks s (min e size)

end CasModel
