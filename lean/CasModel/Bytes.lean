/-
  Bytes: little-endian fixed-width integers over `List UInt8`.
  Models `uN::to_le_bytes` / `from_le_bytes` and the `as u32` / `as u64` truncating casts
  of src/serialization.rs and src/wal/storage.rs.
-/
namespace CasModel

abbrev Bytes := List UInt8

/-- `w` little-endian bytes of `n` (silently truncating, like `n as uW` then `to_le_bytes`). -/
def leBytes : (w : Nat) → (n : Nat) → Bytes
  | 0, _ => []
  | w+1, n => UInt8.ofNat (n % 256) :: leBytes w (n / 256)

/-- value of a little-endian byte string (`from_le_bytes`). -/
def leNat : Bytes → Nat
  | [] => 0
  | b :: bs => b.toNat + 256 * leNat bs

@[simp] theorem leBytes_length (w n : Nat) : (leBytes w n).length = w := by
  induction w generalizing n with
  | zero => rfl
  | succ w ih => simp [leBytes, ih]

theorem leNat_leBytes (w n : Nat) : leNat (leBytes w n) = n % 256 ^ w := by
  induction w generalizing n with
  | zero => simp [leBytes, leNat, Nat.mod_one]
  | succ w ih =>
    simp only [leBytes, leNat, ih]
    have h1 : (UInt8.ofNat (n % 256)).toNat = n % 256 := by
      simp [UInt8.toNat_ofNat']
    rw [h1, Nat.pow_succ, Nat.mul_comm (256 ^ w) 256, Nat.mod_mul]

theorem leNat_leBytes_of_lt (w n : Nat) (h : n < 256 ^ w) : leNat (leBytes w n) = n := by
  rw [leNat_leBytes, Nat.mod_eq_of_lt h]

theorem leNat_lt (bs : Bytes) : leNat bs < 256 ^ bs.length := by
  induction bs with
  | nil => simp [leNat]
  | cons b bs ih =>
    simp only [leNat, List.length_cons, Nat.pow_succ]
    have := b.toNat_lt
    omega

theorem leBytes_leNat (bs : Bytes) : leBytes bs.length (leNat bs) = bs := by
  induction bs with
  | nil => rfl
  | cons b bs ih =>
    simp only [List.length_cons, leBytes, leNat]
    have hb := b.toNat_lt
    have h1 : (b.toNat + 256 * leNat bs) % 256 = b.toNat := by omega
    have h2 : (b.toNat + 256 * leNat bs) / 256 = leNat bs := by omega
    rw [h1, h2, ih]
    simp

/-- injectivity of the encoding on in-range values -/
theorem leBytes_inj (w a b : Nat) (ha : a < 256 ^ w) (hb : b < 256 ^ w)
    (h : leBytes w a = leBytes w b) : a = b := by
  have := congrArg leNat h
  rwa [leNat_leBytes_of_lt w a ha, leNat_leBytes_of_lt w b hb] at this

abbrev U32 : Nat := 256 ^ 4
abbrev U64 : Nat := 256 ^ 8

end CasModel
