import CasModel.Store
/-
  OrphanOps: the two remaining clean-up entry points of `OrphanStats` (src/orphan.rs), sequential
  (no pending intents):
    `delete_orphan(hash)`     — unlink one blob if the scan listed it, no key references it now and
                                its file exists;
    `quarantine_orphans(dir)` — move every listed, still unreferenced blob that exists out of the
                                store (a rename to a path outside the database directory: for the
                                store's disk the file is gone, modelled as `unlink`).
-/
namespace CasModel

/-- `OrphanStats::delete_orphan`: events and the returned flag -/
def deleteOrphanScript (m : Mem) (sc : ScanOut) (d : Disk) (h : Bytes) : List Ev × Bool :=
  if !sc.orphaned.contains h then ([], false)
  else if (rcGet m.idx.rc h).isSome then ([], false)
  else if d.has (.cas h) then ([Ev.unlink (.cas h)], true)
  else ([], false)

/-- one blob of `quarantine_orphans`: (events, quarantined, skipped) -/
def quarantineStep (m : Mem) (d : Disk) (acc : List Ev × Nat × Nat) (h : Bytes) : List Ev × Nat × Nat :=
  if (rcGet m.idx.rc h).isSome then (acc.1, acc.2.1, acc.2.2 + 1)
  else if (d.applyAll acc.1).has (.cas h) then (acc.1 ++ [Ev.unlink (.cas h)], acc.2.1 + 1, acc.2.2)
  else (acc.1, acc.2.1, acc.2.2 + 1)

/-- `OrphanStats::quarantine_orphans`: events, number quarantined, number skipped -/
def quarantineScript (m : Mem) (sc : ScanOut) (d : Disk) : List Ev × Nat × Nat :=
  sc.orphaned.foldl (quarantineStep m d) ([], 0, 0)

end CasModel
