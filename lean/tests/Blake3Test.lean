/-
  Test vectors for `CasModel.Blake3.hash`.

  Expected digests were produced by the Rust `blake3` crate (v1.8.7,
  `blake3::hash`) on inputs `bytes[i] = i % 251` of the listed lengths.

  Run:  cd /verif/lean && lake env lean --run tests/Blake3Test.lean
  Exits non-zero on any mismatch.
-/
import CasModel.Blake3

open CasModel

def mkInput (n : Nat) : ByteArray := Id.run do
  let mut b := ByteArray.emptyWithCapacity n
  for i in [0:n] do
    b := b.push (i % 251).toUInt8
  return b

def vectors : List (Nat × String) := [
  (0, "af1349b9f5f9a1a6a0404dea36dcc9499bcb25c9adc112b7cc9a93cae41f3262"),
  (1, "2d3adedff11b61f14c886e35afa036736dcd87a74d27b5c1510225d0f592e213"),
  (2, "7b7015bb92cf0b318037702a6cdd81dee41224f734684c2c122cd6359cb1ee63"),
  (3, "e1be4d7a8ab5560aa4199eea339849ba8e293d55ca0a81006726d184519e647f"),
  (63, "e9bc37a594daad83be9470df7f7b3798297c3d834ce80ba85d6e207627b7db7b"),
  (64, "4eed7141ea4a5cd4b788606bd23f46e212af9cacebacdc7d1f4c6dc7f2511b98"),
  (65, "de1e5fa0be70df6d2be8fffd0e99ceaa8eb6e8c93a63f2d8d1c30ecb6b263dee"),
  (127, "d81293fda863f008c09e92fc382a81f5a0b4a1251cba1634016a0f86a6bd640d"),
  (128, "f17e570564b26578c33bb7f44643f539624b05df1a76c81f30acd548c44b45ef"),
  (129, "683aaae9f3c5ba37eaaf072aed0f9e30bac0865137bae68b1fde4ca2aebdcb12"),
  (1023, "10108970eeda3eb932baac1428c7a2163b0e924c9a9e25b35bba72b28f70bd11"),
  (1024, "42214739f095a406f3fc83deb889744ac00df831c10daa55189b5d121c855af7"),
  (1025, "d00278ae47eb27b34faecf67b4fe263f82d5412916c1ffd97c8cb7fb814b8444"),
  (2047, "58830fbf51a4423c573b164471690570e544cfe793bead46225664796b4b1467"),
  (2048, "e776b6028c7cd22a4d0ba182a8bf62205d2ef576467e838ed6f2529b85fba24a"),
  (2049, "5f4d72f40d7a5f82b15ca2b2e44b1de3c2ef86c426c95c1af0b6879522563030"),
  (3072, "b98cb0ff3623be03326b373de6b9095218513e64f1ee2edd2525c7ad1e5cffd2"),
  (3073, "7124b49501012f81cc7f11ca069ec9226cecb8a2c850cfe644e327d22d3e1cd3"),
  (4096, "015094013f57a5277b59d8475c0501042c0b642e531b0a1c8f58d2163229e969"),
  (4097, "9b4052b38f1c5fc8b1f9ff7ac7b27cd242487b3d890d15c96a1c25b8aa0fb995"),
  (5120, "9cadc15fed8b5d854562b26a9536d9707cadeda9b143978f319ab34230535833"),
  (6144, "3e2e5b74e048f3add6d21faab3f83aa44d3b2278afb83b80b3c35164ebeca205"),
  (7168, "61da957ec2499a95d6b8023e2b0e604ec7f6b50e80a9678b89d2628e99ada77a"),
  (8192, "aae792484c8efe4f19e2ca7d371d8c467ffb10748d8a5a1ae579948f718a2a63"),
  (8193, "bab6c09cb8ce8cf459261398d2e7aef35700bf488116ceb94a36d0f5f1b7bc3b"),
  (16384, "f875d6646de28985646f34ee13be9a576fd515f76b5b0a26bb324735041ddde4"),
  (31744, "62b6960e1a44bcc1eb1a611a8d6235b6b4b78f32e7abc4fb4c6cdcce94895c47"),
  (65536, "68d647e619a930e7b1082f74f334b0c65a315725569bdc123f0ee11881717bfe"),
  (65537, "7c99f9840a73dfcb6e5bfe4ff6d1558acab7e015640790c26411818bdbe17eca"),
  (102400, "bc3e3d41a1146b069abffad3c0d44860cf664390afce4d9661f7902e7943e085"),
  (1000000, "5e82c663d164c54e4fcdfcd70e3ca464662228bdbad45cce2e0c2bff999064ef")
]

def main : IO UInt32 := do
  let mut bad := 0
  for (n, expected) in vectors do
    let input := mkInput n
    let t0 ← IO.monoMsNow
    let got ← IO.lazyPure fun _ => Blake3.toHex (Blake3.hash input)
    let t1 ← IO.monoMsNow
    if got == expected then
      IO.println s!"ok   len={n} ({t1 - t0} ms)"
    else
      bad := bad + 1
      IO.println s!"FAIL len={n}\n  expected {expected}\n  got      {got}"
  -- list interface agrees with the ByteArray interface
  for n in [0, 1, 64, 65, 1024, 1025, 3073] do
    let input := mkInput n
    if Blake3.hashList input.toList != (Blake3.hash input).toList then
      bad := bad + 1
      IO.println s!"FAIL hashList len={n}"
  if bad == 0 then
    IO.println s!"all {vectors.length} BLAKE3 vectors match"
    return 0
  else
    IO.println s!"{bad} mismatches"
    return 1
