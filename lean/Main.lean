import CasModel.Bytes
import CasModel.Codec
import CasModel.Frame
import CasModel.Path
import CasModel.Range
import CasModel.Keys
import CasModel.Index
import CasModel.Blake3
import CasModel.Wire
import CasModel.Sim
import CasModel.Conc
import CasModel.Fault
import CasModel.OrphanOps
import CasModel.Lock
/-
  Model driver: one request per input line, one response line per request.
  The functions called here are the ones the theorems are about; this file only parses and prints.
-/
open CasModel CasModel.Wire

def H (bs : Bytes) : Bytes := Blake3.hashList bs

def parseKind (s : String) : Option KeyKind :=
  match s with
  | "bytes" => some .bytes
  | "string" => some .string
  | "u8" => some (.uint 1) | "u16" => some (.uint 2) | "u32" => some (.uint 4)
  | "u64" => some (.uint 8) | "u128" => some (.uint 16)
  | "i8" => some (.sint 1) | "i16" => some (.sint 2) | "i32" => some (.sint 4)
  | "i64" => some (.sint 8) | "i128" => some (.sint 16)
  | _ => if s.startsWith "fixed" then (s.drop 5).toNat?.map .fixed else none

def showDecErr : DecErr → String
  | .eof => "eof" | .insufficient => "insufficient" | .badTag => "badtag"

def showRawOp : RawOp → String
  | .put k h s => s!"put {toHexString k} {toHexString h} {s}"
  | .remove ks => s!"remove {showList toHexString ks}"

def parseEntry (s : String) : Option Entry :=
  match s.splitOn ":" with
  | [k, h, sz] => do
    let k ← parseHex k; let h ← parseHex h; let sz ← sz.toNat?
    pure ⟨k, h, sz⟩
  | _ => none

def showEntry (e : Entry) : String := s!"{toHexString e.key}:{toHexString e.hash}:{e.size}"

/-- the `BTreeMap<Vec<u8>,_>` the Rust decoder builds: byte order, last occurrence wins -/
def rawMapOfEntries (es : List Entry) : List Entry :=
  let m : KMap Bytes := es.foldl (fun m e => (kInsert bytesLt m e.key ⟨e.hash, e.size⟩).1) []
  m.map (fun (k, i) => ⟨k, i.hash, i.size⟩)

def showReadErr : ReadErr → String
  | .shortPayload => "shortPayload" | .checksum => "checksum"

structure DState where
  kind : KeyKind := .bytes
  idx : IndexState Bytes := {}
  w : World := {}
  /-- lock-protocol slice `c11p`: the kernel's lock table and the harness's names for descriptions -/
  lk : Lock.State := {}
  lkSlots : List (String × Nat) := []
  /-- slice `c11sys`: the process that owns the store of `w` -/
  lkOwner : Option Nat := none

def showIdxPanic : IdxPanic → String
  | .decrementZero => "decrementZero" | .hashNotFound => "hashNotFound"
  | .sizeMismatch => "sizeMismatch" | .statsUnderflow => "statsUnderflow"

def sortBytes (l : List Bytes) : List Bytes :=
  (l.toArray.qsort (fun a b => bytesLt a b)).toList

def showIdxObs (s : IndexState Bytes) : String :=
  let es := showList (fun (k, i) => s!"{toHexString k}:{toHexString i.hash}:{i.size}") s.map
  let rcs := (s.rc.toArray.qsort (fun a b => bytesLt a.1 b.1)).toList
  let rc := showList (fun (h, c) => s!"{toHexString h}:{c}") rcs
  s!"{es} {rc} {s.uniqueBlobs} {s.totalBytes}"


/-! ### store protocol -/

def genBytes (seed len : Nat) : Bytes :=
  (List.range len).map (fun i => UInt8.ofNat ((seed * 131 + i * 31 + i / 251) % 256))

def parseChunk (s : String) : Option Bytes :=
  if s.startsWith "=" then parseHex (s.drop 1).toString
  else if s.startsWith "~" then
    match (s.drop 1).toString.splitOn ":" with
    | [a, b] => do let a ← a.toNat?; let b ← b.toNat?; pure (genBytes a b)
    | _ => none
  else none

def parseChunks (s : String) : Option (List Bytes) :=
  if s = "_" then some [] else (s.splitOn ",").mapM parseChunk

def fidText : FileId → String
  | .lock => "lock" | .settings => "settings" | .settingsTmp => "settings.tmp"
  | .index => "index" | .indexTmp => "index.tmp"
  | .seg i => s!"seg:{i}" | .cas h => s!"cas:{toHexString h}" | .staging n => s!"staging:{n}"
  | .stray p => "path:cas/" ++ "/".intercalate (p.map asciiString)

def parseFid (s : String) : Option FileId :=
  match s with
  | "lock" => some .lock | "settings" => some .settings | "settings.tmp" => some .settingsTmp
  | "index" => some .index | "index.tmp" => some .indexTmp
  | _ =>
    match s.splitOn ":" with
    | ["seg", i] => i.toNat?.map .seg
    | ["cas", h] => (parseHex h).map .cas
    | ["staging", n] => n.toNat?.map .staging
    | _ => none

def digest (bs : Bytes) : String := s!"{bs.length}:{toHexString (H bs)}"

def evText : Ev → Option String
  | .mkdir p => some ("mkdir " ++ "/".intercalate (p.map asciiString))
  | .mkdirTree => some "mkdir-tree"
  | .creat f t => some s!"creat {fidText f} {if t then "trunc" else "plain"}"
  | .write (.staging _) _ => none
  | .write f bs => some s!"write {fidText f} {digest bs}"
  | .sync f => some s!"sync {fidText f}"
  | .rename a b => some s!"rename {fidText a} {fidText b}"
  | .unlink f => some s!"unlink {fidText f}"
  | .flock => some "flock"

def showTrace (evs : List Ev) : String :=
  let l := evs.filterMap evText
  if l.isEmpty then "_" else ";".intercalate l

def showDump (d : Disk) : String :=
  let f (id : FileId) := match d.get id with | some x => digest x.data | none => "-"
  let segs := (segIds d).map (fun i => s!"{i}:{f (.seg i)}")
  let strays := d.files.filterMap (fun (fx : FileId × File) => match fx.1 with
    | .stray p => some ("path:" ++ "/".intercalate (p.map asciiString) ++ ":" ++ digest fx.2.data)
    | _ => none)
  let blobs := (casFiles d).map (fun (hx : Bytes × File) => s!"{toHexString hx.1}:{digest hx.2.data}")
  let cas := ((blobs ++ strays).toArray.qsort (· < ·)).toList
  let tmp := (if d.has .indexTmp then "1" else "0") ++ (if d.has .settingsTmp then "1" else "0")
  s!"index={f .index} segs={showList id segs} cas={showList id cas} staging={(stagingFiles d).length} settings={f .settings} tmp={tmp}"

def showOpenErr : OpenErr → String
  | .alreadyOpened => "alreadyOpened" | .settingsParse => "settingsParse"
  | .unsupportedVersion => "unsupportedVersion" | .validation => "validation"
  | .emptyIndex => "emptyIndex" | .decodeIndex e => "decodeIndex " ++ showDecErr e
  | .decodeKey => "decodeKey" | .replayRead e => "replayRead " ++ showReadErr e
  | .replayDecode e => "replayDecode " ++ showDecErr e | .replayConvert => "replayConvert"
  | .integrity m c => s!"integrity {m} {c}" | .panic p => "panic " ++ showIdxPanic p

def parseCfg (toks : List String) : Option Config := do
  let get (k : String) : Option String :=
    toks.findSome? (fun t => if t.startsWith (k ++ "=") then some (t.drop (k.length + 1)).toString else none)
  let nat (k : String) (d : Nat) : Nat := ((get k).bind String.toNat?).getD d
  let kind ← parseKind ((get "kind").getD "bytes")
  pure { kind := kind, N := nat "n" 10000, sync := nat "sync" 1 == 1, pre := nat "pre" 0 == 1,
         scan := nat "scan" 1 == 1, verify := nat "verify" 0 == 1, failOnIntegrity := nat "fail" 1 == 1 }

def parseLo (s : String) : Option Bound :=
  if s = "*" then some .unbounded
  else if s.startsWith "[" then (parseHex (s.drop 1).toString).map .incl
  else if s.startsWith "(" then (parseHex (s.drop 1).toString).map .excl
  else none

def parseHi (s : String) : Option Bound :=
  if s = "*" then some .unbounded
  else if s.endsWith "]" then (parseHex (s.dropEnd 1).toString).map .incl
  else if s.endsWith ")" then (parseHex (s.dropEnd 1).toString).map .excl
  else none

def withOutcome (armed : Bool) (o : Outcome) (res : String) : String :=
  match o with
  | .crashed => "crashed"
  | .completed n => if armed then s!"nocrash events={n} {res}" else res

def showEntries (m : KMap Bytes) : String :=
  if m.isEmpty then "_" else
  ";".intercalate (m.map (fun (k, i) => s!"{toHexString k}:{toHexString i.hash}:{i.size}"))

/-! ### fault injection (C14) -/

def applyFault (w : World) (o : FaultOut) (normal : String) : World × String :=
  let w' := { w with disk := w.disk.applyAll o.events, trace := w.trace ++ o.events,
                     stagingCtr := bumpStaging w.stagingCtr o.events, failAt := none }
  let res := match o.res with
    | .completed => normal
    | .okDespite => normal
    | .err => "err"
  (w', s!"fault events={o.attempts} {res}")

def memDirty (m : Mem) : Bool := !m.walBuf.isEmpty || !m.protectedFailed.isEmpty

def faultStep (w : World) (k : Nat) (toks : List String) : Option (World × String) :=
  match toks with
  | ["put", key, chunks] => do
    let key ← parseHex key
    let chunks ← parseChunks chunks
    let m ← w.handle
    let o := faultPut H m w.disk w.stagingCtr key chunks k
    let (w', r) := applyFault w o "ok"
    pure ({ w' with handle := o.mem }, r)
  | ["remove", key] => do
    let key ← parseHex key
    let m ← w.handle
    match kLookup m.idx.map key with
    | none => pure ({ w with failAt := none }, "fault events=0 false")
    | some _ =>
      let o := faultRemove H m w.disk [key] k
      let (w', r) := applyFault w o "true"
      pure ({ w' with handle := o.mem }, r)
  | ["rrange", lo, hi] => do
    let lo ← parseLo lo
    let hi ← parseHi hi
    let m ← w.handle
    let keys := rangeKeys m lo hi
    if keys.isEmpty then pure ({ w with failAt := none }, "fault events=0 0") else
    let o := faultRemove H m w.disk keys k
    let (w', r) := applyFault w o (toString keys.length)
    pure ({ w' with handle := o.mem }, r)
  | ["checkpoint"] => do
    let m ← w.handle
    let o := faultCheckpoint m w.disk k
    let (w', r) := applyFault w o "ok"
    pure ({ w' with handle := o.mem }, r)
  | ["close"] => do
    let m ← w.handle
    let o := faultClose m k
    let (w', r) := applyFault w o "ok"
    pure ({ w' with handle := none, scan := none, txs := [] }, r)
  | ["open"] =>
    let (o, r) := faultOpen H w.cfg w.disk k
    match r with
    | some (.ok (m, sc)) =>
      let (w', s) := applyFault w o (if w.cfg.scan then
        s!"ok orphans={sc.orphaned.length} missing={sc.missing.length} corrupted={sc.corrupted.length} staging={sc.staging.length} total={sc.total} invalid={sc.invalid.length}"
        else "ok noscan")
      some ({ w' with handle := some m, scan := some sc }, s)
    | some (.error e) =>
      let (w', s) := applyFault w o ("err " ++ showOpenErr e)
      some (w', s)
    | none =>
      let (w', s) := applyFault w o "err"
      some (w', s)
  | _ => none

def storeStepNormal (w : World) (toks : List String) : Option (World × String) :=
  let armed := w.plan.isSome
  match toks with
  | "cfg" :: rest => (parseCfg rest).map (fun c => ({ cfg := c }, "ok"))
  | ["failnext", k] => k.toNat?.map (fun k => ({ w with failAt := some k }, "armed"))
  | ["crashnext", k] => k.toNat?.map (fun k => ({ w with plan := some ⟨k, none, false⟩ }, "armed"))
  | ["plossnext", k, spec] => do
    let k ← k.toNat?
    if spec = "all" then pure ({ w with plan := some ⟨k, some [], true⟩ }, "armed")
    else
      let l ← parseList parseFid spec
      pure ({ w with plan := some ⟨k, some l, false⟩ }, "armed")
  | ["exit"] => some ({ w with handle := none, scan := none, txs := [], plan := none }, "crashed")
  | ["open"] =>
    let (evs, r) := openScript H w.cfg w.disk w.handle.isSome
    match r with
    | .ok (m, sc) =>
      let (w', o) := w.exec evs (fun w => { w with handle := some m, scan := some sc })
      some (w', withOutcome armed o (if w.cfg.scan then
        s!"ok orphans={sc.orphaned.length} missing={sc.missing.length} corrupted={sc.corrupted.length} staging={sc.staging.length} total={sc.total} invalid={sc.invalid.length}"
        else "ok noscan"))
    | .error e =>
      let (w', o) := w.exec evs id
      some (w', withOutcome armed o ("err " ++ showOpenErr e))
  | ["openplain"] =>
    let (evs, r) := openScript H w.cfg w.disk w.handle.isSome
    match r with
    | .ok (m, _) =>
      let (w', o) := w.exec evs (fun w => { w with handle := some m, scan := none })
      some (w', withOutcome armed o "ok plain")
    | .error e =>
      let (w', o) := w.exec evs id
      some (w', withOutcome armed o ("err " ++ showOpenErr e))
  | ["open2"] =>
    let (evs, r) := openScript H w.cfg w.disk w.handle.isSome
    let (w', _) := w.exec evs id
    some (w', match r with | .ok _ => "ok second-handle" | .error e => "err " ++ showOpenErr e)
  | ["close"] =>
    match w.handle with
    | none => some (w, "ok")
    | some m =>
      let (w', o) := w.exec (closeScript m) (fun w => { w with handle := none, scan := none, txs := [] })
      some (w', withOutcome armed o "ok")
  | ["dropstats"] =>
    if w.casDropped then
      -- last owner of the inner handle goes away now: WalManager::drop, lock released
      match w.handle with
      | some m =>
        let (w', o) := w.exec (closeScript m) (fun w => { w with handle := none, scan := none, txs := [], casDropped := false })
        some (w', withOutcome armed o "ok")
      | none => some ({ w with scan := none, casDropped := false }, "ok")
    else some ({ w with scan := none }, "ok")
  | ["clonedrop"] => some (w, if w.handle.isSome then "ok" else "err nohandle")
  | ["close_keep_stats"] =>
    match w.scan with
    | some _ => some ({ w with casDropped := true, txs := [] }, "ok")
    | none =>
      match w.handle with
      | none => some (w, "ok")
      | some m =>
        let (w', o) := w.exec (closeScript m) (fun w => { w with handle := none, scan := none, txs := [] })
        some (w', withOutcome armed o "ok")
  | ["tracedrop"] => some ({ w with trace := [] }, "ok")
  | ["snapshot"] => some ({ w with saved := some w.disk }, "ok")
  | ["restore"] =>
    match w.saved with
    | some d => some ({ w with disk := d, handle := none, scan := none, txs := [] }, "ok")
    | none => some (w, "nosnapshot")
  | ["damage", f, off, x] => do
    let f ← parseFid f
    let off ← off.toNat?
    let x ← x.toNat?
    match w.disk.get f with
    | none => pure (w, "nofile")
    | some file =>
      let data := file.data.mapIdx (fun i b => if i = off then b ^^^ UInt8.ofNat x else b)
      pure ({ w with disk := { w.disk with files := fset w.disk.files f { file with data := data } } }, "ok")
  | ["truncseg", id, len] => do
    let id ← id.toNat?
    let len ← len.toNat?
    match w.disk.get (.seg id) with
    | none => pure (w, "nofile")
    | some file =>
      let files := (fset w.disk.files (.seg id) { file with data := file.data.take len, synced := min file.synced len }).filter
        (fun (fx : FileId × File) => match fx.1 with | .seg j => j ≤ id | _ => true)
      pure ({ w with disk := { w.disk with files := files } }, "ok")
  | "recfg" :: rest => (parseCfg rest).map (fun c => ({ w with cfg := c }, "ok"))
  | ["setsettings", ver, pre, n] => do
    let ver ← ver.toNat?
    let n ← n.toNat?
    let bytes := renderSettings ver (pre == "1") n
    pure ({ w with disk := { w.disk with files := fset w.disk.files .settings ⟨bytes, bytes.length⟩ } }, "ok")
  | ["race_open", _] =>
    -- exactly one of the racing opens wins; the losers only open LOCK
    let (evs, r) := openScript H w.cfg w.disk w.handle.isSome
    match r with
    | .ok (m, sc) =>
      let (w', _) := w.exec evs (fun w => { w with handle := some m, scan := some sc })
      some (w', "winners=1 losers_already_opened=true")
    | .error e => some (w, "err " ++ showOpenErr e)
  | ["open_other"] =>
    let (evs, r) := openScript H w.cfg w.disk w.handle.isSome
    match r with
    | .error .alreadyOpened =>
      let (w', _) := w.exec evs id
      some (w', "err alreadyOpened other_events=creat LOCK")
    | _ => some (w, "unsupported-open_other-without-owner")
  | ["put", k, chunks] => do
    let k ← parseHex k
    let chunks ← parseChunks chunks
    match w.handle with
    | none => pure (w, "nohandle")
    | some m =>
      let t := w.stagingCtr
      let (evs, m', r) := putScript H m w.disk t k chunks
      let (w', o) := w.exec evs (fun w => { w with handle := some m' })
      pure (w', withOutcome armed o (match r with | .ok => "ok" | .panic _ => "panic"))
  | ["begin", id, k] => do
    let id ← id.toNat?
    let k ← parseHex k
    match w.handle with
    | none => pure (w, "nohandle")
    | some _ =>
      let t := w.stagingCtr
      let (w', o) := w.exec (beginScript t)
        (fun (w : World) => { w with txs := w.txs ++ [({ id := id, t := t, key := k, chunks := [] } : Tx)] })
      pure (w', withOutcome armed o "ok")
  | ["write", id, chunk] => do
    let id ← id.toNat?
    let c ← parseChunk chunk
    match w.txs.find? (·.id = id) with
    | none => pure (w, "notx")
    | some _ =>
      pure ({ w with txs := w.txs.map (fun t => if t.id = id then { t with chunks := t.chunks ++ [c] } else t) }, "ok")
  | ["writezeros", id, _] => do
    let id ← id.toNat?
    match w.txs.find? (·.id = id) with
    | none => pure (w, "notx")
    | some _ => pure (w, "ok")     -- content irrelevant: such a transaction is only ever abandoned
  | ["finish", id] => do
    let id ← id.toNat?
    match w.txs.find? (·.id = id), w.handle with
    | some tx, some m =>
      let (evs, m', r) := finishScript H m w.disk tx.t tx.key tx.chunks
      let (w', o) := w.exec evs (fun w => { w with handle := some m', txs := w.txs.filter (·.id ≠ id) })
      pure (w', withOutcome armed o (match r with | .ok => "ok" | .panic _ => "panic"))
    | _, _ => pure (w, "notx")
  | ["abort", id] => do
    let id ← id.toNat?
    match w.txs.find? (·.id = id) with
    | some tx =>
      let (w', o) := w.exec (abortScript tx.t) (fun w => { w with txs := w.txs.filter (·.id ≠ id) })
      pure (w', withOutcome armed o "ok")
    | none => pure (w, "notx")
  | ["remove", k] => do
    let k ← parseHex k
    match w.handle with
    | none => pure (w, "nohandle")
    | some m =>
      let (evs, m', r) := removeScript H m w.disk k
      let (w', o) := w.exec evs (fun w => { w with handle := some m' })
      pure (w', withOutcome armed o (match r with | .ok b => toString b | .error _ => "panic"))
  | ["rrange", lo, hi] => do
    let lo ← parseLo lo
    let hi ← parseHi hi
    match w.handle with
    | none => pure (w, "nohandle")
    | some m =>
      let (evs, m', r) := removeRangeScript H m w.disk lo hi
      let (w', o) := w.exec evs (fun w => { w with handle := some m' })
      pure (w', withOutcome armed o (match r with | .ok n => toString n | .error _ => "panic"))
  | ["checkpoint"] =>
    match w.handle with
    | none => some (w, "nohandle")
    | some m =>
      let (evs, m') := checkpointScript .explicit m w.disk
      let (w', o) := w.exec evs (fun w => { w with handle := some m' })
      some (w', withOutcome armed o "ok")
  | ["get", k] | ["reader", k] => do
    let k ← parseHex k
    match w.handle with
    | none => pure (w, "nohandle")
    | some m =>
      pure (w, match getBlob m w.disk k with
        | .absent => "absent" | .missing => "err missing"
        | .found c => s!"found {digest c}".replace ":" " ")
  | ["size", k] => do
    let k ← parseHex k
    match w.handle with
    | none => pure (w, "nohandle")
    | some m => pure (w, match kLookup m.idx.map k with | none => "absent" | some i => toString i.size)
  | ["getrange", k, s, e] => do
    let k ← parseHex k
    let s ← s.toNat?
    let e ← e.toNat?
    match w.handle with
    | none => pure (w, "nohandle")
    | some m =>
      match kLookup m.idx.map k with
      | none => pure (w, "absent")
      | some item =>
        if s ≥ item.size then pure (w, "ok -") else
        match w.disk.get (.cas item.hash) with
        | none => pure (w, if s > min e item.size then "err invalidRange" else "err missing")
        | some f =>
          -- one short-read pattern is as good as any other (C17_get_range): read it in one piece
          match getRange f.data item.size [min e item.size - s - 1] s e with
          | .ok out => pure (w, s!"ok {toHexString out.bytes}")
          | .error _ => pure (w, "err invalidRange")
  | ["iter"] =>
    match w.handle with
    | none => some (w, "nohandle")
    | some m => some (w, showEntries m.idx.map)
  | ["riter", lo, hi] => do
    let lo ← parseLo lo
    let hi ← parseHi hi
    match w.handle with
    | none => pure (w, "nohandle")
    | some m => pure (w, showEntries (m.idx.map.filter (fun (k, _) => inRange m.cfg.kind.lt lo hi k)))
  | ["stats"] =>
    match w.handle with
    | none => some (w, "nohandle")
    | some m => some (w, s!"{m.idx.uniqueBlobs} {m.idx.totalBytes} {m.idx.serializedSize}")
  | ["blobs"] =>
    match w.handle with
    | none => some (w, "nohandle")
    | some m =>
      let rcs := (m.idx.rc.toArray.qsort (fun a b => bytesLt a.1 b.1)).toList
      some (w, showList (fun (h, c) => s!"{toHexString h}:{c}") rcs)
  | ["leaks"] => some (w, "0")     -- no descriptor outlives the unlink of its file
  | ["len"] =>
    match w.handle with
    | none => some (w, "nohandle")
    | some m => some (w, toString m.idx.map.length)
  | ["mem"] =>
    match w.handle with
    | none => some (w, "nohandle")
    | some m => some (w, s!"next={m.next} persisted={m.idx.lastPersisted} intents=0 protected={m.protectedFailed.length}")
  | ["delete_orphans"] =>
    match w.handle, w.scan with
    | some m, some sc =>
      let (evs, del, skip, st) := deleteOrphansScript m sc w.disk
      let ninv := (sc.invalid.filter (fun p => w.disk.has (.stray p))).length
      let (w', o) := w.exec evs id
      some (w', withOutcome armed o s!"deleted={del} skipped={skip} invalid={ninv} staging={st} errors=0")
    | _, _ => some (w, "nostats")
  | ["delete_orphan", h] => do
    let h ← parseHex h
    match w.handle, w.scan with
    | some m, some sc =>
      let (evs, r) := deleteOrphanScript m sc w.disk h
      let (w', o) := w.exec evs id
      pure (w', withOutcome armed o (if r then "true" else "false"))
    | _, _ => pure (w, "nostats")
  | ["quarantine"] =>
    match w.handle, w.scan with
    | some m, some sc =>
      let (evs, q, sk) := quarantineScript m sc w.disk
      let (w', o) := w.exec evs id
      some (w', withOutcome armed o s!"quarantined={q} skipped={sk} errors=0")
    | _, _ => some (w, "nostats")
  | ["idxq", k] => do
    let k ← parseHex k
    match w.handle with
    | none => pure (w, "nohandle")
    | some m =>
      let item := kLookup m.idx.map k
      let it := match item with
        | some i => s!"{toHexString i.hash}:{i.size}"
        | none => "notfound"
      let known := match item with
        | some i => (rcGet m.idx.rc i.hash).isSome
        | none => false
      pure (w, s!"contains={item.isSome} item={it} empty={m.idx.map.isEmpty} len={m.idx.map.length} hashknown={known} keys={m.idx.map.length}")
  | ["traceset"] =>
    let l := (w.trace.filterMap evText).toArray.qsort (· < ·) |>.toList
    some ({ w with trace := [] }, if l.isEmpty then "_" else ";".intercalate l)
  | ["plant", c] => do
    let c ← parseHex c
    let h := H c
    let dirs := match relativePath h with
      | [a, b, _] => [[asciiBytes "cas"], [asciiBytes "cas", a], [asciiBytes "cas", a, b]]
      | _ => []
    let d := { w.disk with files := fset w.disk.files (.cas h) ⟨c, c.length⟩,
                           dirs := w.disk.dirs ++ dirs.filter (fun p => !w.disk.dirs.contains p) }
    pure ({ w with disk := d }, "ok")
  | ["plantpath", path, c] => do
    let comps ← (path.splitOn "/").mapM parseHex
    let c ← parseHex c
    let fid := match fromCanonicalPath comps with
      | some h => FileId.cas h
      | none => FileId.stray comps
    let dirs := (List.range (comps.length - 1)).map (fun i => asciiBytes "cas" :: comps.take (i + 1))
    let d := { w.disk with files := fset w.disk.files fid ⟨c, c.length⟩,
                           dirs := w.disk.dirs ++ (([asciiBytes "cas"] :: dirs).filter (fun p => !w.disk.dirs.contains p)) }
    pure ({ w with disk := d }, "ok")
  | ["rmblob", h] => do
    let h ← parseHex h
    pure ({ w with disk := { w.disk with files := fdel w.disk.files (.cas h) } }, "ok")
  | ["setblob", h, c] => do
    let h ← parseHex h
    let c ← parseHex c
    pure ({ w with disk := { w.disk with files := fset w.disk.files (.cas h) ⟨c, c.length⟩ } }, "ok")
  | ["plantstaging", c] => do
    let c ← parseHex c
    let n := w.stagingCtr
    pure ({ w with stagingCtr := n + 1,
                   disk := { w.disk with files := fset w.disk.files (.staging n) ⟨c, c.length⟩,
                                         dirs := if w.disk.dirs.contains [asciiBytes "staging"] then w.disk.dirs else w.disk.dirs ++ [[asciiBytes "staging"]] } }, "ok")
  | ["orphans"] =>
    match w.scan with
    | some sc =>
      let srt (l : List Bytes) := showList toHexString ((l.toArray.qsort (fun a b => bytesLt a b)).toList)
      let inv := (sc.invalid.map (fun p => "cas/" ++ "/".intercalate (p.map asciiString))).toArray.qsort (· < ·) |>.toList
      some (w, s!"orphaned={srt sc.orphaned} missing={srt sc.missing} corrupted={srt sc.corrupted} invalid={showList id inv} staging={sc.staging.length} total={sc.total}")
    | none => some (w, "nostats")
  | ["orphan_order"] =>
    match w.scan with
    | some sc => some (w, showList toHexString sc.orphaned)
    | none => some (w, "nostats")
  | ["dump"] => some (w, showDump w.disk)
  | ["trace"] => some ({ w with trace := [] }, showTrace w.trace)
  | _ => none

/-! ### concurrent protocol -/

def pcName : Conc.Pc → String
  | .idle => "idle"
  | .putReg .. => "put.before_register" | .putRename .. => "put.before_rename"
  | .apIntents .. => "apply.before_intents" | .apState .. => "apply.before_state"
  | .apWal .. => "apply.before_wal" | .apUnlink .. => "delete_blobs.before_unlink"
  | .apUnlocked .. => "apply.after_intents_unlock"
  | .ckState .. => "checkpoint.before_state" | .ckWal .. => "checkpoint.before_wal"
  | .rmScan .. => "remove.before_scan" | .rrScan .. => "remove_range.before_scan"
  | .rdLookup .. => "read.before_lookup" | .rdLookupR .. => "read.before_lookup"
  | .rdOpened .. => "read.after_open"
  | .orIntents .. => "orphan.before_intents" | .orState .. => "orphan.before_state"
  | .orUnlink .. => "orphan.before_unlink" | .orUnlocked .. => "orphan.after_unlock"

def resText : Conc.Res → String
  | .ok => "ok" | .bool b => s!"bool_{b}" | .count n => s!"count_{n}" | .absent => "absent"
  | .found c => s!"found_{toHexString c}" | .missing => "err_missing"
  | .cleaned d s => s!"cleaned_{d}_{s}" | .panic => "panic"

def shortD (s : String) : String := toHexString ((H s.toUTF8.toList).take 4)

def parseCOp (s : String) : Option Conc.COp :=
  match s.splitOn ":" with
  | ["put", k, c] => do
    let k ← parseHex k
    let cs ← parseChunks c
    pure (.put k cs.flatten)
  | ["abort", k, c] => do
    let k ← parseHex k
    let cs ← parseChunks c
    pure (.abort k cs.flatten)
  | ["remove", k] => (parseHex k).map .remove
  | ["rrange", lo, hi] => do
    let lo ← parseLo lo
    let hi ← parseHi hi
    pure (.removeRange lo hi)
  | ["get", k] => (parseHex k).map .get
  | ["reader", k] => (parseHex k).map .get      -- get_reader + read to the end: the same read path
  | ["grange", k, s, e] => do
    let k ← parseHex k
    let s ← s.toNat?
    let e ← e.toNat?
    pure (.getRange k s e)
  | ["ckpt"] => some .checkpoint
  | ["cleanup", hs] => (parseList parseHex hs).map .cleanup
  | _ => none

def concObs (sh : Conc.Shared) : String :=
  let mask := (if sh.lockIntents.isSome then 1 else 0) + (if sh.lockState.isSome then 2 else 0)
  let files := ((sh.cas.map (·.1)).toArray.qsort (fun a b => bytesLt a b)).toList
  let casD := shortD (";".intercalate (files.map toHexString))
  let idxD := if sh.lockState.isNone then
      shortD (";".intercalate (sh.idx.map.map (fun (k, i) => s!"{toHexString k}:{toHexString i.hash}:{i.size}")))
    else "L"
  let protD := if sh.lockIntents.isNone then
      let bk := (sh.byKey.toArray.qsort (fun a b => sh.kind.lt a.1 b.1)).toList
      let pr := (sh.prot.toArray.qsort (fun a b => bytesLt a.1 b.1)).toList
      shortD (";".intercalate (bk.map (fun (k, h) => s!"{toHexString k}:{toHexString h}")) ++ "|" ++
              ";".intercalate (pr.map (fun (h, c) => s!"{toHexString h}:{c}")))
    else "L"
  let dangling := sh.lockState.isNone && sh.idx.map.any (fun (_, i) => (Conc.casGet sh.cas i.hash).isNone)
  s!"{mask}:{idxD}:{casD}:{protD}" ++ (if dangling then ":DANGLING" else "")

def concRun (s : Conc.Sys) (sched : List Nat) : Conc.Sys × List String :=
  let rec go (s : Conc.Sys) (sched : List Nat) (acc : List String) : Conc.Sys × List String :=
    match sched with
    | [] => (s, acc.reverse)
    | t :: ts =>
      match Conc.step H s t with
      | none => (s, (s!"{t}:BLOCKED" :: acc).reverse)
      | some s' =>
        let th := s'.threads[t]?.getD { ops := [] }
        let wh := match th.pc, th.ops with
          | .idle, [] => "done"
          | pc, _ => pcName pc
        let last := match th.results.getLast? with | some r => shortD (resText r) | none => "-"
        go s' ts (s!"{t}:{wh}:{th.results.length}:{last}:{concObs s'.sh}" :: acc)
  go s sched []

def concStep (w : World) (toks : List String) : Option String := do
  let m ← w.handle
  match toks with
  | schedTok :: progs =>
    let schedS ← (if schedTok.startsWith "sched=" then some (schedTok.drop 6).toString else none)
    let sched ← (if schedS.isEmpty then some [] else (schedS.splitOn ",").mapM String.toNat?)
    let programs ← progs.mapM (fun p => (p.splitOn ";").mapM parseCOp)
    let sh : Conc.Shared := { kind := m.cfg.kind, N := m.cfg.N, idx := m.idx, next := m.next,
                              cas := (casFiles w.disk).map (fun (h, f) => (h, f.data)) }
    let s0 : Conc.Sys := { sh := sh, threads := programs.map (fun ops => { ops := ops }) }
    let (s1, obs) := concRun s0 sched
    let res := "/".intercalate (s1.threads.map (fun th => ",".intercalate (th.results.map resText)))
    let files := ((s1.sh.cas.map (·.1)).toArray.qsort (fun a b => bytesLt a b)).toList
    let refd := ((refdHashes s1.sh.idx.map).toArray.qsort (fun a b => bytesLt a b)).toList
    let exact := if files == refd then "EXACT" else "INEXACT"
    pure (" | ".intercalate (obs ++ [s!"final:{res}:{concObs s1.sh}:{exact}"]))
  | [] => none

/-- after a fault left state behind in memory (retained WAL bytes, kept protection) the mutating
    calls go through the Fault versions of the scripts, with no fault armed -/
def stripFault (r : String) : String :=
  match r.splitOn " " with
  | "fault" :: _ :: rest => " ".intercalate rest
  | _ => r

def storeStep (w : World) (toks : List String) : Option (World × String) :=
  match w.failAt with
  | some k => faultStep w k toks
  | none =>
    let dirty := match w.handle with | some m => memDirty m | none => false
    let mutating := match toks with
      | "put" :: _ | "remove" :: _ | "rrange" :: _ | ["close"] => true
      | _ => false
    if dirty && mutating && w.plan.isNone then
      (faultStep w 1000000000 toks).map (fun (w', r) => (w', stripFault r))
    else storeStepNormal w toks

/-- slice `c11p`: calls of `open`, clones, drops and process deaths by several processes -/
def lkStep (st : DState) : List String → Option (DState × String)
  | ["reset"] => some ({ st with lk := {}, lkSlots := [], lkOwner := none }, "ok")
  | ["open", slot, p, mode] => do
    let p ← p.toNat?
    let (good, stats) ← (match mode with
      | "good0" => some (true, false)
      | "good1" => some (true, true)
      | "bad" => some (false, false)
      | _ => none)
    let o := st.lk.next
    let (s', out) := Lock.openCall st.lk p good stats
    match out with
    | .granted => some ({ st with lk := s', lkSlots := (slot, o) :: st.lkSlots.filter (fun x => x.1 ≠ slot) }, "granted")
    | .refused => some ({ st with lk := s' }, "refused")
    | .ok => some ({ st with lk := s' }, "failed")
    | _ => none
  | ["clone", slot, _p] =>
    match st.lkSlots.lookup slot with
    | some o =>
      let s' := (Lock.step st.lk (.clone o)).1
      some ({ st with lk := s' }, match s'.refs o with | some n => s!"refs={n}" | none => "none")
    | none => some (st, "none")
  | ["drop", slot, _p, _kind] =>
    match st.lkSlots.lookup slot with
    | some o =>
      let (s', out) := Lock.step st.lk (.drop o)
      some ({ st with lk := s' }, match s'.refs o with
        | some n => s!"refs={n}"
        | none => if out = .ok then "refs=0" else "none")
    | none => some (st, "none")
  | ["die", p] => do
    let p ← p.toNat?
    some ({ st with lk := (Lock.step st.lk (.die p)).1 }, "ok")
  | ["live"] =>
    let names := (st.lkSlots.filter (fun x => st.lk.liveList.contains x.2)).map (·.1)
    let sorted := (names.toArray.qsort (fun a b => a < b)).toList
    some (st, if sorted.isEmpty then "-" else ",".intercalate sorted)
  | _ => none

/-- slice `c11sys`: process `p` sends one request. Several processes, ONE world: the store is
    the owner's (`C11System.mRun_eq_lRun`); a call of `open` by anybody while it is owned is
    refused and changes nothing; requests of a process that does not own it find no handle. -/
def atStep (st : DState) (p : Nat) (toks : List String) : Option (DState × String) :=
  match toks with
  | ["open"] =>
    match st.lkOwner with
    | some _ =>
      let (evs, r) := openScript H st.w.cfg st.w.disk true
      let (w', _) := st.w.exec evs id
      some ({ st with w := w' }, match r with | .ok _ => "ok second-handle" | .error e => "err " ++ showOpenErr e)
    | none =>
      match storeStep st.w ["open"] with
      | some (w', r) => some ({ st with w := w', lkOwner := if w'.handle.isSome then some p else none }, r)
      | none => none
  | ["die"] =>
    if st.lkOwner = some p then
      match storeStep st.w ["exit"] with
      | some (w', _) => some ({ st with w := w', lkOwner := none }, "ok")
      | none => none
    else some (st, "ok")
  | ["close"] =>
    if st.lkOwner = some p then
      match storeStep st.w ["close"] with
      | some (w', r) => some ({ st with w := w', lkOwner := none }, r)
      | none => none
    else some (st, "ok")
  | _ =>
    if st.lkOwner = some p then
      match storeStep st.w toks with
      | some (w', r) => some ({ st with w := w' }, r)
      | none => none
    else some (st, "nohandle")

def step (st : DState) (line : String) : DState × String :=
  match line.trimAscii.toString.splitOn " " with
  | "at" :: p :: rest =>
    match p.toNat? with
    | some p => (match atStep st p rest with | some r => r | none => (st, "bad-op"))
    | none => (st, "bad-op")
  | "lk" :: rest =>
    match lkStep st rest with
    | some r => r
    | none => (st, "bad-op")
  | ["blake3", x] =>
    match parseHex x with
    | some bs => (st, toHexString (H bs))
    | none => (st, "bad-op")
  | ["walop_ser", "put", k, h, sz] =>
    match parseHex k, parseHex h, sz.toNat? with
    | some k, some h, some sz => (st, toHexString (serWalOp (.put k h sz)))
    | _, _, _ => (st, "bad-op")
  | ["walop_ser", "remove", ks] =>
    match parseList parseHex ks with
    | some ks => (st, toHexString (serWalOp (.remove ks)))
    | none => (st, "bad-op")
  | ["walop_de", x] =>
    match parseHex x with
    | some bs =>
      match deserWalOp bs with
      | .ok op => (st, "ok " ++ showRawOp op)
      | .error e => (st, "err " ++ showDecErr e)
    | none => (st, "bad-op")
  | ["index_ser", ver, es] =>
    match ver.toNat?, (if es = "_" then some [] else (es.splitOn ";").mapM parseEntry) with
    | some ver, some es => (st, toHexString (serIndex es ver))
    | _, _ => (st, "bad-op")
  | ["index_de", x] =>
    match parseHex x with
    | some bs =>
      match deserIndex bs with
      | .ok (es, ver) =>
        let es := rawMapOfEntries es
        (st, s!"ok {ver} " ++ (if es.isEmpty then "_" else ";".intercalate (es.map showEntry)))
      | .error e => (st, "err " ++ showDecErr e)
    | none => (st, "bad-op")
  | ["key_valid", kind, x] =>
    match parseKind kind, parseHex x with
    | some kd, some bs => (st, if kd.valid bs then "1" else "0")
    | _, _ => (st, "bad-op")
  | ["key_cmp", kind, a, b] =>
    match parseKind kind, parseHex a, parseHex b with
    | some kd, some a, some b =>
      (st, if kd.lt a b then "lt" else if kd.lt b a then "gt" else "eq")
    | _, _, _ => (st, "bad-op")
  | ["frame_enc", ver, p] =>
    match ver.toNat?, parseHex p with
    | some v, some p => (st, toHexString (encodeEntry H ⟨v, p⟩))
    | _, _ => (st, "bad-op")
  | ["frame_read", x] =>
    match parseHex x with
    | some bs =>
      -- report the entries read before an error, like the Rust iterator does
      let rec go (fuel : Nat) (bs : Bytes) (acc : List String) : String :=
        match fuel with
        | 0 => " ".intercalate (acc.reverse ++ ["end"])
        | f+1 =>
          match readNext H bs with
          | .done => " ".intercalate (acc.reverse ++ ["end"])
          | .err e => " ".intercalate (acc.reverse ++ ["err", showReadErr e])
          | .entry r rest => go f rest (s!"{r.ver}:{toHexString r.payload}" :: acc)
      (st, go (bs.length / 45 + 1) bs [])
    | none => (st, "bad-op")
  | ["path_rel", h] =>
    match parseHex h with
    | some h => (st, "/".intercalate ((relativePath h).map asciiString))
    | none => (st, "bad-op")
  | ["path_from", p] =>
    match (p.splitOn "/").mapM parseHex with
    | some comps =>
      match fromRelativePath comps with
      | some h => (st, "ok " ++ toHexString h)
      | none => (st, "err")
    | none => (st, "bad-op")
  | ["path_canon", p] =>
    match (p.splitOn "/").mapM parseHex with
    | some comps =>
      match fromCanonicalPath comps with
      | some h => (st, "ok " ++ toHexString h)
      | none => (st, "err")
    | none => (st, "bad-op")
  | ["range", c, s, e, picks] =>
    match parseHex c, s.toNat?, e.toNat?, parseList String.toNat? picks with
    | some c, some s, some e, some picks =>
      match getRange c c.length (if picks.isEmpty then [min e c.length - s - 1] else picks) s e with
      | .ok out => (st, s!"ok {toHexString out.bytes} {out.capacity}")
      | .error _ => (st, "err invalidRange")
    | _, _, _, _ => (st, "bad-op")
  | ["seg_for", n, v] =>
    match n.toNat?, v.toNat? with
    | some n, some v => if n = 0 ∨ v = 0 then (st, "bad-op") else (st, toString ((v - 1) / n))
    | _, _ => (st, "bad-op")
  | ["idx_new", kind] =>
    match parseKind kind with
    | some kd => ({ st with kind := kd, idx := {} }, "ok")
    | none => (st, "bad-op")
  | ["idx_apply", "put", k, h, sz] =>
    match parseHex k, parseHex h, sz.toNat? with
    | some k, some h, some sz =>
      match applyOp st.kind.lt st.idx (.put k h sz) with
      | .ok (s', un) => ({ st with idx := s' }, "ok " ++ showList toHexString un)
      | .error e => (st, "panic " ++ showIdxPanic e)
    | _, _, _ => (st, "bad-op")
  | ["idx_apply", "remove", ks] =>
    match parseList parseHex ks with
    | some ks =>
      match applyOp st.kind.lt st.idx (.remove ks) with
      | .ok (s', un) => ({ st with idx := s' }, "ok " ++ showList toHexString un)
      | .error e => (st, "panic " ++ showIdxPanic e)
    | none => (st, "bad-op")
  | ["idx_recompute", n] =>
    match n.toNat? with
    | some n => ({ st with idx := recomputeStats st.idx n }, "ok")
    | none => (st, "bad-op")
  | ["idx_obs"] => (st, showIdxObs st.idx)
  | "conc" :: rest =>
    match concStep st.w rest with
    | some r => (st, r)
    | none => (st, "bad-op")
  | toks =>
    match storeStep st.w toks with
    | some (w', r) => ({ st with w := w' }, r)
    | none => (st, "bad-op")

partial def loop (h : IO.FS.Stream) (out : IO.FS.Stream) (st : DState) : IO Unit := do
  let line ← h.getLine
  if line.isEmpty then return ()
  if line.startsWith "#" then
    out.putStrLn line.trimAscii.toString
    loop h out st
  else
    let (st', r) := step st line
    out.putStrLn r
    loop h out st'

def main : IO Unit := do
  let stdin ← IO.getStdin
  let stdout ← IO.getStdout
  loop stdin stdout {}
