import CasModel.Bytes
import CasModel.Codec
import CasModel.Frame
import CasModel.Path
import CasModel.Range
import CasModel.Keys
import CasModel.Index
import CasModel.Blake3
import CasModel.Wire
/-
  Model driver: one request per input line, one response line per request.
  The functions called here are the ones the theorems are about; this file only parses and prints.
-/
open CasModel CasModel.Wire

def H (bs : Bytes) : Bytes := Blake3.hashList bs

def parseKind (s : String) : Option KeyKind :=
  match s with
  | "bytes" => some .bytes
  | "string" => some .string
  | "u8" => some (.uint 1) | "u16" => some (.uint 2) | "u32" => some (.uint 4)
  | "u64" => some (.uint 8) | "u128" => some (.uint 16)
  | "i8" => some (.sint 1) | "i16" => some (.sint 2) | "i32" => some (.sint 4)
  | "i64" => some (.sint 8) | "i128" => some (.sint 16)
  | _ => if s.startsWith "fixed" then (s.drop 5).toNat?.map .fixed else none

def showDecErr : DecErr → String
  | .eof => "eof" | .insufficient => "insufficient" | .badTag => "badtag"

def showRawOp : RawOp → String
  | .put k h s => s!"put {toHexString k} {toHexString h} {s}"
  | .remove ks => s!"remove {showList toHexString ks}"

def parseEntry (s : String) : Option Entry :=
  match s.splitOn ":" with
  | [k, h, sz] => do
    let k ← parseHex k; let h ← parseHex h; let sz ← sz.toNat?
    pure ⟨k, h, sz⟩
  | _ => none

def showEntry (e : Entry) : String := s!"{toHexString e.key}:{toHexString e.hash}:{e.size}"

/-- the `BTreeMap<Vec<u8>,_>` the Rust decoder builds: byte order, last occurrence wins -/
def rawMapOfEntries (es : List Entry) : List Entry :=
  let m : KMap Bytes := es.foldl (fun m e => (kInsert bytesLt m e.key ⟨e.hash, e.size⟩).1) []
  m.map (fun (k, i) => ⟨k, i.hash, i.size⟩)

def showReadErr : ReadErr → String
  | .shortPayload => "shortPayload" | .checksum => "checksum"

structure DState where
  kind : KeyKind := .bytes
  idx : IndexState Bytes := {}

def showIdxPanic : IdxPanic → String
  | .decrementZero => "decrementZero" | .hashNotFound => "hashNotFound"
  | .sizeMismatch => "sizeMismatch" | .statsUnderflow => "statsUnderflow"

def sortBytes (l : List Bytes) : List Bytes :=
  (l.toArray.qsort (fun a b => bytesLt a b)).toList

def showIdxObs (s : IndexState Bytes) : String :=
  let es := showList (fun (k, i) => s!"{toHexString k}:{toHexString i.hash}:{i.size}") s.map
  let rcs := (s.rc.toArray.qsort (fun a b => bytesLt a.1 b.1)).toList
  let rc := showList (fun (h, c) => s!"{toHexString h}:{c}") rcs
  s!"{es} {rc} {s.uniqueBlobs} {s.totalBytes}"

def step (st : DState) (line : String) : DState × String :=
  match line.trimAscii.toString.splitOn " " with
  | ["blake3", x] =>
    match parseHex x with
    | some bs => (st, toHexString (H bs))
    | none => (st, "bad-op")
  | ["walop_ser", "put", k, h, sz] =>
    match parseHex k, parseHex h, sz.toNat? with
    | some k, some h, some sz => (st, toHexString (serWalOp (.put k h sz)))
    | _, _, _ => (st, "bad-op")
  | ["walop_ser", "remove", ks] =>
    match parseList parseHex ks with
    | some ks => (st, toHexString (serWalOp (.remove ks)))
    | none => (st, "bad-op")
  | ["walop_de", x] =>
    match parseHex x with
    | some bs =>
      match deserWalOp bs with
      | .ok op => (st, "ok " ++ showRawOp op)
      | .error e => (st, "err " ++ showDecErr e)
    | none => (st, "bad-op")
  | ["index_ser", ver, es] =>
    match ver.toNat?, (if es = "_" then some [] else (es.splitOn ";").mapM parseEntry) with
    | some ver, some es => (st, toHexString (serIndex es ver))
    | _, _ => (st, "bad-op")
  | ["index_de", x] =>
    match parseHex x with
    | some bs =>
      match deserIndex bs with
      | .ok (es, ver) =>
        let es := rawMapOfEntries es
        (st, s!"ok {ver} " ++ (if es.isEmpty then "_" else ";".intercalate (es.map showEntry)))
      | .error e => (st, "err " ++ showDecErr e)
    | none => (st, "bad-op")
  | ["key_valid", kind, x] =>
    match parseKind kind, parseHex x with
    | some kd, some bs => (st, if kd.valid bs then "1" else "0")
    | _, _ => (st, "bad-op")
  | ["key_cmp", kind, a, b] =>
    match parseKind kind, parseHex a, parseHex b with
    | some kd, some a, some b =>
      (st, if kd.lt a b then "lt" else if kd.lt b a then "gt" else "eq")
    | _, _, _ => (st, "bad-op")
  | ["frame_enc", ver, p] =>
    match ver.toNat?, parseHex p with
    | some v, some p => (st, toHexString (encodeEntry H ⟨v, p⟩))
    | _, _ => (st, "bad-op")
  | ["frame_read", x] =>
    match parseHex x with
    | some bs =>
      -- report the entries read before an error, like the Rust iterator does
      let rec go (fuel : Nat) (bs : Bytes) (acc : List String) : String :=
        match fuel with
        | 0 => " ".intercalate (acc.reverse ++ ["end"])
        | f+1 =>
          match readNext H bs with
          | .done => " ".intercalate (acc.reverse ++ ["end"])
          | .err e => " ".intercalate (acc.reverse ++ ["err", showReadErr e])
          | .entry r rest => go f rest (s!"{r.ver}:{toHexString r.payload}" :: acc)
      (st, go (bs.length / 45 + 1) bs [])
    | none => (st, "bad-op")
  | ["path_rel", h] =>
    match parseHex h with
    | some h => (st, "/".intercalate ((relativePath h).map asciiString))
    | none => (st, "bad-op")
  | ["path_from", p] =>
    match (p.splitOn "/").mapM parseHex with
    | some comps =>
      match fromRelativePath comps with
      | some h => (st, "ok " ++ toHexString h)
      | none => (st, "err")
    | none => (st, "bad-op")
  | ["path_canon", p] =>
    match (p.splitOn "/").mapM parseHex with
    | some comps =>
      match fromCanonicalPath comps with
      | some h => (st, "ok " ++ toHexString h)
      | none => (st, "err")
    | none => (st, "bad-op")
  | ["range", c, s, e, picks] =>
    match parseHex c, s.toNat?, e.toNat?, parseList String.toNat? picks with
    | some c, some s, some e, some picks =>
      match getRange c c.length picks s e with
      | .ok out => (st, s!"ok {toHexString out.bytes} {out.capacity}")
      | .error _ => (st, "err invalidRange")
    | _, _, _, _ => (st, "bad-op")
  | ["seg_for", n, v] =>
    match n.toNat?, v.toNat? with
    | some n, some v => if n = 0 ∨ v = 0 then (st, "bad-op") else (st, toString ((v - 1) / n))
    | _, _ => (st, "bad-op")
  | ["idx_new", kind] =>
    match parseKind kind with
    | some kd => ({ st with kind := kd, idx := {} }, "ok")
    | none => (st, "bad-op")
  | ["idx_apply", "put", k, h, sz] =>
    match parseHex k, parseHex h, sz.toNat? with
    | some k, some h, some sz =>
      match applyOp st.kind.lt st.idx (.put k h sz) with
      | .ok (s', un) => ({ st with idx := s' }, "ok " ++ showList toHexString un)
      | .error e => (st, "panic " ++ showIdxPanic e)
    | _, _, _ => (st, "bad-op")
  | ["idx_apply", "remove", ks] =>
    match parseList parseHex ks with
    | some ks =>
      match applyOp st.kind.lt st.idx (.remove ks) with
      | .ok (s', un) => ({ st with idx := s' }, "ok " ++ showList toHexString un)
      | .error e => (st, "panic " ++ showIdxPanic e)
    | none => (st, "bad-op")
  | ["idx_recompute", n] =>
    match n.toNat? with
    | some n => ({ st with idx := recomputeStats st.idx n }, "ok")
    | none => (st, "bad-op")
  | ["idx_obs"] => (st, showIdxObs st.idx)
  | _ => (st, "bad-op")

partial def loop (h : IO.FS.Stream) (out : IO.FS.Stream) (st : DState) : IO Unit := do
  let line ← h.getLine
  if line.isEmpty then return ()
  if line.startsWith "#" then
    out.putStrLn line.trimAscii.toString
    loop h out st
  else
    let (st', r) := step st line
    out.putStrLn r
    loop h out st'

def main : IO Unit := do
  let stdin ← IO.getStdin
  let stdout ← IO.getStdout
  loop stdin stdout {}
