// fsio.so — LD_PRELOAD filesystem interposer for the correspondence harness.
//
// Observes (trace), kills before (crash) or fails (fault) the mutating filesystem calls a process
// makes below one directory ("root").  Controlled in-process through the exported fsio_* functions
// (looked up with dlsym by the harness) — or through the environment for child processes:
//   FSIO_ROOT=<dir>  FSIO_LOG=<file>  FSIO_KILL_AT=<k>  FSIO_FAIL_AT=<k>  FSIO_DROP_STAGING_SYNC=1
//
// Event lines (paths relative to root):
//   mkdir <p> | creat <p> <trunc|excl|append|plain> | write <p> <hex> | sync <p>
//   rename <a> <b> | unlink <p> | flock | # <comment>
// Only calls that succeed are logged. The counter used by kill/fail counts exactly the calls that
// are logged, except writes to files under staging/ (and, if requested, syncs of them), so that
// "k" means the same thing for the real code and for the model's event scripts.
#define _GNU_SOURCE
#include <dlfcn.h>
#include <errno.h>
#include <fcntl.h>
#include <pthread.h>
#include <stdarg.h>
#include <stdio.h>
#include <stdlib.h>
#include <string.h>
#include <sys/file.h>
#include <sys/stat.h>
#include <sys/syscall.h>
#include <sys/types.h>
#include <unistd.h>

static pthread_mutex_t mu = PTHREAD_MUTEX_INITIALIZER;
static char root[4096];
static size_t rootlen = 0;
static long counter = 0;      // counted events so far
static long kill_at = 0;      // kill before the kill_at-th counted event (1-based); 0 = off
static long fail_at = 0;      // fail the fail_at-th counted event; 0 = off
static int drop_staging_sync = 0;
static int log_fd = -1;
static char *buf = NULL;      // in-memory log
static size_t buflen = 0, bufcap = 0;
static int inited = 0;
static __thread int busy = 0;

static int (*real_open)(const char *, int, ...);
static int (*real_open64)(const char *, int, ...);
static int (*real_openat)(int, const char *, int, ...);
static ssize_t (*real_write)(int, const void *, size_t);
static ssize_t (*real_pwrite64)(int, const void *, size_t, off_t);
static int (*real_fsync)(int);
static int (*real_fdatasync)(int);
static int (*real_rename)(const char *, const char *);
static int (*real_unlink)(const char *);
static int (*real_unlinkat)(int, const char *, int);
static int (*real_mkdir)(const char *, mode_t);
static int (*real_flock)(int, int);

static void init(void) {
    if (inited) return;
    inited = 1;
    real_open = dlsym(RTLD_NEXT, "open");
    real_open64 = dlsym(RTLD_NEXT, "open64");
    real_openat = dlsym(RTLD_NEXT, "openat");
    real_write = dlsym(RTLD_NEXT, "write");
    real_pwrite64 = dlsym(RTLD_NEXT, "pwrite64");
    real_fsync = dlsym(RTLD_NEXT, "fsync");
    real_fdatasync = dlsym(RTLD_NEXT, "fdatasync");
    real_rename = dlsym(RTLD_NEXT, "rename");
    real_unlink = dlsym(RTLD_NEXT, "unlink");
    real_unlinkat = dlsym(RTLD_NEXT, "unlinkat");
    real_mkdir = dlsym(RTLD_NEXT, "mkdir");
    real_flock = dlsym(RTLD_NEXT, "flock");
    const char *r = getenv("FSIO_ROOT");
    if (r) { strncpy(root, r, sizeof root - 1); rootlen = strlen(root); }
    const char *l = getenv("FSIO_LOG");
    if (l) log_fd = (int)syscall(SYS_open, l, O_WRONLY | O_CREAT | O_APPEND, 0644);
    const char *k = getenv("FSIO_KILL_AT");
    if (k) kill_at = atol(k);
    const char *f = getenv("FSIO_FAIL_AT");
    if (f) fail_at = atol(f);
    if (getenv("FSIO_DROP_STAGING_SYNC")) drop_staging_sync = 1;
}

// ---- control API (in-process) ------------------------------------------------------------
void fsio_set_root(const char *r) {
    init();
    pthread_mutex_lock(&mu);
    strncpy(root, r, sizeof root - 1);
    rootlen = strlen(root);
    counter = 0; kill_at = 0; fail_at = 0; buflen = 0;
    pthread_mutex_unlock(&mu);
}
void fsio_set_fail_at(long k) { pthread_mutex_lock(&mu); fail_at = k; pthread_mutex_unlock(&mu); }
void fsio_set_kill_at(long k) { pthread_mutex_lock(&mu); kill_at = k; pthread_mutex_unlock(&mu); }
void fsio_set_drop_staging_sync(int v) { drop_staging_sync = v; }
long fsio_counter(void) { return counter; }
void fsio_reset_counter(void) { pthread_mutex_lock(&mu); counter = 0; pthread_mutex_unlock(&mu); }
// copy and clear the in-memory log; returns the number of bytes (0 if cap too small → nothing lost)
size_t fsio_drain(char *out, size_t cap) {
    pthread_mutex_lock(&mu);
    size_t n = buflen;
    if (n > cap) { pthread_mutex_unlock(&mu); return (size_t)-1; }
    memcpy(out, buf, n);
    buflen = 0;
    pthread_mutex_unlock(&mu);
    return n;
}
size_t fsio_pending(void) { return buflen; }

// ---- helpers -----------------------------------------------------------------------------
static const char *rel(const char *path, char *tmp, size_t tmpsz) {
    // absolute path under root → pointer to the relative part; else NULL
    if (!rootlen || !path) return NULL;
    const char *p = path;
    if (path[0] != '/') {
        // relative to cwd: resolve
        char cwd[2048];
        if (!getcwd(cwd, sizeof cwd)) return NULL;
        snprintf(tmp, tmpsz, "%s/%s", cwd, path);
        p = tmp;
    }
    if (strncmp(p, root, rootlen) != 0) return NULL;
    if (p[rootlen] == '/') return p + rootlen + 1;
    if (p[rootlen] == 0) return "";
    return NULL;
}

static const char *fdrel(int fd, char *tmp, size_t tmpsz) {
    char link[64];
    snprintf(link, sizeof link, "/proc/self/fd/%d", fd);
    ssize_t n = readlink(link, tmp, tmpsz - 1);
    if (n <= 0) return NULL;
    tmp[n] = 0;
    char *del = strstr(tmp, " (deleted)");
    if (del && del[10] == 0) *del = 0;
    if (!rootlen || strncmp(tmp, root, rootlen) != 0 || tmp[rootlen] != '/') return NULL;
    return tmp + rootlen + 1;
}

static void log_line(const char *s, size_t n) {
    if (log_fd >= 0) {
        // file log (survives a kill); one write per line so that lines are never torn
        char *l = malloc(n + 1);
        if (l) { memcpy(l, s, n); l[n] = '\n'; syscall(SYS_write, log_fd, l, n + 1); free(l); }
        return;
    }
    if (buflen + n + 1 > bufcap) {
        size_t nc = bufcap ? bufcap * 2 : 1 << 16;
        while (nc < buflen + n + 1) nc *= 2;
        char *nb = realloc(buf, nc);
        if (!nb) return;
        buf = nb; bufcap = nc;
    }
    memcpy(buf + buflen, s, n);
    buflen += n;
    buf[buflen++] = '\n';
}

static void logf_(const char *fmt, ...) {
    char line[8400];
    va_list ap;
    va_start(ap, fmt);
    int n = vsnprintf(line, sizeof line, fmt, ap);
    va_end(ap);
    if (n < 0) return;
    if ((size_t)n >= sizeof line) n = sizeof line - 1;
    log_line(line, (size_t)n);
}

static int is_staging(const char *r) { return strncmp(r, "staging/", 8) == 0; }

// Called with mu held, before a counted call. Returns 1 if the call must fail (injected).
static int gate(const char *what, const char *r) {
    counter++;
    if (kill_at && counter == kill_at) {
        logf_("# kill before %ld: %s %s", counter, what, r);
        _exit(137);
    }
    if (fail_at && counter == fail_at) {
        logf_("# fail %ld: %s %s", counter, what, r);
        return 1;
    }
    return 0;
}

// ---- interposed calls ----------------------------------------------------------------------
static int open_common(int which, int dirfd, const char *path, int flags, mode_t mode) {
    init();
    char tmp[4608];
    const char *r = NULL;
    if (!busy && (which != 2 || dirfd == AT_FDCWD || (path && path[0] == '/')))
        r = rel(path, tmp, sizeof tmp);
    int mutating = r && (flags & (O_CREAT | O_TRUNC));
    if (mutating) {
        busy = 1;
        pthread_mutex_lock(&mu);
        const char *kind = (flags & O_EXCL) ? "excl" : (flags & O_TRUNC) ? "trunc" : (flags & O_APPEND) ? "append" : "plain";
        // an O_EXCL create of an existing name would fail: not counted
        struct stat st;
        int exists = (stat(path, &st) == 0);
        int would_succeed = !((flags & O_EXCL) && exists);
        if (would_succeed && gate("creat", r)) {
            pthread_mutex_unlock(&mu); busy = 0; errno = EIO; return -1;
        }
        int fd = which == 0 ? real_open(path, flags, mode) : which == 1 ? real_open64(path, flags, mode) : real_openat(dirfd, path, flags, mode);
        if (fd >= 0) logf_("creat %s %s", r, kind);
        else if (would_succeed) counter--;
        pthread_mutex_unlock(&mu);
        busy = 0;
        return fd;
    }
    return which == 0 ? real_open(path, flags, mode) : which == 1 ? real_open64(path, flags, mode) : real_openat(dirfd, path, flags, mode);
}

int open(const char *path, int flags, ...) {
    mode_t mode = 0;
    if (flags & (O_CREAT | O_TMPFILE)) { va_list ap; va_start(ap, flags); mode = va_arg(ap, mode_t); va_end(ap); }
    return open_common(0, AT_FDCWD, path, flags, mode);
}
int open64(const char *path, int flags, ...) {
    mode_t mode = 0;
    if (flags & (O_CREAT | O_TMPFILE)) { va_list ap; va_start(ap, flags); mode = va_arg(ap, mode_t); va_end(ap); }
    return open_common(1, AT_FDCWD, path, flags, mode);
}
int openat(int dirfd, const char *path, int flags, ...) {
    mode_t mode = 0;
    if (flags & (O_CREAT | O_TMPFILE)) { va_list ap; va_start(ap, flags); mode = va_arg(ap, mode_t); va_end(ap); }
    return open_common(2, dirfd, path, flags, mode);
}
int openat64(int dirfd, const char *path, int flags, ...) {
    mode_t mode = 0;
    if (flags & (O_CREAT | O_TMPFILE)) { va_list ap; va_start(ap, flags); mode = va_arg(ap, mode_t); va_end(ap); }
    return open_common(2, dirfd, path, flags, mode);
}

static void hexlog(const char *r, const unsigned char *p, size_t n) {
    static const char hx[] = "0123456789abcdef";
    size_t rl = strlen(r);
    char *line = malloc(8 + rl + 2 * n + 2);
    if (!line) return;
    size_t o = (size_t)sprintf(line, "write %s ", r);
    if (n == 0) line[o++] = '-';
    for (size_t i = 0; i < n; i++) { line[o++] = hx[p[i] >> 4]; line[o++] = hx[p[i] & 15]; }
    log_line(line, o);
    free(line);
}

ssize_t write(int fd, const void *b, size_t n) {
    init();
    if (busy || !rootlen || fd <= 2 || fd == log_fd) return real_write(fd, b, n);
    busy = 1;
    char tmp[4608];
    const char *r = fdrel(fd, tmp, sizeof tmp);
    if (!r) { busy = 0; return real_write(fd, b, n); }
    pthread_mutex_lock(&mu);
    int staging = is_staging(r);
    if (!staging && gate("write", r)) { pthread_mutex_unlock(&mu); busy = 0; errno = EIO; return -1; }
    ssize_t w = real_write(fd, b, n);
    if (w >= 0) hexlog(r, b, (size_t)w);
    else if (!staging) counter--;
    pthread_mutex_unlock(&mu);
    busy = 0;
    return w;
}

static int sync_common(int fd, int data) {
    init();
    if (busy || !rootlen) return data ? real_fdatasync(fd) : real_fsync(fd);
    busy = 1;
    char tmp[4608];
    const char *r = fdrel(fd, tmp, sizeof tmp);
    if (!r || (drop_staging_sync && (is_staging(r) || strncmp(r, "cas/", 4) == 0))) { busy = 0; return data ? real_fdatasync(fd) : real_fsync(fd); }
    pthread_mutex_lock(&mu);
    if (gate("sync", r)) { pthread_mutex_unlock(&mu); busy = 0; errno = EIO; return -1; }
    int rc = data ? real_fdatasync(fd) : real_fsync(fd);
    if (rc == 0) logf_("sync %s", r); else counter--;
    pthread_mutex_unlock(&mu);
    busy = 0;
    return rc;
}
int fsync(int fd) { return sync_common(fd, 0); }
int fdatasync(int fd) { return sync_common(fd, 1); }

int rename(const char *a, const char *b) {
    init();
    char t1[4608], t2[4608];
    const char *ra = busy ? NULL : rel(a, t1, sizeof t1);
    const char *rb = busy ? NULL : rel(b, t2, sizeof t2);
    if (!ra && !rb) return real_rename(a, b);
    busy = 1;
    pthread_mutex_lock(&mu);
    struct stat st;
    int would = (lstat(a, &st) == 0);
    char both[9300];
    snprintf(both, sizeof both, "%s %s", ra ? ra : a, rb ? rb : b);
    if (would && gate("rename", both)) { pthread_mutex_unlock(&mu); busy = 0; errno = EIO; return -1; }
    int rc = real_rename(a, b);
    if (rc == 0) logf_("rename %s", both); else if (would) counter--;
    pthread_mutex_unlock(&mu);
    busy = 0;
    return rc;
}

int unlink(const char *p) {
    init();
    char tmp[4608];
    const char *r = busy ? NULL : rel(p, tmp, sizeof tmp);
    if (!r) return real_unlink(p);
    busy = 1;
    pthread_mutex_lock(&mu);
    struct stat st;
    int would = (lstat(p, &st) == 0);
    if (would && gate("unlink", r)) { pthread_mutex_unlock(&mu); busy = 0; errno = EIO; return -1; }
    int rc = real_unlink(p);
    if (rc == 0) logf_("unlink %s", r); else if (would) counter--;
    pthread_mutex_unlock(&mu);
    busy = 0;
    return rc;
}

int unlinkat(int dirfd, const char *p, int flags) {
    init();
    char tmp[4608];
    const char *r = (busy || !(dirfd == AT_FDCWD || p[0] == '/')) ? NULL : rel(p, tmp, sizeof tmp);
    if (!r) return real_unlinkat(dirfd, p, flags);
    busy = 1;
    pthread_mutex_lock(&mu);
    struct stat st;
    int would = (lstat(p, &st) == 0);
    if (would && gate("unlink", r)) { pthread_mutex_unlock(&mu); busy = 0; errno = EIO; return -1; }
    int rc = real_unlinkat(dirfd, p, flags);
    if (rc == 0) logf_("unlink %s", r); else if (would) counter--;
    pthread_mutex_unlock(&mu);
    busy = 0;
    return rc;
}

int mkdir(const char *p, mode_t m) {
    init();
    char tmp[4608];
    const char *r = busy ? NULL : rel(p, tmp, sizeof tmp);
    if (!r) return real_mkdir(p, m);
    busy = 1;
    pthread_mutex_lock(&mu);
    struct stat st;
    // would succeed iff absent and parent present
    int would = (lstat(p, &st) != 0);
    if (would) {
        char par[4608];
        strncpy(par, p, sizeof par - 1); par[sizeof par - 1] = 0;
        char *sl = strrchr(par, '/');
        if (sl && sl != par) { *sl = 0; if (stat(par, &st) != 0) would = 0; }
    }
    if (would && gate("mkdir", r)) { pthread_mutex_unlock(&mu); busy = 0; errno = EIO; return -1; }
    int rc = real_mkdir(p, m);
    if (rc == 0) logf_("mkdir %s", r); else if (would) counter--;
    pthread_mutex_unlock(&mu);
    busy = 0;
    return rc;
}

int flock(int fd, int op) {
    init();
    if (busy || !rootlen) return real_flock(fd, op);
    busy = 1;
    char tmp[4608];
    const char *r = fdrel(fd, tmp, sizeof tmp);
    if (!r) { busy = 0; return real_flock(fd, op); }
    pthread_mutex_lock(&mu);
    int rc = real_flock(fd, op);
    if (rc == 0 && (op & LOCK_EX)) {
        // the lock is not persistent: killing before or after acquiring it is the same crash state
        if (gate("flock", r)) { real_flock(fd, LOCK_UN); pthread_mutex_unlock(&mu); busy = 0; errno = EIO; return -1; }
        logf_("flock");
    } else if (rc != 0) logf_("# flock-busy");
    pthread_mutex_unlock(&mu);
    busy = 0;
    return rc;
}
