#!/bin/bash
# process_seed.sh <ID> <props...>: confirm a sub-agent's seed in /tmp/seed-<ID>, store it under
# /verif/seeded/<ID>, run the given checks against it, remove the scratch worktree.
ID=$1; shift
L=$(echo $ID | tr A-Z a-z)
bash /verif/tools/confirm_seed.sh $ID || exit 1
grep -q '"confirmed": true' /tmp/seed-$ID/confirm.json || { echo "$ID not confirmed; worktree kept"; exit 1; }
mkdir -p /verif/seeded/$ID
cp /tmp/seed-$ID/patch.diff /tmp/seed-$ID/confirm.json /tmp/seed-$ID/tests/demo_$L.rs /verif/seeded/$ID/
git -C /repo worktree remove --force /tmp/seed-$ID
cd /verif && python3 tools/run_seed.py $ID "$@" 2>&1 | cut -c1-300
