#!/usr/bin/env python3
"""Regenerates /verif/MANIFEST.json from tools/props.py (claimed) and tools/manifest_meta.py."""
import json, os, sys
ROOT = os.path.dirname(os.path.dirname(os.path.abspath(__file__)))
sys.path.insert(0, os.path.join(ROOT, "tools"))
from props import PROPS
from manifest_meta import META, NOT_APPLICABLE, HOOK_COMMITS

all_ids = [json.loads(l)["id"] for l in open(os.path.join(ROOT, "properties.jsonl"))]
checks = []
for pid in all_ids:
    if pid not in PROPS:
        continue
    m = META[pid]
    checks.append({
        "property_id": pid,
        "quick_cmd": f"./check {pid} --tier quick",
        "thorough_cmd": f"./check {pid} --tier thorough",
        "evidence_file": f"/verif/evidence/{pid}.json",
        "replay_cmd_template": f"./check {pid} --replay {{path}}",
        "engine": "lean4-proof+correspondence",
        "level_claimed": {"category": "proof", "text": m["text"], "design_ref": m["design_ref"]},
        "level_note": m["note"],
        "technique": m["technique"],
    })
na = [{"property_id": p, "reason": NOT_APPLICABLE.get(p, "not yet claimed: model and correspondence slice for this property are still being built (see DESIGN.md §12)")}
      for p in all_ids if p not in PROPS]
manifest = {
    "version": 1,
    "setup_cmd": "sh /verif/setup.sh",
    "hooks": {
        "guard": "cargo feature verif-hooks",
        "enable": "harness depends on /repo by path with features=[\"verif-hooks\"] (cargo build --offline in /verif/harness)",
        "baseline_off_cmd": "cd /repo && cargo test --workspace --no-fail-fast --offline",
        "source_commits": HOOK_COMMITS,
        "add_only": True,
    },
    "engines": [{
        "name": "lean4-proof+correspondence",
        "path": "/verif/lean (model + theorems), /verif/harness (Rust correspondence harness), /verif/tools/check.py",
        "serves_properties": [c["property_id"] for c in checks],
        "kind_free_text": "hand-written executable Lean 4 model with machine-checked theorems per property; tied to /repo on every run by differential execution of the model driver and the real code on generated inputs",
    }],
    "checks": checks,
    "not_applicable": na,
    "notes": "See DESIGN.md. A broken proof or correspondence without a concrete failing input is reported with the suffix no-failing-input-found.",
}
json.dump(manifest, open(os.path.join(ROOT, "MANIFEST.json"), "w"), indent=1)
print("claimed", len(checks), "not claimed", len(na))
