"""Registry: for every claimed property, the Lean obligations and the correspondence slices.

obligations : theorem names (namespace CasModel) that must exist, build, and depend on no axiom
              outside ALLOWED_AXIOMS; `full` names the full-strength statement.
slices      : harness slices; (name, n_quick, n_thorough)
"""

ALLOWED_AXIOMS = {"propext", "Classical.choice", "Quot.sound"}

COMMON_TRUST = [
    "Lean 4.33.0 kernel (thorough tier: re-checked by leanchecker)",
    "axioms allowed in #print axioms: propext, Classical.choice, Quot.sound; no sorry/admit/native_decide/bv_decide/implemented_by/unsafe (audited on every run)",
    "correspondence check: Rust harness /verif/harness (cvh), Lean driver /verif/lean/Main.lean (parsing/printing only), tools/check.py comparison",
    "hand-written model: theorems are about /verif/lean/CasModel/*.lean; the tie to /repo is differential execution on generated inputs, bounded by what the generators produce (distribution in this file)",
]

PROPS = {
    "C16": {
        "modules": ["CasModel.Props.C16", "CasModel.Props.C10"],
        "obligations": [
            "C16_walop_roundtrip", "C16_index_roundtrip", "C16_alloc_bound_walop",
            "C16_alloc_bound_put", "C16_alloc_bound_index", "readKeys_bound", "readEntries_bound",
            "leNat_leBytes", "leBytes_leNat", "C16_entry_roundtrip", "C16_segment_roundtrip",
        ],
        "full": ["C16_walop_roundtrip", "C16_index_roundtrip", "C16_entry_roundtrip"],
        "slices": [("c16", 400, 20000)],
        "trusted": [
            "model of src/serialization.rs, KeyBytes impls, WAL framing: Codec.lean, Keys.lean, Frame.lean",
            "decoders are total Lean functions: absence of panics in the Rust decoders is tied by running them on the same arbitrary/mutated bytes under catch_unwind",
            "UTF-8 validity (`String::from_key_bytes`) is modelled by validUtf8 and compared with core::str::from_utf8 on crafted sequences; str/String round-trip itself is std's",
        ],
        "assumptions": ["lengths < 2^32 and sizes/versions < 2^64 (the `as u32` casts), stated as hypotheses RawOp.WF / EntryWF"],
    },
    "C17": {
        "modules": ["CasModel.Props.C17"],
        "obligations": ["C17_get_range", "C17_inverted_rejected", "C17_start_beyond", "readLoop_eq"],
        "full": ["C17_get_range"],
        "slices": [("c17", 150, 5000)],
        "trusted": [
            "model of CasInner::get_range and CasManager::read_blob_range incl. the read_at loop with arbitrary short reads: Range.lean",
            "pread semantics (returns 1..=want bytes before EOF, 0 at EOF) is assumed; memory safety of the unsafe set_len is not modelled, only its length arithmetic",
            "blob_size recorded in the index equals the content length (hypothesis hsz; established by C12/C18)",
        ],
        "assumptions": ["start, end are naturals (covers all u64)"],
    },
    "C18": {
        "modules": ["CasModel.Props.C18", "CasModel.Props.C18Store"],
        "obligations": ["C18_path_roundtrip", "C18_path_roundtrip_prefixed", "C18_path_injective",
                        "C18_path_shape", "fromCanonicalPath_iff", "decodeHex_toHex",
                        "C18_chunk_independent", "C18_put_chunk_independent", "C01_put_then_get"],
        "full": ["C18_path_roundtrip", "C18_path_injective", "C18_chunk_independent", "C01_put_then_get"],
        "slices": [("c18", 400, 20000), ("c18chunks", 40, 1500)],
        "trusted": [
            "model of BlobHash::{to_hex, relative_path, from_relative_path}: Path.lean; `hex` crate and Path::components as modelled",
            "blake3::Hasher incrementality (finalize ∘ update* = hash ∘ concat) is the crate's contract; the driver's own BLAKE3 (Blake3.lean, never unfolded in a proof) is compared with the crate on every run",
        ],
        "assumptions": ["hashes are 32 bytes"],
    },
    "C10": {
        "modules": ["CasModel.Props.C10"],
        "obligations": ["C10_truncation_segment", "C10_byte_change_payload", "C10_byte_change_checksum",
                        "readSegmentFuel_truncated", "readSegmentFuel_corrupt", "readSegmentFuel_encodeAll"],
        "full": ["C10_truncation_segment", "C10_byte_change_payload", "C10_byte_change_checksum"],
        "slices": [("c10frame", 150, 5000), ("c10log", 25, 400)],
        "trusted": [
            "model of SegmentWriter::write_entry / SegmentReader::read_next_entry: Frame.lean",
            "checksum function H is a parameter with 32-byte output; for a changed payload the theorem assumes H p' ≠ H p (no BLAKE3 collision on that record)",
        ],
        "assumptions": ["'cut short' = loss of a suffix of the log (the cut segment truncated, later segments absent)"],
    },
    "C01": {
        "modules": ["CasModel.Props.C01", "CasModel.Props.C17"],
        "obligations": ["C01_index_refines_map", "applyAll_refines", "C01_remove_reports", "applyOp_spec",
                        "kInsert_sorted", "kErase_sorted", "kLookup_kInsert", "kLookup_kErase", "C17_get_range"],
        "full": ["C01_index_refines_map"],
        "slices": [("c01", 120, 6000)],
        "trusted": [
            "model: Index.lean (apply_logical_op), Store.lean (event scripts of put/remove/remove_range/checkpoint/open and the read path), Keys.lean (key orders)",
            "C01_index_refines_map is the index half (lookups, order, presence reports); that the file of the looked-up hash holds the committed bytes is the exact-CAS invariant (C07) + C06, at present tied by correspondence (every get/reader/getrange result and the full cas/ listing are compared after every step) rather than by a theorem over Store.lean",
            "BTreeMap is modelled as a strictly sorted association list under the StrictOrder laws of the key type's Ord",
        ],
        "assumptions": ["operations are consistent: a put records size = size of the content with that hash (collision-freeness of BLAKE3 on the contents involved)", "range bounds are valid for BTreeMap::range (lo ≤ hi, not both excluded and equal)"],
    },
    "C12": {
        "modules": ["CasModel.Props.C12"],
        "obligations": ["C12_counts_exact", "C12_step", "applyAll_inv", "applyOp_spec", "applyPut_spec",
                        "applyRemove_spec", "recompute_agrees", "rcKeys_iff", "incRef_spec", "decRef_spec"],
        "full": ["C12_counts_exact"],
        "slices": [("c12", 120, 6000)],
        "trusted": [
            "model: Index.lean; every Rust panic site of apply_logical_op (expect on decrement errors, assert_eq on sizes, debug-build underflow of the statistics) is an explicit IdxPanic outcome and the theorems show none is reachable",
            "after restart / crash recovery: load+recompute establishes the same invariant — at present tied by correspondence (stats, blobs, sizes compared after every reopen and every crash image), the theorem covers the incremental/recomputed agreement (recompute_agrees)",
            "u32 refcounts and u64 byte totals are unbounded naturals in the model (overflow needs 2^32 keys per blob / 2^64 bytes)",
        ],
        "assumptions": ["a put records size = sz hash (see C18); StrictOrder laws for the key order"],
    },
    "C07": {
        "modules": ["CasModel.Props.C12", "CasModel.Props.C13"],
        "obligations": ["C12_step", "applyOp_spec", "C13_abort_noop", "C13_open_tx_private"],
        "full": ["C12_step"],
        "slices": [("c07", 120, 6000)],
        "trusted": [
            "proved: apply_logical_op returns EXACTLY the hashes that lost their last reference (C12_step), for every state and operation; abandoned transactions leave no file behind (C13_abort_noop)",
            "that delete_blobs unlinks exactly that list and commit_blob creates exactly the new blob is read off Store.lean's scripts and tied by correspondence: after every step of every history the listing of cas/ and staging/ (names, lengths, content hashes) is compared with the model and with the set of referenced contents",
            "concurrent part (end of every error-free schedule) is covered by the schedule slices of C04",
        ],
        "assumptions": ["no operation in flight and none failed (quiescence)"],
    },
    "C13": {
        "modules": ["CasModel.Props.C13"],
        "obligations": ["C13_abort_noop", "C13_open_tx_private"],
        "full": ["C13_abort_noop"],
        "slices": [("c13", 120, 6000)],
        "trusted": [
            "model: Store.lean beginScript/abortScript + Fs.lean semantics of creat/write/unlink (FsLemmas)",
            "in-memory state untouched before finish: by inspection of Transaction::new/write/Drop (no index access) — the driver's abort changes only World.txs; compared on every abort (iter/stats/blobs/dump before and after)",
            "concurrent half (abort commutes with a committing transaction on the same key) belongs to the schedule slices",
        ],
        "assumptions": ["the staging name is fresh (tempfile's O_EXCL guarantee)"],
    },
    "C02": {
        "modules": ["CasModel.Props.C03", "CasModel.Props.C12"],
        "obligations": ["C02_reopen_transparent_records", "reachable_good", "recover_eq", "act_good", "recompute_agrees"],
        "full": ["C02_reopen_transparent_records"],
        "slices": [("c02", 120, 6000)],
        "trusted": [
            "record-level machine Proofs/WalMachine.lean mirrors src/wal/manager.rs + src/index/manager.rs (version allocation, segment placement (v-1)/N, replay skipping ≤ snapshot version, next = highest+1, prune rule j < segment(snapshot version on disk)); the theorem quantifies over all action sequences, N, state/record types",
            "that Store.lean's byte-level scripts perform exactly these actions is tied by correspondence: full syscall trace, raw bytes of index and every segment, and all API observations are compared after every step and every reopen (N ∈ {1,2,3,5,10000}, Sync/Async)",
            "stats.index.serialized_size_bytes is compared as 'size of the index file or 0', not demanded equal across a reopen that legitimately rewrites the snapshot",
        ],
        "assumptions": ["codec round-trips (C16) connect records to bytes; collision-free checksums"],
    },
    "C03": {
        "modules": ["CasModel.Props.C03", "CasModel.Props.C10"],
        "obligations": ["C03_crash_atomic_records", "reachable_good", "act_good", "recover_eq", "GInv.append", "GInv.install",
                        "GInv.prune", "GInv.addEmpty", "C10_truncation_segment", "C16_segment_roundtrip"],
        "full": ["C03_crash_atomic_records"],
        "slices": [("c03", 40, 1500)],
        "trusted": [
            "crash model: a filesystem call is atomic and completed calls persist (process kill); granularity = the interposer's mutating calls = the model's events",
            "record-level theorem: crash = `crash` action anywhere in any action sequence, incl. inside first initialisation and inside recovery (nested); one logged operation = one record = one action, so it is all-or-nothing",
            "tie to bytes/syscalls: Store.lean event scripts vs the real syscall trace (compared event by event), and kill-mode crash images at EVERY counted call of the targeted operation reopened by the real code and by the model (logical), plus nested crashes inside recovery",
            "blob files: the in-flight put's blob is renamed into cas/ before its record is written and old blobs are unlinked after — read off the scripts, compared in the trace, and judged by the oracle (every recovered key readable)",
        ],
        "assumptions": ["fault-free apart from the crash; collision-free checksums"],
    },
    "C20": {
        "modules": ["CasModel.Props.C03", "CasModel.Props.C10", "CasModel.Props.C16"],
        "obligations": ["C20_wellformed_records", "reachable_good", "segInsert_sorted", "flat_segInsert_some",
                        "C16_segment_roundtrip", "C16_index_roundtrip"],
        "full": ["C20_wellformed_records"],
        "slices": [("c20", 40, 1500)],
        "trusted": [
            "record-level invariant (versions strictly increasing and never reused, placement (v-1)/N, snapshot = state up to its version, every logged record above it present) proved for every action sequence with crashes anywhere",
            "independent reader: the Lean driver parses the REAL index and *_index.wal bytes (own BLAKE3) at every crash image and after every step — dump and `logical` are compared with the real recovery",
        ],
        "assumptions": ["as C03"],
    },
    "C06": {
        "modules": ["CasModel.Props.C06", "CasModel.Props.C18Store"],
        "obligations": ["C06_put_never_writes_cas", "logAndApply_noCas", "checkpointScript_noCas", "C06_frame",
                        "C06_rename_publishes", "C06_reader_stable", "C01_put_then_get", "sparesCas_frame_all"],
        "full": ["C06_put_never_writes_cas", "C06_frame", "C06_rename_publishes"],
        "slices": [("c06", 30, 1200), ("c04", 150, 4000)],
        "trusted": [
            "syntactic theorem over Store.lean's scripts: no event creates-empty, writes or truncates a cas/ path; the only events naming one are rename(staging→cas) and unlink(cas); frame theorem over Fs.lean: every other event leaves the bytes alone; a rename publishes the complete staged content",
            "that the staged file is complete (BufWriter::into_inner flushed, and synced in Sync mode) before the rename: script order staging write → sync → rename, compared event by event with the real syscall trace",
            "observed at intermediate instants: BLAKE3 of EVERY file under cas/ is recomputed at every crash image (kill before every mutating call), after every sequential step, and the CAS listing at every scheduling step of the concurrent slices",
            "inode semantics (an open fd survives rename/unlink) is Fs.lean's assumption; exercised by readers drained after overwrite in the C05 schedules",
        ],
        "assumptions": ["collision-freeness is not needed here: the statement is about bytes vs the hash in the path"],
    },
    "C19": {
        "modules": ["CasModel.Props.C19"],
        "obligations": ["C19_gate", "preGate_frame_all", "openPre_preGate"],
        "full": ["C19_gate"],
        "slices": [("c19", 60, 1500)],
        "trusted": [
            "model: Store.lean openPre/settingsGate/openBody/openScript; JSON parsing abstracted to the canonical serde_json rendering of the settings triple (parseSettings accepts exactly that form; serde_json itself is trusted)",
            "'a later correct open sees the data unchanged' = C02 on the unchanged files (C19_gate shows no file but LOCK is touched); compared byte for byte (directory dump before/after the rejected open)",
            "pre-created directory tree unobservable: compared (API results equal with pre=0/1); not a theorem",
        ],
        "assumptions": ["the stored settings file is in serde_json's canonical form (written by the store itself or by the harness in that form)"],
    },
    "C11": {
        "modules": ["CasModel.Props.C19"],
        "obligations": ["C11_lock_first", "C11_flock_precedes", "preGate_frame_all"],
        "full": ["C11_lock_first", "C11_flock_precedes"],
        "slices": [("c11", 40, 800)],
        "trusted": [
            "proved: the loser of the lock issues only pre-gate events (top-level mkdirs, open of LOCK) and touches no other file; in every other open the flock precedes every non-pre-gate event",
            "ASSUMED, not proved (OS semantics): flock(LOCK_EX|LOCK_NB) is exclusive per open file description across threads and processes, and is released when the last descriptor is closed or the process dies — exercised by the slice: racing opens from threads, a second handle, a second process, owner dropped / killed / kept alive only by an OrphanStats",
            "at most one live handle: follows from flock exclusivity + C11_flock_precedes (a handle exists only after its flock succeeded and holds LOCK open for its lifetime)",
        ],
        "assumptions": ["kernel flock semantics; Arc keeps CasInner (and its LOCK fd) alive while clones or OrphanStats exist"],
    },
    "C15": {
        "modules": ["CasModel.Props.C15"],
        "obligations": ["C15_no_deadlock", "C15_lock_order", "step_lockInv", "progress", "stepPc_locks", "lockInv_init", "run_lockInv"],
        "full": ["C15_no_deadlock"],
        "slices": [("c15", 200, 6000)],
        "trusted": [
            "model: Conc.lean — one step = one thread runs between two yield points (before every acquisition of pending_intents/state and every blob rename/unlink); wal is acquired and released inside one step while both other locks are held",
            "proved for all programs, thread counts and schedules: lock holders = threads inside critical sections; requests ordered intents < state; every reachable state with unfinished work has an enabled thread",
            "not formalised: the bound on steps per operation and parking_lot's fairness (needed to turn 'no deadlock' into 'every call returns')",
            "tie: every forced schedule on the real code (hooks at the same yield points) is replayed by the model step by step — parked point, real lock bits (parking_lot is_locked), index, intents and CAS digests must agree — and must run to completion under a watchdog",
        ],
        "assumptions": ["a caller that keeps an IndexReadGuard alive while writing from the same thread is outside the contract", "rwlock treated as exclusive (more blocking than reality)"],
    },
    "C04": {
        "modules": ["CasModel.Props.C04"],
        "obligations": ["C04_no_dangling", "C04_inflight_blob_safe", "step_concInv", "run_concInv", "stepPc_concInv",
                        "apWal_concInv", "assemble_unlink", "concInv_init", "step_lockInv", "applyOp_spec"],
        "full": ["C04_no_dangling", "C04_inflight_blob_safe"],
        "slices": [("c04", 250, 8000)],
        "trusted": [
            "model Conc.lean: one step = one thread from yield point to yield point; index/WAL update abstracted to 'log + apply' under state.write + wal (the Store model covers the WAL); the invariant ConcInv (index invariant, every file's content hashes to its name, every referenced hash has a file, per-hash protection ≥ number of commits in their window, unlink phases only hold unreferenced unprotected hashes, lock invariant) is proved inductive for ALL programs, thread counts and schedules",
            "the theorem is about the model of the REPAIRED code (fix commits 8ba843f + fd1c121: protection counted per hash, released at apply time); before the repair the property was false (same-key intent clobbering) — kept as seeded regression F2",
            "tie: forced schedules on the real code through the yield-point hooks, replayed by the model step by step (parked point, lock bits, digests of index, CAS listing and intent/protection tables); oracle on the real side at every step: every indexed hash has a file",
            "checkpoint/orphan clean-up interleavings included (clean-up re-validation is modelled); the composition of Conc's abstract log with Store's WAL (serialisation by the two inner locks) is a paper argument",
        ],
        "assumptions": ["contents put are collision-free under BLAKE3 (sz (H c) = |c|)", "no I/O faults (C14 covers those)", "initial store quiescent and consistent (InitOK), as produced by any sequential history (C01/C07/C12)"],
    },
    "C05": {
        "modules": ["CasModel.Props.C04"],
        "obligations": ["C05_read_atomic", "C04_no_dangling", "run_concInv", "step_concInv"],
        "full": ["C05_read_atomic"],
        "slices": [("c05", 250, 8000)],
        "trusted": [
            "proved: in every reachable state of every schedule a read that does its lookup returns absent iff the key is absent, else the COMPLETE content of the blob indexed at that instant, never a missing-blob error (model of the repaired read path: blob opened under the read guard, fix 5ae164b)",
            "writes: the index changes only in WAL steps, each an atomic apply_logical_op between its call and return (by construction of Conc.step); 'final contents equal some sequential order respecting real time' is checked on the real side by a brute-force linearizability checker over every forced schedule (results + final index), not yet a Lean theorem",
            "remove/remove_range report presence as of their scan step (documented as not strictly atomic): modelled that way",
        ],
        "assumptions": ["as C04; readers hold an fd to an immutable file (C06)"],
    },
    "C08": {
        "modules": ["CasModel.Props.C08", "CasModel.Props.C04"],
        "obligations": ["C08_orphans_exact", "C08_missing_exact", "C08_corrupted_exact", "C08_invalid_exact",
                        "seen_iff", "classify_orphan", "classify_corrupt", "classify_invalid",
                        "fromCanonicalPath_iff", "step_concInv", "assemble_unlink", "C04_inflight_blob_safe"],
        "full": ["C08_orphans_exact", "C08_missing_exact", "C08_corrupted_exact", "C08_invalid_exact"],
        "slices": [("c08", 120, 4000), ("c08crash", 15, 600), ("c08conc", 120, 4000)],
        "trusted": [
            "scan: model Orphan.lean (scan_orphans after the F5 repair a12b3f8: a file is a blob only at the canonical path of its hash); exactness theorems hold for EVERY list of regular files below cas/ (depth ≤ 3) and every index, hence on every crash image; directories at depth 3 and deeper nesting are outside the model (and outside 'regular files')",
            "clean-up safety under concurrency: the orphan clean-up steps are part of the interleaving model; step_concInv shows an orphan unlink happens only for a hash that is unreferenced and unprotected while the intents lock is held, so it never removes a referenced blob or one a concurrent put is committing (C04_inflight_blob_safe)",
            "clean-up completeness (C07 restored) is compared: cas/ and staging/ listings after delete_orphans on planted garbage and on every crash image of the crash slice",
            "corrupted detection uses the real BLAKE3 via mmap+rayon; the model uses its own BLAKE3; sizes from std::fs::metadata",
        ],
        "assumptions": ["planted garbage consists of regular files (no symlinks/special files)", "hashes are 32 bytes"],
    },
    "C09": {
        "modules": ["CasModel.Props.C09", "CasModel.Props.C03"],
        "obligations": ["C09_blob_durable", "C09_sync_before_rename", "C09_snapshot_order", "C09_record_order",
                        "C09_powerLoss_synced_noop", "C03_crash_atomic_records", "C01_put_then_get"],
        "full": ["C09_blob_durable", "C09_sync_before_rename", "C09_snapshot_order", "C09_record_order"],
        "slices": [("c09", 40, 1500)],
        "trusted": [
            "loss model exactly as the property states it (Disk.powerLoss): each file keeps the prefix covered by its last fsync/fdatasync; create/rename/unlink persist in issue order. Real power loss / filesystem reordering cannot be executed here",
            "proved over the event scripts, for all states/keys/contents/chunkings: blob fully synced before it is renamed into cas/ (Sync mode); snapshot written+synced before it replaces index, prunes only afterwards; record written in one write and synced before deletions, checkpoint and return; power loss is a no-op on fully synced files. With C03's record-level theorem (any prefix of records recovers) this yields C09 per operation",
            "NOT yet a single theorem over whole histories (that at EVERY cut every file but the active segment's in-flight record is fully synced): tied by the power-loss slice — the real syscall trace incl. every sync event must equal the model's, and loss images rebuilt from the real trace at every cut (files: all / single segment / index) are reopened by the real code and by the model",
        ],
        "assumptions": ["Sync mode (Async promises no ordering)", "fdatasync makes the current content durable"],
    },
    "C14": {
        "modules": ["CasModel.Props.C14"],
        "obligations": ["C14_put_contained", "faultPutCore_contained", "faultLogAndApply_index",
                        "C14_failed_put_blob_kept", "applyOp_spec"],
        "full": ["C14_put_contained", "C14_failed_put_blob_kept"],
        "slices": [("c14", 40, 1200)],
        "trusted": [
            "fault model: the k-th mutating filesystem call returns an error with no side effect (interposer fail mode); one fault per targeted operation; staging-file writes are not fault points (a transaction whose write() failed is dropped, not finished — usage guard)",
            "Fault.lean models the error paths by hand from the source (? propagation, Transaction/NamedTempFile drop, BufWriter retry-on-drop and retention, version consumed by a failed append, last_persisted_version set before a failed snapshot, ignored prune/close errors, protection kept after a failed append = F4 repair d559f18); proved: index afterwards is old or new, no panic outcome, a kept-protected blob is never in a later deletion list",
            "everything else — exact error-path effects, behaviour of later operations, and that the reopen succeeds with the failed operation's keys old-or-new — is tied by the slice: failure at EVERY counted call of put/remove/checkpoint/close/open targets, continuation (incl. the put-same-content + remove sequence that exposed F4), reopen; compared event by event with the model and judged by the property's oracle",
        ],
        "assumptions": ["a failing call has no side effect", "single fault per operation; faults are not combined with crashes"],
    },
}
