"""Registry: for every claimed property, the Lean obligations and the correspondence slices.

obligations : theorem names (namespace CasModel) that must exist, build, and depend on no axiom
              outside ALLOWED_AXIOMS; `full` names the full-strength statement.
slices      : harness slices; (name, n_quick, n_thorough)
"""

ALLOWED_AXIOMS = {"propext", "Classical.choice", "Quot.sound"}

COMMON_TRUST = [
    "Lean 4.33.0 kernel (thorough tier: re-checked by leanchecker)",
    "axioms allowed in #print axioms: propext, Classical.choice, Quot.sound; no sorry/admit/native_decide/bv_decide/implemented_by/unsafe (audited on every run)",
    "correspondence check: Rust harness /verif/harness (cvh), Lean driver /verif/lean/Main.lean (parsing/printing only), tools/check.py comparison",
    "hand-written model: theorems are about /verif/lean/CasModel/*.lean; the tie to /repo is differential execution on generated inputs, bounded by what the generators produce (distribution in this file)",
]

PROPS = {
    "C16": {
        "modules": ["CasModel.Props.C16", "CasModel.Props.C10"],
        "obligations": [
            "C16_walop_roundtrip", "C16_index_roundtrip", "C16_alloc_bound_walop",
            "C16_alloc_bound_put", "C16_alloc_bound_index", "readKeys_bound", "readEntries_bound",
            "leNat_leBytes", "leBytes_leNat", "C16_entry_roundtrip", "C16_segment_roundtrip",
        ],
        "full": ["C16_walop_roundtrip", "C16_index_roundtrip", "C16_entry_roundtrip"],
        "slices": [("c16", 400, 20000)],
        "trusted": [
            "model of src/serialization.rs, KeyBytes impls, WAL framing: Codec.lean, Keys.lean, Frame.lean",
            "decoders are total Lean functions: absence of panics in the Rust decoders is tied by running them on the same arbitrary/mutated bytes under catch_unwind",
            "UTF-8 validity (`String::from_key_bytes`) is modelled by validUtf8 and compared with core::str::from_utf8 on crafted sequences; str/String round-trip itself is std's",
        ],
        "assumptions": ["lengths < 2^32 and sizes/versions < 2^64 (the `as u32` casts), stated as hypotheses RawOp.WF / EntryWF"],
    },
    "C17": {
        "modules": ["CasModel.Props.C17"],
        "obligations": ["C17_get_range", "C17_inverted_rejected", "C17_start_beyond", "readLoop_eq"],
        "full": ["C17_get_range"],
        "slices": [("c17", 150, 5000)],
        "trusted": [
            "model of CasInner::get_range and CasManager::read_blob_range incl. the read_at loop with arbitrary short reads: Range.lean",
            "pread semantics (returns 1..=want bytes before EOF, 0 at EOF) is assumed; memory safety of the unsafe set_len is not modelled, only its length arithmetic",
            "blob_size recorded in the index equals the content length (hypothesis hsz; established by C12/C18)",
        ],
        "assumptions": ["start, end are naturals (covers all u64)"],
    },
    "C18": {
        "modules": ["CasModel.Props.C18"],
        "obligations": ["C18_path_roundtrip", "C18_path_roundtrip_prefixed", "C18_path_injective",
                        "C18_path_shape", "fromCanonicalPath_iff", "decodeHex_toHex"],
        "full": ["C18_path_roundtrip", "C18_path_injective"],
        "slices": [("c18", 400, 20000)],
        "trusted": [
            "model of BlobHash::{to_hex, relative_path, from_relative_path}: Path.lean; `hex` crate and Path::components as modelled",
            "blake3::Hasher incrementality (finalize ∘ update* = hash ∘ concat) is the crate's contract; the driver's own BLAKE3 (Blake3.lean, never unfolded in a proof) is compared with the crate on every run",
        ],
        "assumptions": ["hashes are 32 bytes"],
    },
    "C10": {
        "modules": ["CasModel.Props.C10"],
        "obligations": ["C10_truncation_segment", "C10_byte_change_payload", "C10_byte_change_checksum",
                        "readSegmentFuel_truncated", "readSegmentFuel_corrupt", "readSegmentFuel_encodeAll"],
        "full": ["C10_truncation_segment", "C10_byte_change_payload", "C10_byte_change_checksum"],
        "slices": [("c10frame", 150, 5000)],
        "trusted": [
            "model of SegmentWriter::write_entry / SegmentReader::read_next_entry: Frame.lean",
            "checksum function H is a parameter with 32-byte output; for a changed payload the theorem assumes H p' ≠ H p (no BLAKE3 collision on that record)",
        ],
        "assumptions": ["'cut short' = loss of a suffix of the log (the cut segment truncated, later segments absent)"],
    },
}
