#!/usr/bin/env python3
"""check.py <PROP> [--tier quick|thorough] [--replay FILE]

Decides one property:
  1. proof     : `lake build` of the property's theorem modules; `#print axioms` audit of every
                 obligation; source scan for sorry/admit/axiom/native_decide/...; (thorough) leanchecker
  2. tie       : rebuild the harness against /repo's working tree, run the property's correspondence
                 slices on the real code and on the Lean model driver, compare line by line; every
                 case is also judged against the property's own oracle on the real side
  3. outcome   : exit 0 / `VIOLATION property=<id> replay=<path>` (+ ` no-failing-input-found`
                 when only the proof/correspondence broke) / `KNOWN-FINDING: ...`
  4. evidence  : /verif/evidence/<id>.json
"""
import json, os, re, subprocess, sys, time, shutil, hashlib

ROOT = os.path.dirname(os.path.dirname(os.path.abspath(__file__)))
sys.path.insert(0, os.path.join(ROOT, "tools"))
from props import PROPS, ALLOWED_AXIOMS, COMMON_TRUST  # noqa: E402

LEAN = os.path.join(ROOT, "lean")
HARNESS = os.path.join(ROOT, "harness")
CVH = os.path.join(HARNESS, "target", "debug", "cvh")
DRIVER = os.path.join(LEAN, ".lake", "build", "bin", "casmodel")
ENV = dict(os.environ, CARGO_NET_OFFLINE="true")
FORBIDDEN = re.compile(r"\bsorry\b|\badmit\b|^\s*axiom\s|native_decide|bv_decide|implemented_by|\bunsafe\s|maxHeartbeats\s+0")


def run(cmd, cwd=None, timeout=None, stdin=None, stdout=None):
    return subprocess.run(cmd, cwd=cwd, env=ENV, timeout=timeout, stdin=stdin,
                          stdout=stdout if stdout is not None else subprocess.PIPE,
                          stderr=subprocess.STDOUT, text=True)


def strip_comments(src):
    src = re.sub(r"/-.*?-/", "", src, flags=re.S)
    return "\n".join(l.split("--")[0] for l in src.splitlines())


def lean_sources():
    out = []
    for d, _, fs in os.walk(os.path.join(LEAN, "CasModel")):
        for f in fs:
            if f.endswith(".lean"):
                out.append(os.path.join(d, f))
    out.append(os.path.join(LEAN, "Main.lean"))
    return sorted(out)


def proof_stage(pid, spec, tier, log):
    """returns (obligations, discharged, failures[list of str], axioms_found)"""
    failures = []
    mods = spec["modules"]
    r = run(["lake", "build"] + mods + ["casmodel"], cwd=LEAN, timeout=3600)
    log.append(r.stdout[-4000:])
    if r.returncode != 0:
        failures.append("lake build failed for " + " ".join(mods) + ":\n" + "\n".join(
            l for l in r.stdout.splitlines() if "error" in l)[:2000])
        return len(spec["obligations"]), 0, failures, {}
    # forbidden tokens
    for f in lean_sources():
        for i, l in enumerate(strip_comments(open(f).read()).splitlines(), 1):
            if FORBIDDEN.search(l):
                failures.append(f"forbidden token in {os.path.relpath(f, ROOT)}:{i}: {l.strip()}")
    # axiom audit
    os.makedirs(os.path.join(LEAN, ".audit"), exist_ok=True)
    audit = os.path.join(LEAN, ".audit", f"{pid}.lean")
    with open(audit, "w") as fh:
        for m in mods + ["CasModel.Proofs.WalGhost", "CasModel.Conc"]:
            fh.write(f"import {m}\n")
        fh.write("open CasModel CasModel.Ghost CasModel.Conc\n")
        for t in spec["obligations"]:
            fh.write(f"#print axioms {t}\n")
    r = run(["lake", "env", "lean", audit], cwd=LEAN, timeout=1800)
    log.append(r.stdout[-4000:])
    axioms = {}
    # output: "'CasModel.thm' depends on axioms: [propext, ...]" or "... does not depend on any axioms"
    text = r.stdout.replace("\n ", " ")
    for m in re.finditer(r"'([^']+)' (depends on axioms: \[([^\]]*)\]|does not depend on any axioms)", text):
        name = m.group(1)
        for pre in ("CasModel.Ghost.", "CasModel.Conc.", "CasModel."):
            if name.startswith(pre):
                name = name[len(pre):]
                break
        axs = [a.strip() for a in (m.group(3) or "").split(",") if a.strip()]
        axioms[name] = axs
    discharged = 0
    for t in spec["obligations"]:
        if t not in axioms:
            failures.append(f"obligation {t}: not found / audit failed ({r.stdout.strip()[-300:]})")
            continue
        bad = [a for a in axioms[t] if a not in ALLOWED_AXIOMS]
        if bad:
            failures.append(f"obligation {t}: depends on disallowed axioms {bad}")
        else:
            discharged += 1
    if tier == "thorough":
        for m in mods:
            r = run(["lake", "env", "leanchecker", m], cwd=LEAN, timeout=3600)
            if r.returncode != 0:
                failures.append(f"leanchecker rejected {m}: {r.stdout[-500:]}")
    return len(spec["obligations"]), discharged, failures, axioms


def build_harness(log):
    # Cargo.lock comes from /repo so that the same dependency versions are used, offline
    if os.path.exists("/repo/Cargo.lock") and not os.path.exists(os.path.join(HARNESS, "Cargo.lock")):
        shutil.copy("/repo/Cargo.lock", os.path.join(HARNESS, "Cargo.lock"))
    r = run(["cargo", "build", "--offline"], cwd=HARNESS, timeout=3600)
    log.append(r.stdout[-3000:])
    return r.returncode == 0, r.stdout


def first_diff(a_lines, b_lines):
    for i, (a, b) in enumerate(zip(a_lines, b_lines)):
        if a != b:
            return i
    if len(a_lines) != len(b_lines):
        return min(len(a_lines), len(b_lines))
    return None


def case_bounds(ops, idx):
    """a case = the lines from the nearest preceding '# case' marker (or the single line)"""
    start = idx
    while start > 0 and not ops[start].startswith("# case"):
        start -= 1
    if not ops[start].startswith("# case"):
        return idx, idx + 1
    end = idx + 1
    while end < len(ops) and not ops[end].startswith("# case"):
        end += 1
    return start, end


def run_slice(pid, name, n, seed, workdir, log):
    """returns dict(status, lines, cases, stats, disagreement, oracle_failures)"""
    res = {"slice": name, "n": n}
    journal = os.path.join(workdir, f"{name}.journal")
    ENV["CVH_JOURNAL"] = journal
    try:
        os.remove(journal)
    except OSError:
        pass
    try:
        r = run([CVH, name, "--seed", str(seed), "--n", str(n), "--out", workdir], timeout=14400)
    except subprocess.TimeoutExpired:
        res["status"] = "harness-hang"
        res["detail"] = "the slice did not finish within 14400 s"
        return res
    log.append(r.stdout[-2000:])
    if r.returncode != 0:
        res["status"] = "harness-crash"
        res["detail"] = r.stdout[-2000:]
        # the request that was being executed in-process when the harness died (pure slices)
        if os.path.exists(journal):
            res["last_input"] = open(journal).read()[:20000]
        return res
    ops_p = os.path.join(workdir, f"{name}.ops")
    with open(ops_p) as fi, open(os.path.join(workdir, f"{name}.model"), "w") as fo:
        d = subprocess.run([DRIVER], stdin=fi, stdout=fo, stderr=subprocess.PIPE, text=True)
    if d.returncode != 0:
        res["status"] = "driver-crash"
        res["detail"] = d.stderr[-2000:]
        return res
    ops = open(ops_p).read().splitlines()
    real = open(os.path.join(workdir, f"{name}.real")).read().splitlines()
    model = open(os.path.join(workdir, f"{name}.model")).read().splitlines()
    stats = json.load(open(os.path.join(workdir, f"{name}.stats.json")))
    res.update(status="ok", lines=len(ops), cases=stats["cases"], stats=stats)
    i = first_diff(real, model)
    if i is not None:
        s, e = case_bounds(ops, min(i, len(ops) - 1))
        res["disagreement"] = {
            "line": i, "case_ops": ops[s:e][:400],
            "request": ops[i] if i < len(ops) else None,
            "real": real[i] if i < len(real) else None,
            "model": model[i] if i < len(model) else None,
            "count": sum(1 for a, b in zip(real, model) if a != b),
        }
    res["oracle_failures"] = [
        dict(f, request=ops[f["line"]] if f["line"] < len(ops) else None,
             case_ops=ops[slice(*case_bounds(ops, f["line"]))][:400])
        for f in stats["oracle_failures"]]
    res["distinct"] = len(set(l for l in ops if not l.startswith("#")))
    return res


def load_known():
    p = os.path.join(ROOT, "known_findings.json")
    if not os.path.exists(p):
        return []
    return json.load(open(p)).get("findings", [])


def main():
    args = sys.argv[1:]
    pid = args[0]
    tier = os.environ.get("VERIF_TIER", "quick")
    if "--tier" in args:
        tier = args[args.index("--tier") + 1]
    seed = int(os.environ.get("VERIF_SEED", "1") or "1")
    spec = PROPS[pid]
    t0 = time.time()
    log = []
    workdir = os.path.join(ROOT, "work", f"{pid}-{tier}")
    shutil.rmtree(workdir, ignore_errors=True)
    os.makedirs(workdir, exist_ok=True)
    os.makedirs(os.path.join(ROOT, "replays"), exist_ok=True)
    os.makedirs(os.path.join(ROOT, "evidence"), exist_ok=True)

    violations = []      # (replay_path, suffix)
    known_lines = []

    obligations, discharged, pfail, axioms = proof_stage(pid, spec, tier, log)

    ok, out = build_harness(log)
    slices = []
    if not ok:
        pfail.append("harness does not build against /repo's working tree:\n" + out[-1500:])
    else:
        if "--replay" in args:
            # replay: run the given ops file through real (harness replay mode) and model
            rp = args[args.index("--replay") + 1]
            r = run([CVH, "replay", "--file", rp, "--out", workdir], timeout=3600)
            print(r.stdout)
        for (name, nq, nt) in spec["slices"]:
            n = nq if tier == "quick" else nt
            slices.append(run_slice(pid, name, n, seed, workdir, log))

    known = [k for k in load_known() if k.get("property") == pid and k.get("status") == "open"]

    def write_replay(kind, payload):
        h = hashlib.sha1(json.dumps(payload, sort_keys=True).encode()).hexdigest()[:10]
        path = os.path.join(ROOT, "replays", f"{pid}-{kind}-{seed}-{h}.json")
        with open(path, "w") as fh:
            json.dump(payload, fh, indent=1)
        return path

    # 1) oracle failures on the real code: concrete failing inputs
    concrete = False
    for s in slices:
        if s["status"] != "ok":
            if s.get("last_input"):
                # the process running the code under test aborted on this very input
                concrete = True
                violations.append((write_replay("abort", {"property": pid, "kind": "implementation aborted the process on this input",
                    "what": s["status"], "slice": s["slice"], "request": s["last_input"], "detail": s.get("detail")}), ""))
            else:
                violations.append((write_replay("crash", {"property": pid, "what": s["status"], "slice": s["slice"], "detail": s.get("detail")}), " no-failing-input-found"))
            continue
        for f in s["oracle_failures"][:5]:
            sig = next((k for k in known if re.search(k["signature"], f["what"])), None)
            if sig:
                known_lines.append(f"KNOWN-FINDING: property={pid} {sig['id']} {sig['what']}")
                continue
            concrete = True
            violations.append((write_replay("oracle", {
                "property": pid, "kind": "implementation violates the property's oracle",
                "slice": s["slice"], "seed": seed, "what": f["what"], "request": f["request"],
                "ops": f["case_ops"],
                "how_to_replay": f"{CVH} {s['slice']} --seed {seed} --n {s['n']} (line {f['line']})"}), ""))
    # 2) model/implementation disagreement
    for s in slices:
        if s["status"] == "ok" and "disagreement" in s:
            d = s["disagreement"]
            suffix = "" if concrete else " no-failing-input-found"
            violations.append((write_replay("corr", {
                "property": pid, "kind": "correspondence broken: model and implementation disagree",
                "correspondence": f"slice {s['slice']} (model {', '.join(spec['modules'])})",
                "searched": "every case of this run was also judged against the property's oracle on the real code" + ("; a failing input was found (see oracle replay)" if concrete else "; none failed"),
                "seed": seed, "line": d["line"], "request": d["request"], "real": d["real"],
                "model": d["model"], "disagreeing_lines": d["count"], "ops": d["case_ops"]}), suffix))
    # 3) proof obligations
    if pfail:
        suffix = "" if concrete else " no-failing-input-found"
        violations.append((write_replay("proof", {
            "property": pid, "kind": "proof obligation no longer checks", "failures": pfail,
            "theorems": spec["obligations"]}), suffix))

    # evidence
    total_lines = sum(s.get("lines", 0) for s in slices)
    dist = {}
    samples = []
    for s in slices:
        if s["status"] == "ok":
            dist[s["slice"]] = s["stats"]["distribution"]
            samples += s["stats"]["samples"][:4]
    ev = {
        "property_id": pid, "tier": tier, "seed": seed, "level": "proof",
        "coverage": {
            "obligations": obligations, "discharged": discharged,
            "checker_cmd": f"cd {LEAN} && lake build {' '.join(spec['modules'])} && lake env lean .audit/{pid}.lean" + (" && lake env leanchecker <modules>" if tier == "thorough" else ""),
            "trusted_base": COMMON_TRUST + spec["trusted"],
            "theorems": spec["obligations"], "full_strength_statements": spec["full"],
            "axioms_found": axioms,
            "programs": sum(s.get("cases", 0) for s in slices),
            "disagreements_checked": total_lines,
            "evaluations": total_lines,
            "distinct_nontrivial": sum(s.get("distinct", 0) for s in slices),
            "rule": "one evaluation = one request line executed by the real code and by the Lean model and compared; distinct = distinct request lines (comment/marker lines excluded)",
            "samples": samples or ["(no slice ran)"],
            "input_distribution": dist,
            "slices": [{k: v for k, v in s.items() if k in ("slice", "n", "status", "lines", "cases", "distinct")} for s in slices],
            "known_findings_reproduced": known_lines,
        },
        "assumptions": spec["assumptions"],
        "wall_s": round(time.time() - t0, 2),
        "violations": len(violations),
    }
    with open(os.path.join(ROOT, "evidence", f"{pid}.json"), "w") as fh:
        json.dump(ev, fh, indent=1)
    with open(os.path.join(workdir, "log.txt"), "w") as fh:
        fh.write("\n".join(log))

    for l in sorted(set(known_lines)):
        print(l)
    print(f"property={pid} tier={tier} seed={seed} obligations={discharged}/{obligations} "
          f"cases={ev['coverage']['programs']} lines={total_lines} wall={ev['wall_s']}s")
    if violations:
        for path, suffix in violations:
            print(f"VIOLATION property={pid} replay={path}{suffix}")
        sys.exit(1)
    sys.exit(0)


if __name__ == "__main__":
    main()
