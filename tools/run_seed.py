#!/usr/bin/env python3
"""run_seed.py <seed-id> [props...]: apply /verif/seeded/<seed-id>/patch.diff (or /tmp/seed-<id>/patch.diff)
to /repo, run the checks, undo the change, and record which checks raised a VIOLATION."""
import json, os, subprocess, sys, shutil
sys.path.insert(0, "/verif/tools")
from props import PROPS
sid = sys.argv[1]
props = sys.argv[2:] or sorted(PROPS)
sd = f"/verif/seeded/{sid}"
patch = os.path.join(sd, "patch.diff")
assert os.path.exists(patch), patch
assert subprocess.run(["git", "-C", "/repo", "status", "--porcelain"], capture_output=True, text=True).stdout.strip() == "", "/repo not clean"
r = subprocess.run(["git", "-C", "/repo", "apply", patch], capture_output=True, text=True)
assert r.returncode == 0, r.stderr
results = {}
try:
    for p in props:
        env = dict(os.environ, VERIF_SEED=os.environ.get("VERIF_SEED", "1"))
        out = subprocess.run(["/verif/check", p, "--tier", "quick"], capture_output=True, text=True, cwd="/verif", env=env)
        viol = [l for l in out.stdout.splitlines() if l.startswith("VIOLATION")]
        detail = []
        for v in viol:
            path = v.split("replay=")[1].split()[0]
            try:
                d = json.load(open(path))
                detail.append({"line": v, "kind": d.get("kind"), "what": d.get("what") or d.get("request") or (d.get("failures") or [""])[0][:300]})
            except Exception as e:
                detail.append({"line": v, "err": str(e)})
        results[p] = {"exit": out.returncode, "violations": detail}
        print(p, "exit", out.returncode, "|", "; ".join((x.get("kind") or "") + ": " + str(x.get("what"))[:160] for x in detail))
finally:
    subprocess.run(["git", "-C", "/repo", "checkout", "--", "."], check=True)
    # evidence and replays written while the seed was applied are not evidence of the real tree
    subprocess.run(["git", "-C", "/verif", "checkout", "--", "evidence"], check=False)
    for f in os.listdir("/verif/replays"):
        os.remove(os.path.join("/verif/replays", f))
dp = os.path.join(sd, "detection.json")
merged = json.load(open(dp)) if os.path.exists(dp) else {}
merged.update(results)
json.dump(merged, open(dp, "w"), indent=1)
