HOOK_COMMITS = ["119410b", "11f73ab", "b9302de"]

NOT_APPLICABLE = {}

_corr = "Tie to the code: differential execution (Rust harness on /repo's working tree vs the Lean model driver) on generated inputs every run; the real side is also judged against the property's own oracle."

META = {
    "C16": {
        "text": "Round-trip laws for the WAL-op codec, the snapshot codec, WAL record framing and the integer key encodings are Lean theorems over all values (under the explicit `as u32`/u64 guards); decoder allocation bounds are theorems over all byte strings. " + _corr,
        "design_ref": "DESIGN.md §7 C16, §4 P1",
        "note": "Trusted: Lean kernel; model Codec.lean/Frame.lean/Keys.lean written by hand; absence of panics in the Rust decoders is established by running them on arbitrary and mutated bytes under the harness (differential), not by the theorem.",
        "technique": "Lean 4 theorems (induction over encoded lists) + differential correspondence check",
    },
    "C17": {
        "text": "get_range = content[min(start,L), min(end,L)) for all contents, all start ≤ end in ℕ and all short-read patterns is a Lean theorem about the model of get_range/read_blob_range (incl. the read_at loop); rejection of inverted ranges and the allocation bound likewise. " + _corr,
        "design_ref": "DESIGN.md §7 C17",
        "note": "Trusted: Lean kernel; pread semantics; blob_size = content length (C12). The unsafe set_len is modelled only arithmetically.",
        "technique": "Lean 4 theorem (induction over the read loop) + differential correspondence check through the public API",
    },
    "C18": {
        "text": "hash→path injectivity and path→hash round-trip for all 32-byte hashes are Lean theorems about the model of relative_path/from_relative_path. " + _corr + " Chunk-independence of the committed hash relies on blake3's incremental-hashing contract (trusted) and is exercised through the API slices.",
        "design_ref": "DESIGN.md §7 C18",
        "note": "Trusted: Lean kernel; `hex` crate and Path::components as modelled; blake3 crate's Hasher contract.",
        "technique": "Lean 4 theorems (hex codec lemmas) + differential correspondence check",
    },
    "C10": {
        "text": "For every well-formed record stream and every truncation offset the segment reader returns an error or exactly the records wholly before the cut; every change of a record's payload (modulo a hash collision, an explicit hypothesis) or checksum yields an error: Lean theorems for all streams/offsets, at segment level and for the whole multi-segment replay. " + _corr,
        "design_ref": "DESIGN.md §7 C10",
        "note": "Trusted: Lean kernel; checksum function abstract (32-byte output); collision-freeness hypothesis for changed payloads. Segment level AND log level (C10_log_byte_change / C10_log_truncation: snapshot version + all segments in id order — the records before the damage are applied, nothing after it).",
        "technique": "Lean 4 theorems (induction over the record stream) + differential correspondence check on real segment files cut/flipped at every offset",
    },
    "C01": {
        "text": "Index half proved for every history: lookups, ascending iteration and presence reports of the key map equal the plain ordered map. File half proved over whole sequential histories of Store.lean's scripts: reading any key returns exactly the content the plain map key → content holds, never `missing` (C01_history_reads). Key order of every key kind proved to be a strict total order (keyOrder_strict). Range reads by C17. " + _corr,
        "design_ref": "DESIGN.md §7 C01, §4 P2",
        "note": "Trusted: Lean kernel; hand model Index/Store; Rust Ord on key types = KeyKind.lt on encodings (exercised for 13 key types); H collision-free on the contents that occur; restarts inside histories via C02.",
        "technique": "Lean 4 refinement proof (index ↔ ordered map, induction over histories) + differential correspondence check on API results",
    },
    "C12": {
        "text": "For every history: no panic site of apply_logical_op is reachable; refcount of each hash = number of keys mapped to it; known blobs = referenced hashes; unique_blobs/total_bytes equal what recompute_stats computes from scratch; each recorded size = content size; the same invariant holds after loading a snapshot (load_saved) and after WAL replay (logical_map_eq_recover). Lean theorems by induction over operations. " + _corr,
        "design_ref": "DESIGN.md §7 C12, §4 P2",
        "note": "Trusted: Lean kernel; Index.lean model; naturals for u32/u64 counters; restart/crash half tied by correspondence.",
        "technique": "Lean 4 invariant proof (IdxInv preserved by apply_logical_op) + differential correspondence check",
    },
    "C07": {
        "text": "Concurrent: after ANY schedule of ANY programs, whenever all threads are idle the CAS directory holds a file for a hash iff some key references it (C07_quiescent_exact; protection counts equal the number of commits in their window). Sequential, over whole histories of Store.lean's scripts: every referenced content has its file with exactly its bytes (runOps_sinv) AND every file under cas/ is referenced by some key, no staging file is left (C07_sequential_exact) — exactness, preserved by a clean restart (C02_reopen_succeeds); apply_logical_op returns exactly the hashes that lost their last reference; abandoned transactions leave no file. That the real store issues exactly these calls is tied by comparing cas/ and staging/ listings after every step / schedule. " + _corr,
        "design_ref": "DESIGN.md §7 C07",
        "note": "Trusted: Lean kernel; Conc.lean at yield-point granularity; Store.lean scripts; quiescent, fault-free histories; no descriptor keeps an unlinked staging file alive (observed).",
        "technique": "Lean 4 theorems (store-level exactness invariant over whole histories; interleaving invariant for schedules) + differential correspondence on directory listings",
    },
    "C13": {
        "text": "Frame theorem over the filesystem model: begin/write*/abort leaves every file other than the private staging file, every directory, untouched and removes the staging file — for every disk; concurrent: an abandoned transaction changes nothing shared whatever the other threads do (C13_abort_invisible). Observed: no descriptor keeps an unlinked staging file alive; leftovers after a kill are reported and removed. " + _corr,
        "design_ref": "DESIGN.md §7 C13",
        "note": "Trusted: Lean kernel; Fs.lean semantics; memory untouched before finish by inspection + comparison.",
        "technique": "Lean 4 frame lemma over the Fs model + differential correspondence on histories with aborts at every position",
    },
    "C02": {
        "text": "Byte level (Lean theorems over Store.lean's event scripts): closing a handle and opening the directory again reads the log without panic and yields exactly the key map memory held, with memory and disk tied again (C02_reopen_transparent_bytes); the scripts are runs of the record-level machine event by event (logAndApply_sim, checkpoint_sim, open_sim), the index file loads back to the state it was taken from (load_saved). Store level: from a store in the sequential invariants `open` RETURNS A HANDLE (no panic, the integrity scan finds nothing: scan_clean), every key reads the same content, no blob file appears or disappears, and the store is tied again (C02_reopen_succeeds). Record level: for ALL action sequences memory = state after the logged history. " + _corr,
        "design_ref": "DESIGN.md §7 C02, §4 P3",
        "note": "Trusted: Lean kernel; hand model Store.lean; that the REAL code issues the script's calls: syscall-trace, on-disk-bytes and API comparison after every step and reopen; hypotheses SaveOK / version bounds, no stray files under cas/, collision-free hash on the contents in use.",
        "technique": "Lean 4 invariant proof over a record-level WAL state machine + differential correspondence incl. syscall traces",
    },
    "C03": {
        "text": "Byte level (Lean theorems over Store.lean's event scripts, every state tied to the record-level machine, every cut position, every N / key kind): cut a commit's script after any number of filesystem events — recovery succeeds without panic and returns the old key map or the old one with exactly this operation (C03_commit_crash_atomic_bytes); cut the recovery itself anywhere and recover again: same alternative, tied again (C03_nested_crash_bytes); checkpoints and the whole put script likewise; whole sessions (any sequence of logged operations, a kill inside any of them: C03_history_crash_atomic_bytes). CONTENTS and the closing sentence of the property (Props/C03Blobs, C03Live): after a kill at any event of any operation `open` returns a handle, every key reads exactly its old or its new content (all keys of a range removal or none), the store is live again (StoreLive) and stays so through ANY further history of puts, removes, range removals, checkpoints, restarts, abandoned transactions and kills of each of them, inside recovery and inside first-time initialisation too (C03_histories_with_crashes, C03_from_empty_directory); delete_orphans afterwards restores exactness; the usage guards of these theorems (field widths, valid keys, snapshot fits, versions < 2^64) are themselves proved to hold along every history of at most 2^15 - 3 operations on keys shorter than 64 KiB (C03_small_world). Record level: after ANY prefix of ANY action sequence open yields the state after the records appended so far. " + _corr,
        "design_ref": "DESIGN.md §7 C03, §4 P3",
        "note": "Trusted: Lean kernel; process-kill crash model (calls atomic, completed calls persist); hand model; that the REAL syscall sequence is the script's: kill before every mutating call of a targeted operation, crash image reopened by real code and model; fresh staging names, usage guards (field widths, valid keys), no hash collision among stored contents.",
        "technique": "Lean 4 invariant proof (ghost history / recovery theorem) + crash-point enumeration differential check via LD_PRELOAD interposer",
    },
    "C20": {
        "text": "Byte level: after every prefix of a commit's script the segment files decode, in id order, to the machine's segments, every record sits in segment (v-1)/N, versions strictly increase, the index file loads to the state after the records up to its version and every logged record above it is present (C20_commit_wellformed_bytes). Record level: the same invariant for every reachable state of every action sequence. The Lean driver is the independent reader of the real bytes at every crash image. " + _corr,
        "design_ref": "DESIGN.md §7 C20",
        "note": "Trusted: as C03.",
        "technique": "Lean 4 invariant proof over the WAL state machine + independent decoding of real on-disk bytes at every crash point",
    },
    "C06": {
        "text": "Proved over whole scripts: at EVERY prefix of a put / remove / remove_range / checkpoint script every file in cas/ holds bytes hashing to its name (C06_put_all_prefixes, C06_commit_all_prefixes): no event creates-empty/writes/truncates a CAS path, the only way in is one rename of a completely written staging file; concurrent: ConcInv.files for every schedule. Observed on the real code at intermediate instants: BLAKE3 of every CAS file at every crash point and scheduling step. " + _corr,
        "design_ref": "DESIGN.md §7 C06",
        "note": "Trusted: Lean kernel; Fs.lean (assumed OS semantics); scripts ↔ real syscalls by trace comparison.",
        "technique": "Lean 4 syntactic + frame theorems over event scripts + crash-point / schedule observation of CAS contents",
    },
    "C19": {
        "text": "For EVERY disk and configuration: if stored version ≠ 4 or stored num_ops_per_wal ≠ requested, open fails with the matching error having issued only pre-gate events (mkdir of the two top-level dirs, open+flock of LOCK); no other file changes (C19_gate); an accepted open uses the STORED pre-creation flag and creates no directory tree (C19_precreate_remembered). " + _corr,
        "design_ref": "DESIGN.md §7 C19",
        "note": "Trusted: Lean kernel; serde_json abstracted to the canonical rendering; unchanged-data-after-correct-open via C02.",
        "technique": "Lean 4 theorem over the open script + differential check with directory dumps around rejected opens",
    },
    "C11": {
        "text": "Proved for one call: the loser of the lock touches nothing but LOCK, and in every open the flock precedes all settings/index/WAL/CAS traffic. Proved for the protocol (any number of processes and concurrent calls of open, clones, drops, process deaths, any interleaving): at most one owner, a refused call only closes its own descriptor, and once the owner dropped its last reference, failed after locking, or died, the next call is granted. The kernel's flock rule is part of the model (named in CasModel/Lock.lean) and compared with the real kernel on every line of slice c11p (three processes, SIGKILL) next to racing threads, a second handle, a second process, killed/dropped/kept-alive owners. " + _corr,
        "design_ref": "DESIGN.md §7 C11, §4 P10",
        "note": "PARTIAL in the brief's sense: the kernel's lock semantics are modelled and exercised, not proved; the protocol built on them is proved.",
        "technique": "Lean 4 theorems on the open script (lock-first) and on a multi-process lock-protocol model + process/thread race exercise through the interposer and real child processes",
    },
    "C15": {
        "text": "For all programs, thread counts and schedules of the interleaving model: lock invariant, lock order intents < state (< wal), no reachable deadlock (C15_no_deadlock), no infinite execution (C15_no_infinite_run: every step decreases a lexicographic measure), hence every strategy that keeps picking runnable threads finishes all calls (C15_all_calls_return). " + _corr,
        "design_ref": "DESIGN.md §7 C15, §4 P5",
        "note": "Trusted: Lean kernel; Conc.lean model at yield-point granularity; rwlock treated as exclusive; fairness of the real locks towards one thread and time per step not modelled; real deadlocks are reported with their schedule (watchdog).",
        "technique": "Lean 4 invariant + progress proof over an interleaving model + forced-schedule correspondence via yield-point hooks",
    },
    "C04": {
        "text": "Inductive invariant proved over the interleaving model for all programs, thread counts and schedules: every indexed key's hash has a file whose bytes hash to it and whose length is the indexed size; a commit between rename and apply keeps its blob (per-hash protection ≥ commits in their window); unlink phases only touch unreferenced, unprotected hashes. " + _corr + " Forced schedules through yield-point hooks are replayed step by step.",
        "design_ref": "DESIGN.md §7 C04, §4 P4",
        "note": "Trusted: Lean kernel; Conc.lean at yield-point granularity; WAL abstracted; real threads, memory model and parking_lot are assumed (model is tied by forced-schedule correspondence).",
        "technique": "Lean 4 inductive-invariant proof over an interleaving model + forced-schedule correspondence via yield-point hooks",
    },
    "C05": {
        "text": "Proved for every reachable state of every schedule: a read returns absent iff the key is absent at its lookup, else the complete content of the blob indexed at that instant, never failing because of a concurrent writer (C05_read_atomic); after any schedule the index is the sequential application of the writes in the order of their apply steps, each inside its call (C05_writes_linearize). The real results of every forced schedule are additionally judged by a brute-force linearizability checker. " + _corr,
        "design_ref": "DESIGN.md §7 C05",
        "note": "Trusted: as C04; remove/remove_range are two-point operations (scan, then removal of the scanned keys), as documented.",
        "technique": "Lean 4 theorem over the interleaving invariant + forced-schedule correspondence with a linearizability oracle",
    },
    "C08": {
        "text": "For every tree of regular files below cas/ and every index the scan's orphaned / missing / corrupted / invalid lists are proved to be exactly the sets the property describes; sequential clean-up with the scan of the same directory removes every unreferenced blob, stray and staging file and no referenced blob (C08_cleanup_restores_exactness); under concurrency clean-up never deletes a referenced or in-commit blob and concurrent operation never adds garbage. Behaviour on real crash images and planted garbage is compared with the model and an independent oracle. " + _corr,
        "design_ref": "DESIGN.md §7 C08",
        "note": "Trusted: Lean kernel; Orphan.lean; regular files only; BLAKE3 implementations.",
        "technique": "Lean 4 classification theorems over arbitrary file trees + interleaving invariant for clean-up + differential checks on planted garbage, crash images and forced schedules",
    },
    "C09": {
        "text": "Byte level (Lean theorems): power loss — any set of files loses everything after its last sync, directory operations persist in order — at ANY cut of a commit, of a whole put, or of a checkpoint leaves an image that recovery reads without panic as the old key map or the old one with exactly this operation (C09_commit/put/checkpoint_power_loss_bytes), likewise during `open` itself and for power loss after power loss, any number of times (C09_open_power_loss_bytes, C09_repeated_power_loss_bytes); scripts obey the sync discipline (a write to a WAL file is followed at once by its sync) and leave all WAL files fully synced; a committed blob is complete and synced before its record is written. CONTENTS (Props/C09Live): every power-loss image shows recovery and readers what some kill image shows (powerLoss_allPre_gen), so after power loss at any cut of any operation, for any set of files losing their unsynced bytes, `open` returns a handle and every visible key reads exactly its old or its new content (StoreDur.putPowerLoss, removePowerLoss, removeRangePowerLoss, checkpointPowerLoss, reopenPowerLoss); whole histories with power losses: C09_histories_with_power_loss, and with every usage guard discharged C09_small_world. " + _corr,
        "design_ref": "DESIGN.md §7 C09",
        "note": "Trusted: Lean kernel; the property's own loss model; fdatasync semantics; no real power loss can be run (loss images are rebuilt from the real syscall trace incl. sync events).",
        "technique": "Lean 4 theorems on sync ordering in event scripts + power-loss image reconstruction from traced syscalls",
    },
    "C14": {
        "text": "Byte level (Lean theorems over the fault scripts, a hand model of every error path): ONE failing call at ANY position of a put / remove / remove_range / checkpoint in any tied state, then ANY sequence of further operations of the same handle, then drop and reopen — no operation panics, memory is exactly the acknowledged operations applied to the old-or-new map, recovery and `open` succeed and per key return what the handle held or the failed operation's value, the reopened store is tied again (C14_put/remove/checkpoint_fault_contained, C14_*_fault_session_reopens); record level: the same for ANY number of failed appends, crashes and reopens (C14_failed_appends_contained); the blob of a put whose append failed is never deleted by later operations. That the fault scripts are the code's error paths is decided per run by injecting a failure at EVERY mutating call of targeted operations and comparing with the model and the property's oracle. " + _corr,
        "design_ref": "DESIGN.md §7 C14",
        "note": "Trusted: Lean kernel; Fault.lean hand-modelled error paths (BufWriter/Drop semantics read from std); interposer fail mode.",
        "technique": "Lean 4 theorems (WAL machine with failed appends, byte-level simulation of the fault and continuation scripts) + exhaustive single-fault injection per operation via LD_PRELOAD with differential comparison",
    },
}
