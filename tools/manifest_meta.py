HOOK_COMMITS = ["119410b", "11f73ab", "b9302de"]

NOT_APPLICABLE = {}

_corr = "Tie to the code: differential execution (Rust harness on /repo's working tree vs the Lean model driver) on generated inputs every run; the real side is also judged against the property's own oracle."

META = {
    "C16": {
        "text": "Round-trip laws for the WAL-op codec, the snapshot codec, WAL record framing and the integer key encodings are Lean theorems over all values (under the explicit `as u32`/u64 guards); decoder allocation bounds are theorems over all byte strings. " + _corr,
        "design_ref": "DESIGN.md §7 C16, §4 P1",
        "note": "Trusted: Lean kernel; model Codec.lean/Frame.lean/Keys.lean written by hand; absence of panics in the Rust decoders is established by running them on arbitrary and mutated bytes under the harness (differential), not by the theorem.",
        "technique": "Lean 4 theorems (induction over encoded lists) + differential correspondence check",
    },
    "C17": {
        "text": "get_range = content[min(start,L), min(end,L)) for all contents, all start ≤ end in ℕ and all short-read patterns is a Lean theorem about the model of get_range/read_blob_range (incl. the read_at loop); rejection of inverted ranges and the allocation bound likewise. " + _corr,
        "design_ref": "DESIGN.md §7 C17",
        "note": "Trusted: Lean kernel; pread semantics; blob_size = content length (C12). The unsafe set_len is modelled only arithmetically.",
        "technique": "Lean 4 theorem (induction over the read loop) + differential correspondence check through the public API",
    },
    "C18": {
        "text": "hash→path injectivity and path→hash round-trip for all 32-byte hashes are Lean theorems about the model of relative_path/from_relative_path. " + _corr + " Chunk-independence of the committed hash relies on blake3's incremental-hashing contract (trusted) and is exercised through the API slices.",
        "design_ref": "DESIGN.md §7 C18",
        "note": "Trusted: Lean kernel; `hex` crate and Path::components as modelled; blake3 crate's Hasher contract.",
        "technique": "Lean 4 theorems (hex codec lemmas) + differential correspondence check",
    },
    "C10": {
        "text": "For every well-formed record stream and every truncation offset the segment reader returns an error or exactly the records wholly before the cut; every change of a record's payload (modulo a hash collision, an explicit hypothesis) or checksum yields an error: Lean theorems for all streams/offsets. " + _corr,
        "design_ref": "DESIGN.md §7 C10",
        "note": "Trusted: Lean kernel; checksum function abstract (32-byte output); collision-freeness hypothesis for changed payloads. Segment level; the multi-segment replay (log level) statement is part of the Store model.",
        "technique": "Lean 4 theorems (induction over the record stream) + differential correspondence check on real segment files cut/flipped at every offset",
    },
    "C01": {
        "text": "Index half proved for every history: lookups, ascending iteration and presence reports of the key map equal the plain ordered map (induction over the op list on top of the index invariant); range reads by C17. The file-content half is tied by comparing every read and the full CAS listing after every step of generated histories (all key types, N, both sync modes) between the real store and the Lean Store model. " + _corr,
        "design_ref": "DESIGN.md §7 C01, §4 P2",
        "note": "Trusted: Lean kernel; hand model Index/Store; BTreeMap as sorted list under the key order's laws; collision-freeness; store-level file-content invariant not yet a theorem (correspondence).",
        "technique": "Lean 4 refinement proof (index ↔ ordered map, induction over histories) + differential correspondence check on API results",
    },
    "C12": {
        "text": "For every history: no panic site of apply_logical_op is reachable; refcount of each hash = number of keys mapped to it; known blobs = referenced hashes; unique_blobs/total_bytes equal what recompute_stats computes from scratch; each recorded size = content size. Lean theorems by induction over operations. " + _corr,
        "design_ref": "DESIGN.md §7 C12, §4 P2",
        "note": "Trusted: Lean kernel; Index.lean model; naturals for u32/u64 counters; restart/crash half tied by correspondence.",
        "technique": "Lean 4 invariant proof (IdxInv preserved by apply_logical_op) + differential correspondence check",
    },
    "C07": {
        "text": "The list of hashes returned for deletion is proved to be exactly those that lost their last reference, for every state and operation; abandoned transactions provably leave no file. That the store unlinks exactly that list and nothing else is tied by comparing cas/ and staging/ listings after every step with the model and with the oracle's set of referenced contents. " + _corr,
        "design_ref": "DESIGN.md §7 C07",
        "note": "Trusted: Lean kernel; Store.lean scripts for the filesystem half; quiescent, fault-free histories.",
        "technique": "Lean 4 theorem on the unreferenced-hash list + differential correspondence on directory listings",
    },
    "C13": {
        "text": "Frame theorem over the filesystem model: begin/write*/abort leaves every file other than the private staging file, every directory, untouched and removes the staging file — for every disk. " + _corr,
        "design_ref": "DESIGN.md §7 C13",
        "note": "Trusted: Lean kernel; Fs.lean semantics; memory untouched before finish by inspection + comparison.",
        "technique": "Lean 4 frame lemma over the Fs model + differential correspondence on histories with aborts at every position",
    },
    "C02": {
        "text": "Record-level theorem over ALL action sequences (appends, snapshot installs, prunes, opens, closes, crashes; every N): while open, memory = state after the logged history; close+open reproduces it and continues with a fresh version. Byte/syscall level tied by trace + on-disk-bytes + API comparison after every step and reopen. " + _corr,
        "design_ref": "DESIGN.md §7 C02, §4 P3",
        "note": "Trusted: Lean kernel; WalMachine mirrors the manager logic; Store.lean scripts ↔ actions by correspondence.",
        "technique": "Lean 4 invariant proof over a record-level WAL state machine + differential correspondence incl. syscall traces",
    },
    "C03": {
        "text": "Record-level theorem: after ANY prefix of ANY action sequence (crash anywhere, incl. during initialisation and nested inside recovery) open succeeds and yields exactly the state after the records appended so far (acked, or acked + the single in-flight record), never reusing a version. Byte level: kill-mode crash images at every mutating call, reopened by real code and model. " + _corr,
        "design_ref": "DESIGN.md §7 C03, §4 P3",
        "note": "Trusted: Lean kernel; process-kill crash model; scripts ↔ actions by trace correspondence; codec theorems C16/C10 connect records to bytes.",
        "technique": "Lean 4 invariant proof (ghost history / recovery theorem) + crash-point enumeration differential check via LD_PRELOAD interposer",
    },
    "C20": {
        "text": "Record-level invariant proved for every reachable state: strictly increasing never-reused versions, placement in segment (v-1)/N, ordered segments, snapshot = state up to its version, all logged records above it present. The Lean driver is the independent reader of the real bytes at every crash image. " + _corr,
        "design_ref": "DESIGN.md §7 C20",
        "note": "Trusted: as C03.",
        "technique": "Lean 4 invariant proof over the WAL state machine + independent decoding of real on-disk bytes at every crash point",
    },
    "C06": {
        "text": "Proved over the event scripts: no event creates-empty/writes/truncates a CAS path, every other event leaves a blob's bytes alone, and the rename publishes the whole staged content at once; readers keep their inode. Observed on the real code at intermediate instants: BLAKE3 of every CAS file at every crash point and scheduling step. " + _corr,
        "design_ref": "DESIGN.md §7 C06",
        "note": "Trusted: Lean kernel; Fs.lean (assumed OS semantics); scripts ↔ real syscalls by trace comparison.",
        "technique": "Lean 4 syntactic + frame theorems over event scripts + crash-point / schedule observation of CAS contents",
    },
    "C19": {
        "text": "For EVERY disk and configuration: if stored version ≠ 4 or stored num_ops_per_wal ≠ requested, open fails with the matching error having issued only pre-gate events (mkdir of the two top-level dirs, open+flock of LOCK); no other file changes. Lean theorem over openScript. " + _corr,
        "design_ref": "DESIGN.md §7 C19",
        "note": "Trusted: Lean kernel; serde_json abstracted to the canonical rendering; unchanged-data-after-correct-open via C02.",
        "technique": "Lean 4 theorem over the open script + differential check with directory dumps around rejected opens",
    },
    "C11": {
        "text": "Logic proved: the loser of the lock touches nothing but LOCK, and in every open the flock precedes all settings/index/WAL/CAS traffic. Kernel flock exclusivity and release-on-close/death are assumed (named), and exercised with racing threads, a second handle, a second process, killed/dropped/kept-alive owners. " + _corr,
        "design_ref": "DESIGN.md §7 C11",
        "note": "PARTIAL in the brief's sense: OS lock semantics cannot be proved, only the call order around it.",
        "technique": "Lean 4 theorems on the open script (lock-first) + process/thread race exercise through the interposer",
    },
    "C15": {
        "text": "For all programs, thread counts and schedules of the interleaving model: lock invariant, lock order intents < state (< wal), and no reachable deadlock (some thread can always step while work remains). " + _corr + " Every forced schedule on the real code must also complete under a watchdog.",
        "design_ref": "DESIGN.md §7 C15, §4 P5",
        "note": "Trusted: Lean kernel; Conc.lean model at yield-point granularity; fairness and per-op step bound not formalised.",
        "technique": "Lean 4 invariant + progress proof over an interleaving model + forced-schedule correspondence via yield-point hooks",
    },
    "C04": {
        "text": "Inductive invariant proved over the interleaving model for all programs, thread counts and schedules: every indexed key's hash has a file whose bytes hash to it and whose length is the indexed size; a commit between rename and apply keeps its blob (per-hash protection ≥ commits in their window); unlink phases only touch unreferenced, unprotected hashes. " + _corr + " Forced schedules through yield-point hooks are replayed step by step.",
        "design_ref": "DESIGN.md §7 C04, §4 P4",
        "note": "Trusted: Lean kernel; Conc.lean at yield-point granularity; WAL abstracted; real threads, memory model and parking_lot are assumed (model is tied by forced-schedule correspondence).",
        "technique": "Lean 4 inductive-invariant proof over an interleaving model + forced-schedule correspondence via yield-point hooks",
    },
    "C05": {
        "text": "Proved for every reachable state of every schedule: a read returns absent iff the key is absent at its lookup, else the complete content of the blob indexed at that instant, and never fails because of a concurrent writer. Real-time-respecting sequential order of the writes is checked per forced schedule by a linearizability checker on the real results. " + _corr,
        "design_ref": "DESIGN.md §7 C05",
        "note": "Trusted: as C04; the linearization of writes is by construction of the model (one atomic apply per op) and checked, not separately proved.",
        "technique": "Lean 4 theorem over the interleaving invariant + forced-schedule correspondence with a linearizability oracle",
    },
    "C08": {
        "text": "For every tree of regular files below cas/ and every index the scan's orphaned / missing / corrupted / invalid lists are proved to be exactly the sets the property describes (repaired scan); clean-up unlinks are part of the interleaving invariant (never a referenced or in-commit blob). Completeness of clean-up and behaviour on real crash images and planted garbage are compared with the model and an independent directory/index comparison. " + _corr,
        "design_ref": "DESIGN.md §7 C08",
        "note": "Trusted: Lean kernel; Orphan.lean; regular files only; BLAKE3 implementations.",
        "technique": "Lean 4 classification theorems over arbitrary file trees + interleaving invariant for clean-up + differential checks on planted garbage, crash images and forced schedules",
    },
    "C09": {
        "text": "Sync-ordering protocol proved over the event scripts for all inputs: staged blob synced before rename into cas/, snapshot synced before it replaces index and segments pruned only after, each record written in one piece and synced before anything is deleted or acknowledged; power loss leaves fully synced files untouched. Composition with the record-level crash theorem gives the property per operation; whole-history composition is tied by rebuilding loss images from the REAL syscall trace (incl. sync events) at every cut and reopening them. " + _corr,
        "design_ref": "DESIGN.md §7 C09",
        "note": "Trusted: Lean kernel; the property's own loss model; fdatasync semantics; no real power loss can be run.",
        "technique": "Lean 4 theorems on sync ordering in event scripts + power-loss image reconstruction from traced syscalls",
    },
    "C14": {
        "text": "Fault scripts (hand model of every error path) with theorems for all states and fault positions: the in-memory index after a failed put is the old or the fully-applied one, there is no panic outcome, and the blob of a put whose WAL append failed is never deleted by later operations. The rest of the property (later operations, reopen succeeds, keys old-or-new) is decided per run by injecting a failure at EVERY mutating call of targeted operations and comparing with the model and the property's oracle. " + _corr,
        "design_ref": "DESIGN.md §7 C14",
        "note": "Trusted: Lean kernel; Fault.lean hand-modelled error paths (BufWriter/Drop semantics read from std); interposer fail mode.",
        "technique": "Lean 4 theorems over fault scripts + exhaustive single-fault injection per operation via LD_PRELOAD with differential comparison",
    },
}
