HOOK_COMMITS = ["119410b"]

NOT_APPLICABLE = {}

_corr = "Tie to the code: differential execution (Rust harness on /repo's working tree vs the Lean model driver) on generated inputs every run; the real side is also judged against the property's own oracle."

META = {
    "C16": {
        "text": "Round-trip laws for the WAL-op codec, the snapshot codec, WAL record framing and the integer key encodings are Lean theorems over all values (under the explicit `as u32`/u64 guards); decoder allocation bounds are theorems over all byte strings. " + _corr,
        "design_ref": "DESIGN.md §7 C16, §4 P1",
        "note": "Trusted: Lean kernel; model Codec.lean/Frame.lean/Keys.lean written by hand; absence of panics in the Rust decoders is established by running them on arbitrary and mutated bytes under the harness (differential), not by the theorem.",
        "technique": "Lean 4 theorems (induction over encoded lists) + differential correspondence check",
    },
    "C17": {
        "text": "get_range = content[min(start,L), min(end,L)) for all contents, all start ≤ end in ℕ and all short-read patterns is a Lean theorem about the model of get_range/read_blob_range (incl. the read_at loop); rejection of inverted ranges and the allocation bound likewise. " + _corr,
        "design_ref": "DESIGN.md §7 C17",
        "note": "Trusted: Lean kernel; pread semantics; blob_size = content length (C12). The unsafe set_len is modelled only arithmetically.",
        "technique": "Lean 4 theorem (induction over the read loop) + differential correspondence check through the public API",
    },
    "C18": {
        "text": "hash→path injectivity and path→hash round-trip for all 32-byte hashes are Lean theorems about the model of relative_path/from_relative_path. " + _corr + " Chunk-independence of the committed hash relies on blake3's incremental-hashing contract (trusted) and is exercised through the API slices.",
        "design_ref": "DESIGN.md §7 C18",
        "note": "Trusted: Lean kernel; `hex` crate and Path::components as modelled; blake3 crate's Hasher contract.",
        "technique": "Lean 4 theorems (hex codec lemmas) + differential correspondence check",
    },
    "C10": {
        "text": "For every well-formed record stream and every truncation offset the segment reader returns an error or exactly the records wholly before the cut; every change of a record's payload (modulo a hash collision, an explicit hypothesis) or checksum yields an error: Lean theorems for all streams/offsets. " + _corr,
        "design_ref": "DESIGN.md §7 C10",
        "note": "Trusted: Lean kernel; checksum function abstract (32-byte output); collision-freeness hypothesis for changed payloads. Segment level; the multi-segment replay (log level) statement is part of the Store model.",
        "technique": "Lean 4 theorems (induction over the record stream) + differential correspondence check on real segment files cut/flipped at every offset",
    },
}
