#!/usr/bin/env python3
"""seed_readme.py: (re)write seeded/<id>/meta.json for seeds that lack one and seeded/README.md,
the table of seeded changes and the checks that catch them (from detection.json files written by
tools/run_seed.py)."""
import json, os
ROOT = "/verif/seeded"
DESC = {
 "C08": ("C08", "scan_orphans skips the pass that reports missing blobs when the directory walk saw at least as many files as the index has blobs",
         "a referenced blob missing while an unreferenced file is present (counts cancel out)"),
 "C11": ("C11", "Cas::open creates directories, settings and replays the WAL BEFORE it takes the LOCK file's flock (lock acquisition moved to the end of open)",
         "a second open of a directory that is held (or several racing opens): the loser mutates the directory before it fails"),
 "C14": ("C14", "keep_protection only for the write-entry error variant, not for every WAL error (sync / rotation failures lose the protection)",
         "a put whose WAL sync fails after the record was written, then the same content put and removed under another key, then reopen"),
 "C15": ("C15", "get_range holds the index read guard from its size pre-check across the nested with_blob_file read lock (recursive read lock)",
         "a writer queued on the state lock between the two read acquisitions (parking_lot is writer-preferring): reader and writer block for ever"),
 "C17": ("C17", "read_blob_range caps the pre-allocation at 64 KiB but still reads into spare capacity only: ranges above 64 KiB come back short",
         "a range longer than 65 536 bytes"),
 "C18": ("C18", "Transaction::write hashes chunks >= 128 KiB twice (update_rayon AND update)",
         "a single write call with at least 131 072 bytes"),
 "C19": ("C19", "open takes dir_tree_is_pre_created from the caller's config instead of the stored settings",
         "reopen an existing store with the other pre_create_cas_dirs flag, then put"),
 "F1-large-record-two-writes": ("C03", "REGRESSION of F1 (repaired by 374c184): WAL entry written as header write + payload write",
         "a crash between the two writes of a record (any remove_range / put record)"),
 "F2-intent-clobbering": ("C04", "REGRESSION of F2 (repaired by 8ba843f): blob protection keyed by key only, so two commits on one key clobber each other's protection",
         "two writers on the same key with different contents, a remover of the older content in between"),
 "F2b-protection-released-at-drop": ("C07", "REGRESSION of the flawed first F2 repair (corrected by fd1c121): protection released when the guard is dropped, not when the put is applied",
         "a commit whose content becomes unreferenced by another thread between its apply and its guard drop: blob leaks"),
 "F3-open-after-guard": ("C05", "REGRESSION of F3 (repaired by 5ae164b): blob file opened after the index read guard is released",
         "a remove/overwrite of the key between a reader's lookup and its open (needs the guarded yield point blob.before_open, hook b9302de)"),
 "F5-noncanonical-paths": ("C08", "REGRESSION of F5 (repaired by a12b3f8): orphan scan accepts any cas/aa/bb/<60 hex> file whatever case/length/place",
         "upper-case or misplaced files below cas/"),
}
rows = []
for sid in sorted(os.listdir(ROOT)):
    d = os.path.join(ROOT, sid)
    if not os.path.isdir(d): continue
    mp = os.path.join(d, "meta.json")
    meta = json.load(open(mp)) if os.path.exists(mp) else {}
    conf = json.load(open(os.path.join(d, "confirm.json"))) if os.path.exists(os.path.join(d, "confirm.json")) else {}
    det = json.load(open(os.path.join(d, "detection.json"))) if os.path.exists(os.path.join(d, "detection.json")) else {}
    first = json.load(open(os.path.join(d, "detection_first_run.json"))) if os.path.exists(os.path.join(d, "detection_first_run.json")) else None
    if sid in DESC:
        prop, change, needs = DESC[sid]
        meta.update({"id": sid, "breaks_property": prop, "change": change, "needs_to_manifest": needs,
                     "origin": ("hand-written regression of a repaired defect" if sid.startswith("F") else
                                "written by an independent sub-agent given only the property text and a scratch worktree of /repo"),
                     "confirmed_by_me": conf,
                     "what_i_ran": "tools/confirm_seed.sh (suite with the change; demo with/without where there is one) and tools/run_seed.py (git apply to /repo, ./check <props> --tier quick, git checkout)"})
    detected = {}
    for p, r in det.items():
        if r.get("exit") == 1:
            kinds = []
            for v in r.get("violations", []):
                k = v.get("kind") or ""
                kinds.append("oracle" if "oracle" in k else "correspondence" if "correspondence" in k else "proof" if "proof" in k else "harness")
            detected[p] = sorted(set(kinds))
    missed = [p for p, r in det.items() if r.get("exit") == 0]
    meta["detected_by"] = {p: [ (v.get("kind") or "") + ": " + str(v.get("what"))[:200] for v in det[p]["violations"][:3]] for p in detected}
    meta["missed_by"] = missed
    if first is not None:
        meta["first_run_missed"] = [p for p, r in first.items() if r.get("exit") == 0]
    json.dump(meta, open(mp, "w"), indent=1)
    rows.append((sid, meta.get("breaks_property", "?"), meta.get("change", ""), meta.get("needs_to_manifest", ""), detected, missed, meta.get("first_run_missed") or meta.get("missed_by_first_run") or []))
with open(os.path.join(ROOT, "README.md"), "w") as f:
    f.write("# Seeded changes and the checks that catch them\n\n")
    f.write("Every change compiles and leaves the existing test suite at its baseline (70 passed, the same 2 sandbox failures). "
            "`Cxx` seeds were written by independent sub-agents from the property text alone; `F*` seeds re-introduce defects this work repaired. "
            "Columns: checks (quick tier) that exit 1 with the change applied, and how (oracle = concrete failing input on the real code; "
            "correspondence = model/implementation disagreement; proof = obligation no longer checks). "
            "Regenerate with `python3 tools/run_seed.py <id> <props>` and `python3 tools/seed_readme.py`.\n\n")
    f.write("| seed | property | change | needs | caught by | not caught by (checks also run) | missed at first, then strengthened |\n|---|---|---|---|---|---|---|\n")
    for sid, prop, change, needs, detected, missed, first in rows:
        c = ", ".join(f"{p} ({'+'.join(k)})" for p, k in sorted(detected.items())) or "—"
        f.write(f"| {sid} | {prop} | {change} | {needs} | {c} | {', '.join(missed) or '—'} | {', '.join(first) or '—'} |\n")
print(len(rows), "seeds")
