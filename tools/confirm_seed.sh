#!/bin/bash
# confirm_seed.sh <ID>: in scratch worktree /tmp/seed-<ID>, confirm that the seeded change
# (patch.diff) compiles, keeps the existing suite at 70 passed, and that the demo fails with it and
# passes without it. Never uses `git stash` (the stash is shared between worktrees).
ID=$1; W=/tmp/seed-$ID; L=$(echo $ID | tr A-Z a-z)
cd $W || exit 2
export CARGO_NET_OFFLINE=true
[ -f Cargo.lock ] || cp /repo/Cargo.lock .
git checkout -q -- src && git apply patch.diff || { echo "$ID patch does not apply"; exit 3; }
FEAT=""
grep -q 'verif-hooks' tests/demo_$L.rs && FEAT="--features verif-hooks"
suite=$(cargo test --offline --lib 2>&1 | grep -E "^test result" | head -1)
demo_with=$(cargo test --offline $FEAT --test demo_$L 2>&1 | grep -E "^test result" | tail -1)
git checkout -q -- src
demo_without=$(cargo test --offline $FEAT --test demo_$L 2>&1 | grep -E "^test result" | tail -1)
git apply patch.diff
python3 - "$ID" "$suite" "$demo_with" "$demo_without" "$FEAT" <<'PY'
import json,sys
id,suite,dw,dwo,feat=sys.argv[1:6]
ok = ("70 passed" in suite) and ("FAILED" in dw) and ("ok." in dwo and "0 failed" in dwo)
json.dump({"id":id,"suite_with_change":suite,"demo_with_change":dw,"demo_without_change":dwo,"demo_features":feat,"confirmed":ok}, open(f"/tmp/seed-{id}/confirm.json","w"), indent=1)
print(id, "CONFIRMED" if ok else "NOT-CONFIRMED", "|", suite, "|", dw, "|", dwo)
PY
