//! C17: get_range / get_size / get_reader against slices of the content, through the public API.
use std::io::Read;
use std::num::NonZeroU64;
use std::path::Path;

use cassadilia::{Cas, Config, LibError, SyncMode};

use crate::alloc::measure;
use crate::out::Out;
use crate::rng::Rng;
use crate::wire::hx;

pub fn config(n: u64, sync: bool) -> Config {
    Config {
        sync_mode: if sync { SyncMode::Sync } else { SyncMode::Async },
        num_ops_per_wal: NonZeroU64::new(n).unwrap(),
        pre_create_cas_dirs: false,
        scan_orphans_on_startup: true,
        verify_blob_integrity: false,
        fail_on_integrity_errors: true,
    }
}

/// parse a `cfg kind=.. n=.. sync=.. pre=.. scan=.. verify=.. fail=..` line
pub fn config_full(line: &str) -> Config {
    let get = |k: &str, d: u64| -> u64 {
        line.split(' ').find_map(|t| t.strip_prefix(&format!("{k}="))).and_then(|v| v.parse().ok()).unwrap_or(d)
    };
    Config {
        sync_mode: if get("sync", 1) == 1 { SyncMode::Sync } else { SyncMode::Async },
        num_ops_per_wal: NonZeroU64::new(get("n", 10_000)).unwrap(),
        pre_create_cas_dirs: get("pre", 0) == 1,
        scan_orphans_on_startup: get("scan", 1) == 1,
        verify_blob_integrity: get("verify", 0) == 1,
        fail_on_integrity_errors: get("fail", 1) == 1,
    }
}

fn one(cas: &Cas<Vec<u8>>, key: &Vec<u8>, content: &[u8], s: u64, e: u64, out: &mut Out) {
    let l = content.len() as u64;
    // "no request panics": a panic is a result like any other, reported with the bounds that caused it
    let (r, peak, largest) = measure(|| std::panic::catch_unwind(std::panic::AssertUnwindSafe(|| cas.get_range(key, s, e))));
    let r = match r {
        Ok(r) => r,
        Err(_) => {
            out.oracle_fail(format!("C17: L={l} [{s},{e}) panicked"));
            out.push(format!("range {} {} {} _", hx(content), s, e), "panic".to_string());
            return;
        }
    };
    let line = match &r {
        Ok(Some(b)) => format!("ok {} {}", hx(b), b.len()),
        Ok(None) => "absent".to_string(),
        Err(LibError::Cas(cassadilia_range_err)) if format!("{cassadilia_range_err}").starts_with("Invalid range") => "err invalidRange".to_string(),
        Err(e) => format!("err other {e}"),
    };
    // oracle straight from the property text
    if s <= e {
        let lo = s.min(l) as usize;
        let hi = e.min(l) as usize;
        match &r {
            Ok(Some(b)) if b[..] == content[lo..hi] => {}
            _ => out.oracle_fail(format!("C17: L={l} [{s},{e}) returned {line}")),
        }
        out.count(if hi == lo { "range.empty" } else if e > l { "range.clamped" } else { "range.inner" });
    } else if s < l {
        if !matches!(r, Err(_)) {
            out.oracle_fail(format!("C17: L={l} inverted [{s},{e}) not rejected: {line}"));
        }
        out.count("range.inverted.rejected");
    } else {
        out.count("range.inverted.beyond");
    }
    // allocation: nothing beyond L (plus path strings, file handle buffers)
    if largest as u64 > l + 4096 || peak as u64 > l + 16384 {
        out.oracle_fail(format!("C17 alloc: L={l} [{s},{e}) peak {peak} largest {largest}"));
    }
    out.push(format!("range {} {} {} _", hx(content), s, e), line);
}

pub fn c17(rng: &mut Rng, n: u64, work: &Path, out: &mut Out) {
    let dir = work.join("c17db");
    let _ = std::fs::remove_dir_all(&dir);
    let cas: Cas<Vec<u8>> = Cas::open(&dir, config(10_000, true)).expect("open");
    let specials = [1u64 << 32, (1 << 32) - 1, 1 << 63, u64::MAX, u64::MAX - 1];
    let put = |content: &[u8], chunks: usize| -> Vec<u8> {
        let key = vec![b'k'];
        let mut tx = cas.put(key.clone()).expect("put");
        if chunks <= 1 {
            tx.write(content).expect("write");
        } else {
            for c in content.chunks(content.len().div_ceil(chunks).max(1)) {
                tx.write(c).expect("write");
            }
        }
        tx.finish().expect("finish");
        key
    };
    // exhaustive: L ≤ 6, all bounds in 0..L+2 plus the special values
    for l in 0..=6usize {
        let content: Vec<u8> = (0..l).map(|i| 0x10 + i as u8).collect();
        let key = put(&content, 1);
        out.cases += 1;
        let mut bounds: Vec<u64> = (0..=(l as u64 + 2)).collect();
        bounds.extend_from_slice(&specials);
        for &s in &bounds {
            for &e in &bounds {
                one(&cas, &key, &content, s, e, out);
            }
        }
        // size and streaming reader
        let sz = cas.get_size(&key).expect("get_size");
        if sz != Some(l as u64) {
            out.oracle_fail(format!("C17: get_size {sz:?} for L={l}"));
        }
        let mut buf = Vec::new();
        cas.get_reader(&key).expect("reader").expect("present").read_to_end(&mut buf).expect("read");
        if buf != content {
            out.oracle_fail(format!("C17: get_reader streamed {} bytes for L={l}", buf.len()));
        }
    }
    out.count("range.exhaustive_L<=6");
    // L around buffer sizes, sampled bounds
    for i in 0..n {
        out.cases += 1;
        let l = *rng.pick(&[8191usize, 8192, 8193, 65_535, 65_536, 65_537, 100_000, 200_000, 100, 1000, 4096]);
        let l = if i % 3 == 0 { l } else { rng.range(7, 300) as usize };
        // sizes across the MiB scale (read-ahead windows, allocation caps): once or twice per run
        let l = if i == 1 { (1usize << 20) + 4097 } else if i == 7 { 3 * (1usize << 20) + 17 } else { l };
        if l > (1 << 20) { out.count("range.blob>1MiB"); }
        let content = rng.bytes(l);
        let key = put(&content, rng.range(1, 4) as usize);
        // whole-blob and near-whole ranges (long single reads)
        if l > 9000 {
            for (s0, e0) in [(0u64, l as u64), (0, u64::MAX), (1, 1 << 63), (0, l as u64 - 1), (5, l as u64 - 5),
                             (l as u64 / 3, l as u64 / 3 + (1 << 20) + 1), (7, 7 + (1 << 20))] {
                let r = cas.get_range(&key, s0, e0);
                let lo = s0.min(l as u64) as usize;
                let hi = e0.min(l as u64) as usize;
                match r {
                    Ok(Some(b)) if b[..] == content[lo..hi] => out.count("range.big.whole"),
                    other => out.oracle_fail(format!("C17: L={l} [{s0},{e0}) → {:?} bytes", other.map(|o| o.map(|b| b.len())))),
                }
            }
        }
        for _ in 0..6 {
            let b = |rng: &mut Rng| match rng.below(6) {
                0 => *rng.pick(&specials),
                1 => l as u64,
                2 => l as u64 + rng.below(3),
                3 => (l as u64).saturating_sub(rng.below(3)),
                _ => rng.below(l as u64 + 1),
            };
            let (s, e) = (b(rng), b(rng));
            let (s, e) = if rng.chance(4, 5) && s > e { (e, s) } else { (s, e) };
            // keep lines small for big blobs: only compare through the model for L ≤ 9000
            if l <= 9000 {
                one(&cas, &key, &content, s, e, out);
            } else {
                let r = cas.get_range(&key, s, e);
                let lo = s.min(l as u64) as usize;
                let hi = e.min(l as u64) as usize;
                match r {
                    Ok(Some(b)) if s <= e && b[..] == content[lo..hi] => out.count("range.big.ok"),
                    Err(_) if s > e && s < l as u64 => out.count("range.big.rejected"),
                    Ok(Some(b)) if s > e && b.is_empty() => out.count("range.big.beyond"),
                    other => out.oracle_fail(format!("C17: L={l} [{s},{e}) → {:?}", other.map(|o| o.map(|b| b.len())))),
                }
            }
        }
        let sz = cas.get_size(&key).expect("get_size");
        if sz != Some(l as u64) {
            out.oracle_fail(format!("C17: get_size {sz:?} for L={l}"));
        }
        let mut buf = Vec::new();
        cas.get_reader(&key).expect("reader").expect("present").read_to_end(&mut buf).expect("read");
        if buf != content {
            out.oracle_fail(format!("C17: get_reader streamed {} bytes for L={l}", buf.len()));
        }
    }
    drop(cas);
    let _ = std::fs::remove_dir_all(&dir);
}
