//! Accumulates the request stream, the real code's responses, oracle failures and
//! the input-distribution counters that go into the evidence file.
use std::collections::BTreeMap;
use std::io::Write;
use std::path::Path;

#[derive(Default)]
pub struct Out {
    pub ops: Vec<String>,
    pub real: Vec<String>,
    /// (line index, description): the real code violated the property's own oracle
    pub oracle_failures: Vec<(usize, String)>,
    pub stats: BTreeMap<String, u64>,
    pub samples: Vec<String>,
    pub cases: u64,
}

impl Out {
    pub fn push(&mut self, op: String, real: String) {
        if self.samples.len() < 6 && !op.starts_with('#') {
            self.samples.push(format!("{op}  =>  {real}"));
        }
        self.ops.push(op);
        self.real.push(real);
    }
    /// a comment line, echoed by both sides (case separators / labels)
    pub fn mark(&mut self, text: &str) {
        let l = format!("# {text}");
        self.ops.push(l.clone());
        self.real.push(l);
    }
    /// Record (on disk, at once) the request that is about to be executed IN THIS PROCESS: if the
    /// code under test aborts the process (allocation failure, stack overflow), the check still
    /// has the failing input.
    pub fn about_to(&self, op: &str) {
        if let Ok(p) = std::env::var("CVH_JOURNAL") { let _ = std::fs::write(p, op); }
    }
    pub fn count(&mut self, key: &str) {
        *self.stats.entry(key.to_string()).or_insert(0) += 1;
    }
    pub fn add(&mut self, key: &str, n: u64) {
        *self.stats.entry(key.to_string()).or_insert(0) += n;
    }
    pub fn oracle_fail(&mut self, what: String) {
        let idx = self.ops.len().saturating_sub(1);
        self.oracle_failures.push((idx, what));
    }
    pub fn write(&self, dir: &Path, name: &str) -> std::io::Result<()> {
        std::fs::create_dir_all(dir)?;
        let mut f = std::io::BufWriter::new(std::fs::File::create(dir.join(format!("{name}.ops")))?);
        for l in &self.ops {
            writeln!(f, "{l}")?;
        }
        f.flush()?;
        let mut f = std::io::BufWriter::new(std::fs::File::create(dir.join(format!("{name}.real")))?);
        for l in &self.real {
            writeln!(f, "{l}")?;
        }
        f.flush()?;
        let mut f = std::fs::File::create(dir.join(format!("{name}.stats.json")))?;
        let stats: Vec<String> =
            self.stats.iter().map(|(k, v)| format!("{}: {}", json_str(k), v)).collect();
        let fails: Vec<String> = self
            .oracle_failures
            .iter()
            .map(|(i, w)| format!("{{\"line\": {}, \"what\": {}}}", i, json_str(w)))
            .collect();
        let samples: Vec<String> = self.samples.iter().map(|s| json_str(s)).collect();
        writeln!(
            f,
            "{{\"cases\": {}, \"lines\": {}, \"distribution\": {{{}}}, \"oracle_failures\": [{}], \"samples\": [{}]}}",
            self.cases,
            self.ops.len(),
            stats.join(", "),
            fails.join(", "),
            samples.join(", ")
        )?;
        Ok(())
    }
}

pub fn json_str(s: &str) -> String {
    let mut o = String::from("\"");
    for c in s.chars() {
        match c {
            '"' => o.push_str("\\\""),
            '\\' => o.push_str("\\\\"),
            '\n' => o.push_str("\\n"),
            c if (c as u32) < 0x20 => o.push_str(&format!("\\u{:04x}", c as u32)),
            c => o.push(c),
        }
    }
    o.push('"');
    o
}
