//! C14: one injected failure (error without side effect) at EVERY mutating filesystem call of a
//! targeted operation, then further operations and a reopen. Judged by the property's oracle:
//! no panic/hang, other keys untouched, the failed operation's keys hold old or new, reopen works.
use std::collections::BTreeMap;

use crate::rng::Rng;
use crate::sess::Sess;
use crate::wire::hx;

type Map = BTreeMap<Vec<u8>, Vec<u8>>;

fn fmt(m: &Map) -> String {
    let v: Vec<String> = m.iter().map(|(k, b)| format!("{}:{}:{}", hx(k), hx(blake3::hash(b).as_bytes()), b.len())).collect();
    if v.is_empty() { "_".to_string() } else { v.join(";") }
}

#[derive(Clone)]
enum Op { Put(Vec<u8>, Vec<u8>), Remove(Vec<u8>), RemoveAll, Checkpoint, Reopen }

fn line(op: &Op) -> Vec<String> {
    match op {
        Op::Put(k, c) => vec![format!("put {} ={}", hx(k), hx(c))],
        Op::Remove(k) => vec![format!("remove {}", hx(k))],
        Op::RemoveAll => vec!["rrange * *".into()],
        Op::Checkpoint => vec!["checkpoint".into()],
        Op::Reopen => vec!["close".into(), "open".into()],
    }
}

fn apply(m: &mut Map, op: &Op) {
    match op {
        Op::Put(k, c) => { m.insert(k.clone(), c.clone()); }
        Op::Remove(k) => { m.remove(k); }
        Op::RemoveAll => m.clear(),
        _ => {}
    }
}

/// run one case; returns the number of counted events of the targeted op when probing
fn run(s: &mut Sess, cfg: &str, ops: &[Op], target: usize, target_line: usize, k: u64, cont: &[Op]) -> Option<u64> {
    s.begin_case(cfg);
    if !s.op("open").starts_with("ok") { return None; }
    let mut m = Map::new();
    let mut events = None;
    for (i, op) in ops.iter().enumerate() {
        let lines = line(op);
        if i == target {
            let before = m.clone();
            let mut after = m.clone();
            apply(&mut after, op);
            let mut result = String::new();
            for (j, l) in lines.iter().enumerate() {
                if j == target_line { s.op(&format!("failnext {k}")); }
                let r = s.op(l);
                if j == target_line {
                    events = r.strip_prefix("fault events=").and_then(|x| x.split(' ').next()).and_then(|x| x.parse().ok());
                    result = r.splitn(3, ' ').nth(2).unwrap_or("").to_string();
                }
            }
            if result == "panic" || result.is_empty() { s.out.oracle_fail(format!("C14: the failed call panicked / hung: `{result}`")); }
            // a failed reopen leaves no handle: open again (no fault armed)
            if matches!(op, Op::Reopen) && !result.starts_with("ok") {
                let r = s.op("open");
                if !r.starts_with("ok") { s.out.oracle_fail(format!("C14: open after a failed open/close failed: {r}")); return events; }
            }
            s.op("trace");
            // in-memory view right after the fault: old or new for the op's keys, others untouched
            let got = s.op("iter");
            if got == fmt(&after) { m = after; s.out.count("fault.new"); }
            else if got == fmt(&before) { m = before; s.out.count("fault.old"); }
            else { s.out.oracle_fail(format!("C14: after the fault the store shows `{got}`; old = `{}`, new = `{}`", fmt(&before), fmt(&after))); return events; }
            s.op("stats"); s.op("blobs"); s.op("mem"); s.op("dump");
            break;
        } else {
            for l in &lines { s.op(l); }
            apply(&mut m, op);
        }
    }
    // continuation: same-content put + remove under another key (the F4 trigger), then other ops
    for op in cont {
        for l in line(op) { s.op(&l); }
        apply(&mut m, op);
        let got = s.op("iter");
        if got != fmt(&m) { s.out.oracle_fail(format!("C14: after a later operation the store shows `{got}`, expected `{}`", fmt(&m))); return events; }
    }
    s.op("trace");
    s.op("close");
    s.op("trace");
    // reopen: succeeds; the failed op's keys old or new (a failed put's record may have reached the log)
    let r = s.op("open");
    if !r.starts_with("ok") { s.out.oracle_fail(format!("C14: reopen after a contained fault failed: {r}")); return events; }
    let got = s.op("iter");
    let mut alt = m.clone();
    let mut alts = vec![fmt(&m)];
    if let Some(op) = ops.get(target) {
        // the failed operation may surface after the restart (its record was logged), ordered
        // before the continuation ops
        let mut base = Map::new();
        for o in &ops[..target] { apply(&mut base, o); }
        apply(&mut base, op);
        for o in cont { apply(&mut base, o); }
        alt = base;
        alts.push(fmt(&alt));
    }
    let _ = alt;
    if !alts.contains(&got) { s.out.oracle_fail(format!("C14: after reopening the store shows `{got}`, allowed: {alts:?}")); return events; }
    // every key readable
    for k in [b"a".to_vec(), b"b".to_vec(), b"c".to_vec()] { let r = s.op(&format!("get {}", hx(&k))); if r.starts_with("err") { s.out.oracle_fail(format!("C14: `get {}` after reopen: {r}", hx(&k))); } }
    s.op("stats"); s.op("blobs");
    // the fault must not poison what comes after the restart either: an operation acknowledged
    // now (on a key the failed operation never touched) survives the next restart
    let cur: Map = { let mut m2 = Map::new(); for part in got.split(';') { if part == "_" { continue; } let f: Vec<&str> = part.split(':').collect(); if f.len() == 3 { m2.insert(crate::wire::unhx(f[0]), f[1].as_bytes().to_vec()); } } m2 };
    s.op(&format!("put {} ={}", hx(b"d"), hx(b"after-restart")));
    s.op("close");
    s.op("trace");
    let r = s.op("open");
    if !r.starts_with("ok") { s.out.oracle_fail(format!("C14: second reopen failed: {r}")); return events; }
    let r = s.op(&format!("get {}", hx(b"d")));
    if r != format!("found {} {}", b"after-restart".len(), hx(blake3::hash(b"after-restart").as_bytes())) { s.out.oracle_fail(format!("C14: a put acknowledged after the restart is gone after the next restart: get d = `{r}`")); }
    let got2 = s.op("iter");
    let keys2: Vec<&str> = got2.split(';').filter(|p| *p != "_").map(|p| p.split(':').next().unwrap_or("")).collect();
    for k in cur.keys() { if !keys2.contains(&hx(k).as_str()) { s.out.oracle_fail(format!("C14: key {} vanished at the second restart", hx(k))); } }
    s.op("stats"); s.op("blobs");
    s.op("close");
    s.op("trace");
    events
}

pub fn c14(s: &mut Sess, rng: &mut Rng, n: u64) {
    let keys: [&[u8]; 3] = [b"a", b"b", b"c"];
    let contents: [&[u8]; 3] = [b"X", b"YY", b"ZZZ"];
    for i in 0..n {
        // Segment ids change their number of DIGITS at 9 → 10: with n = 2 the 21st operation opens
        // segment 10. A failure inside that roll-over's checkpoint leaves the records of segments 9
        // and 10 both uncheckpointed; the overwrite that follows makes their replay ORDER visible.
        if i % 16 == 6 {
            let sync = rng.chance(3, 4);
            let cfg = format!("cfg kind=bytes n=2 sync={} pre=0", sync as u8);
            let mut ops: Vec<Op> = (0..19u8).map(|j| Op::Put(vec![b'f', j], b"F".to_vec())).collect();
            ops.push(Op::Put(b"a".to_vec(), b"X".to_vec()));                       // version 20, segment 9
            let target_op = if rng.chance(1, 2) { Op::Put(b"b".to_vec(), b"YY".to_vec()) } else { Op::Remove(vec![b'f', 3]) }; // version 21, opens segment 10
            ops.push(target_op);
            let target = ops.len() - 1;
            let mut cont = vec![Op::Put(b"a".to_vec(), b"ZZZ".to_vec())];        // version 22, segment 10: overwrites version 20's key
            if rng.chance(1, 3) { cont.push(Op::Remove(b"a".to_vec())); }
            s.out.count("history.rollover-into-segment-10");
            let Some(nev) = run(s, &cfg, &ops, target, 0, 1_000_000, &cont) else { continue };
            s.out.add("fault.points", nev);
            for k in 0..nev { run(s, &cfg, &ops, target, 0, k, &cont); }
            continue;
        }
        let n_wal = *rng.pick(&[1u64, 2, 3, 10_000]);
        let sync = rng.chance(3, 4);
        let cfg = format!("cfg kind=bytes n={n_wal} sync={} pre=0", sync as u8);
        let mut ops: Vec<Op> = Vec::new();
        for _ in 0..rng.range(1, 5) {
            let k = keys[rng.below(3) as usize].to_vec();
            let c = contents[rng.below(3) as usize].to_vec();
            ops.push(match rng.below(10) { 0..=5 => Op::Put(k, c), 6 | 7 => Op::Remove(k), 8 => Op::Checkpoint, _ => Op::RemoveAll });
        }
        // every eighth case: the target is exactly the operation that rolls the log over for the
        // first time, nothing is checkpointed yet — a fault in its roll-over checkpoint meets a log
        // whose only copy of the earlier operations is the segment about to be pruned
        let cfg = if i % 8 == 3 {
            for o in ops.iter_mut() {
                if matches!(o, Op::Checkpoint | Op::RemoveAll | Op::Remove(_)) {
                    *o = Op::Put(keys[rng.below(3) as usize].to_vec(), contents[rng.below(3) as usize].to_vec());
                }
            }
            s.out.count("history.first-rollover-target");
            format!("cfg kind=bytes n={} sync={} pre=0", ops.len(), sync as u8)
        } else { cfg };
        // the targeted operation is the last one; sometimes a reopen (close or open is the target)
        let (target_op, target_line) = match i % 6 {
            0 => (Op::Reopen, 1usize),       // fault inside open (recovery)
            1 => (Op::Reopen, 0usize),       // fault inside close
            2 => (Op::Checkpoint, 0),
            3 => (Op::Remove(keys[rng.below(3) as usize].to_vec()), 0),
            _ => (Op::Put(keys[rng.below(3) as usize].to_vec(), contents[rng.below(3) as usize].to_vec()), 0),
        };
        s.out.count(match (&target_op, target_line) { (Op::Reopen, 1) => "target.open", (Op::Reopen, _) => "target.close", (Op::Checkpoint, _) => "target.checkpoint", (Op::Remove(_), _) => "target.remove", _ => "target.put" });
        ops.push(target_op.clone());
        let target = ops.len() - 1;
        // continuation: if the target is a put of content C under k, then put j=C; remove j (the
        // sequence that unlinks the blob of a put whose record may replay), plus a random op
        let mut cont: Vec<Op> = Vec::new();
        if let Op::Put(k, c) = &target_op {
            let j = keys.iter().find(|x| **x != k.as_slice()).unwrap().to_vec();
            cont.push(Op::Put(j.clone(), c.clone()));
            cont.push(Op::Remove(j));
        }
        // every other put target keeps the continuation minimal, so that nothing overwrites the
        // failed put's key or checkpoints past its record before the reopen
        if i % 6 != 4 {
            cont.push(Op::Put(keys[rng.below(3) as usize].to_vec(), contents[rng.below(3) as usize].to_vec()));
            if rng.chance(1, 3) { cont.push(Op::Checkpoint); }
            // a checkpoint as the very first thing after the failed operation (it persists the
            // burnt version and may prune every segment), then whatever follows
            match rng.below(3) {
                0 => cont.insert(0, Op::Checkpoint),
                // … or nothing else at all before the restart
                1 => { cont.clear(); cont.push(Op::Checkpoint); }
                _ => {}
            }
        }
        // … or restart straight after the failed operation: the image the failed call left is all
        // the next open has (nothing is healed by a later checkpoint)
        if i % 4 == 3 { cont.clear(); s.out.count("cont.none"); }
        // … except every other first-rollover target: there the failed call may have left memory
        // ahead of the disk (e.g. `last_persisted_version` set before the snapshot write failed), and
        // an explicit checkpoint as the very next call acts on that memory — it must not prune the
        // only copy of the earlier operations
        if i % 16 == 11 { cont.push(Op::Checkpoint); s.out.count("cont.checkpoint-after-first-rollover-fault"); }
        let Some(nev) = run(s, &cfg, &ops, target, target_line, 1_000_000, &cont) else { continue };
        s.out.add("fault.points", nev);
        for k in 0..nev {
            run(s, &cfg, &ops, target, target_line, k, &cont);
        }
    }
}
