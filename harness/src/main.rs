//! cvh — correspondence harness: runs /repo's real code on generated inputs and writes
//! `<name>.ops` (requests for the Lean model driver), `<name>.real` (the real code's responses)
//! and `<name>.stats.json` (input distribution, oracle failures).
mod alloc;
mod conc;
mod concgen;
mod crash;
mod fault;
mod gate;
mod keys;
mod out;
mod pure;
mod range;
mod rng;
mod seq;
mod reader;
mod sess;
mod wire;
mod worker;

use std::path::PathBuf;

#[global_allocator]
static GLOBAL: alloc::Counting = alloc::Counting;

fn arg(args: &[String], name: &str) -> Option<String> {
    args.iter().position(|a| a == name).and_then(|i| args.get(i + 1).cloned())
}

fn main() {
    let args: Vec<String> = std::env::args().collect();
    let slice = args.get(1).cloned().unwrap_or_default();
    if slice == "worker" {
        worker::main();
        return;
    }
    let seed: u64 = arg(&args, "--seed").and_then(|s| s.parse().ok()).unwrap_or(1);
    let n: u64 = arg(&args, "--n").and_then(|s| s.parse().ok()).unwrap_or(100);
    let outdir = PathBuf::from(arg(&args, "--out").unwrap_or_else(|| ".".into()));
    let work = PathBuf::from(arg(&args, "--work").unwrap_or_else(|| {
        let base = if std::path::Path::new("/dev/shm").is_dir() { "/dev/shm" } else { "/tmp" };
        format!("{base}/cvh-{}-{}", std::process::id(), slice)
    }));
    std::fs::create_dir_all(&work).expect("work dir");
    let mut rng = rng::Rng::new(seed);
    let mut out = out::Out::default();
    match slice.as_str() {
        "c16" => pure::c16(&mut rng, n, &work, &mut out),
        "c10frame" => pure::c10_frame(&mut rng, n, &work, &mut out),
        "c18" => pure::c18(&mut rng, n, &mut out),
        "c17" => range::c17(&mut rng, n, &work, &mut out),
        "c01" | "c02" | "c13" | "c07" | "c12" | "c18chunks" | "c06seq" => {
            let mut s = sess::Sess::new(&work);
            let (w, p): (&seq::Weights, &'static str) = match slice.as_str() { "c01" => (&seq::W_C01, "C01"), "c07" => (&seq::W_C01, "C07"), "c12" => (&seq::W_C01, "C12"), "c18chunks" => (&seq::W_C01, "C18"), "c06seq" => (&seq::W_C01, "C06"), "c02" => (&seq::W_C02, "C02"), _ => (&seq::W_C13, "C13") };
            seq::histories(&mut s, &mut rng, n, w, p);
            s.finish();
            out = std::mem::take(&mut s.out);
        }
        "c03" | "c09" | "c20" | "c06" | "c08crash" | "c13crash" => {
            let mut s = sess::Sess::new(&work);
            let thorough = std::env::var("VERIF_TIER").map_or(false, |t| t == "thorough");
            let (m, p): (crash::Mode, &'static str) = match slice.as_str() { "c09" => (crash::Mode::PowerLoss, "C09"), "c20" => (crash::Mode::Kill, "C20"), "c06" => (crash::Mode::Kill, "C06"), "c08crash" => (crash::Mode::Kill, "C08"), "c13crash" => (crash::Mode::Kill, "C13"), _ => (crash::Mode::Kill, "C03") };
            crash::crashes(&mut s, &mut rng, n, m, p, thorough);
            s.finish();
            out = std::mem::take(&mut s.out);
        }
        "c04" | "c05" | "c15" | "c07conc" | "c08conc" | "c13conc" => {
            let mut s = sess::Sess::new(&work);
            let p: &'static str = match slice.as_str() { "c04" => "C04", "c05" => "C05", "c15" => "C15", "c07conc" => "C07", "c08conc" => "C08", _ => "C13" };
            concgen::conc_cases(&mut s, &mut rng, n, p);
            s.finish();
            out = std::mem::take(&mut s.out);
        }
        "c19" | "c11" | "c11p" | "c11sys" | "c08" | "c10log" => {
            let mut s = sess::Sess::new(&work);
            let thorough = std::env::var("VERIF_TIER").map_or(false, |t| t == "thorough");
            if slice == "c19" { gate::c19(&mut s, &mut rng, n); } else if slice == "c11" { gate::c11(&mut s, &mut rng, n); } else if slice == "c11p" { gate::c11p(&mut s, &mut rng, n); } else if slice == "c11sys" { gate::c11sys(&mut s, &mut rng, n); } else if slice == "c08" { gate::c08(&mut s, &mut rng, n); } else { gate::c10log(&mut s, &mut rng, n, thorough); }
            s.finish();
            out = std::mem::take(&mut s.out);
        }
        "c14" => {
            let mut s = sess::Sess::new(&work);
            fault::c14(&mut s, &mut rng, n);
            s.finish();
            out = std::mem::take(&mut s.out);
        }
        other => {
            eprintln!("unknown slice {other}");
            std::process::exit(2);
        }
    }
    out.write(&outdir, &slice).expect("write outputs");
    let _ = std::fs::remove_dir_all(&work);
    println!("slice={} cases={} lines={} oracle_failures={}", slice, out.cases, out.ops.len(), out.oracle_failures.len());
}
