//! splitmix64: every random choice of the harness derives from one seed.
#[derive(Clone)]
pub struct Rng(pub u64);

impl Rng {
    pub fn new(seed: u64) -> Self {
        Rng(seed.wrapping_mul(0x9E3779B97F4A7C15) ^ 0xD1B54A32D192ED03)
    }
    pub fn next(&mut self) -> u64 {
        self.0 = self.0.wrapping_add(0x9E3779B97F4A7C15);
        let mut z = self.0;
        z = (z ^ (z >> 30)).wrapping_mul(0xBF58476D1CE4E5B9);
        z = (z ^ (z >> 27)).wrapping_mul(0x94D049BB133111EB);
        z ^ (z >> 31)
    }
    pub fn below(&mut self, n: u64) -> u64 {
        if n == 0 { 0 } else { self.next() % n }
    }
    pub fn range(&mut self, lo: u64, hi: u64) -> u64 {
        lo + self.below(hi - lo + 1)
    }
    pub fn chance(&mut self, num: u64, den: u64) -> bool {
        self.below(den) < num
    }
    pub fn pick<'a, T>(&mut self, xs: &'a [T]) -> &'a T {
        &xs[self.below(xs.len() as u64) as usize]
    }
    pub fn bytes(&mut self, n: usize) -> Vec<u8> {
        (0..n).map(|_| self.next() as u8).collect()
    }
    pub fn fork(&mut self) -> Rng {
        Rng::new(self.next())
    }
}
