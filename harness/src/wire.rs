//! Text encoding of the line protocol (mirror of lean/CasModel/Wire.lean).
pub fn hx(b: &[u8]) -> String {
    if b.is_empty() { "-".to_string() } else { hex::encode(b) }
}
pub fn unhx(s: &str) -> Vec<u8> {
    if s == "-" { Vec::new() } else { hex::decode(s).expect("hex") }
}
pub fn hxlist<T: AsRef<[u8]>>(l: &[T]) -> String {
    if l.is_empty() {
        "_".to_string()
    } else {
        l.iter().map(|b| hx(b.as_ref())).collect::<Vec<_>>().join(",")
    }
}
pub fn unhxlist(s: &str) -> Vec<Vec<u8>> {
    if s == "_" { Vec::new() } else { s.split(',').map(unhx).collect() }
}
