//! An independent reader of the on-disk format (C20): parses the snapshot (`index`) and every
//! `<id>_index.wal` file of a database directory WITHOUT the library, and computes the key map
//! the files describe — the snapshot's entries, then every record whose version is above the
//! snapshot's, in VERSION order.  Used as an oracle next to every recovery: what `open` shows must
//! be what the files say.  Returns `None` when the files cannot be judged by these rules (a
//! checksum mismatch or an undecodable record before the end of a segment: `open` must fail then,
//! which other oracles check).
use std::collections::BTreeMap;
use std::path::Path;

pub type Entry = (String, u64); // (hash hex, size)

fn u32le(b: &[u8]) -> u32 { u32::from_le_bytes(b[..4].try_into().unwrap()) }
fn u64le(b: &[u8]) -> u64 { u64::from_le_bytes(b[..8].try_into().unwrap()) }

fn hexs(b: &[u8]) -> String { crate::wire::hx(b) }

/// the snapshot: (version, entries); a missing file is the empty snapshot at version 0
fn read_snapshot(dir: &Path) -> Option<(u64, BTreeMap<Vec<u8>, Entry>)> {
    let bytes = match std::fs::read(dir.join("index")) { Ok(b) => b, Err(_) => return Some((0, BTreeMap::new())) };
    if bytes.len() < 12 { return None; }
    let ver = u64le(&bytes[0..]);
    let n = u32le(&bytes[8..]) as usize;
    let mut off = 12;
    let mut m = BTreeMap::new();
    for _ in 0..n {
        if off + 4 > bytes.len() { return None; }
        let kl = u32le(&bytes[off..]) as usize; off += 4;
        if off + kl + 40 > bytes.len() { return None; }
        let k = bytes[off..off + kl].to_vec(); off += kl;
        let h = hexs(&bytes[off..off + 32]); off += 32;
        let sz = u64le(&bytes[off..]); off += 8;
        m.insert(k, (h, sz));
    }
    Some((ver, m))
}

pub enum RawOp { Put(Vec<u8>, Entry), Remove(Vec<Vec<u8>>) }

fn decode_op(p: &[u8]) -> Option<RawOp> {
    let (&tag, mut b) = p.split_first()?;
    match tag {
        0 => {
            if b.len() < 4 { return None; }
            let kl = u32le(b) as usize; b = &b[4..];
            if b.len() != kl + 40 { return None; }
            Some(RawOp::Put(b[..kl].to_vec(), (hexs(&b[kl..kl + 32]), u64le(&b[kl + 32..]))))
        }
        1 => {
            if b.len() < 4 { return None; }
            let n = u32le(b) as usize; b = &b[4..];
            let mut ks = Vec::new();
            for _ in 0..n {
                if b.len() < 4 { return None; }
                let kl = u32le(b) as usize; b = &b[4..];
                if b.len() < kl { return None; }
                ks.push(b[..kl].to_vec()); b = &b[kl..];
            }
            if !b.is_empty() { return None; }
            Some(RawOp::Remove(ks))
        }
        _ => None,
    }
}

/// the records of one segment file: stop at the sentinel or at an incomplete tail
fn read_segment(bytes: &[u8]) -> Option<Vec<(u64, Vec<u8>)>> {
    let mut off = 0;
    let mut out = Vec::new();
    while off + 44 <= bytes.len() {
        let ver = u64le(&bytes[off..]);
        let sum = &bytes[off + 8..off + 40];
        let len = u32le(&bytes[off + 40..]) as usize;
        if ver == 0 && len == 0 && sum.iter().all(|x| *x == 0) { break; } // sentinel
        if off + 44 + len > bytes.len() { break; }                          // torn tail
        let payload = &bytes[off + 44..off + 44 + len];
        if blake3::hash(payload).as_bytes() != sum { return None; }
        out.push((ver, payload.to_vec()));
        off += 44 + len;
    }
    Some(out)
}

/// the key map the files describe: encoded key → (hash, size)
pub fn described_state(dir: &Path) -> Option<BTreeMap<Vec<u8>, Entry>> {
    let (snap_ver, mut m) = read_snapshot(dir)?;
    let mut recs: Vec<(u64, Vec<u8>)> = Vec::new();
    for e in std::fs::read_dir(dir).ok()?.flatten() {
        let name = e.file_name().to_string_lossy().into_owned();
        if let Some(id) = name.strip_suffix("_index.wal") {
            if id.parse::<u64>().is_err() { continue; }
            recs.extend(read_segment(&std::fs::read(e.path()).ok()?)?);
        }
    }
    recs.sort_by_key(|r| r.0);
    // a version logged twice cannot be ordered by these rules
    if recs.windows(2).any(|w| w[0].0 == w[1].0) { return None; }
    for (ver, payload) in recs {
        if ver <= snap_ver { continue; }
        match decode_op(&payload)? {
            RawOp::Put(k, e) => { m.insert(k, e); }
            RawOp::Remove(ks) => { for k in ks { m.remove(&k); } }
        }
    }
    Some(m)
}

/// canonical text of a described state / of an `iter` response, as a set of `key:hash:size`
pub fn as_set(m: &BTreeMap<Vec<u8>, Entry>) -> std::collections::BTreeSet<String> {
    m.iter().map(|(k, (h, s))| format!("{}:{}:{}", hexs(k), h, s)).collect()
}
pub fn iter_set(resp: &str) -> std::collections::BTreeSet<String> {
    if resp == "_" { Default::default() } else { resp.split(';').map(|s| s.to_string()).collect() }
}

/// C20's layout rules, checked on the files alone: versions strictly increasing in segment-id
/// order, every record in the segment its version belongs to ((v-1)/N), and EVERY acknowledged
/// version above the snapshot's version present in some segment (`next` = the version the next
/// logged operation would get; fault-free sessions only — a failed append burns a version).
/// `None`: the files cannot be judged by these rules (an undecodable record inside a segment).
pub fn layout_violations(dir: &Path, n_wal: u64, next: u64) -> Option<Vec<String>> {
    let (snap_ver, _) = read_snapshot(dir)?;
    let mut segs: Vec<(u64, Vec<(u64, Vec<u8>)>)> = Vec::new();
    for e in std::fs::read_dir(dir).ok()?.flatten() {
        let name = e.file_name().to_string_lossy().into_owned();
        if let Some(id) = name.strip_suffix("_index.wal").and_then(|x| x.parse::<u64>().ok()) {
            segs.push((id, read_segment(&std::fs::read(e.path()).ok()?)?));
        }
    }
    segs.sort_by_key(|s| s.0);
    let mut bad = Vec::new();
    let mut last = 0u64;
    let mut seen = std::collections::BTreeSet::new();
    for (id, recs) in &segs {
        for (v, _) in recs {
            if *v <= last { bad.push(format!("version {v} in segment {id} does not exceed the previous version {last}")); }
            last = *v;
            if n_wal > 0 && (*v - 1) / n_wal != *id { bad.push(format!("version {v} is in segment {id}, its place is segment {}", (*v - 1) / n_wal)); }
            seen.insert(*v);
        }
    }
    for v in snap_ver + 1..next {
        if !seen.contains(&v) { bad.push(format!("acknowledged version {v} is above the snapshot's version {snap_ver} and in no segment")); break; }
    }
    Some(bad)
}
