//! Key types supported by the harness (all `KeyBytes` impls of the crate, one array size).
use std::fmt::Debug;
use std::hash::Hash;

use cassadilia::KeyBytes;

use crate::rng::Rng;

pub trait HKey: KeyBytes + Clone + Eq + Ord + Hash + Debug + Send + Sync + 'static {
    const KIND: &'static str;
    fn dec(b: &[u8]) -> Option<Self> {
        Self::from_key_bytes(b)
    }
    fn enc(&self) -> Vec<u8> {
        self.to_key_bytes_owned()
    }
}

macro_rules! hkey {
    ($($t:ty => $k:literal),* $(,)?) => {$(
        impl HKey for $t { const KIND: &'static str = $k; }
    )*};
}
hkey!(Vec<u8> => "bytes", String => "string", [u8; 4] => "fixed4",
      u8 => "u8", u16 => "u16", u32 => "u32", u64 => "u64", u128 => "u128",
      i8 => "i8", i16 => "i16", i32 => "i32", i64 => "i64", i128 => "i128");

pub const KINDS: &[&str] = &[
    "bytes", "string", "fixed4", "u8", "u16", "u32", "u64", "u128", "i8", "i16", "i32", "i64",
    "i128",
];

/// dispatch a generic function on a kind name
#[macro_export]
macro_rules! with_kind {
    ($kind:expr, $f:ident ( $($args:expr),* )) => {
        match $kind {
            "bytes" => $f::<Vec<u8>>($($args),*),
            "string" => $f::<String>($($args),*),
            "fixed4" => $f::<[u8; 4]>($($args),*),
            "u8" => $f::<u8>($($args),*),
            "u16" => $f::<u16>($($args),*),
            "u32" => $f::<u32>($($args),*),
            "u64" => $f::<u64>($($args),*),
            "u128" => $f::<u128>($($args),*),
            "i8" => $f::<i8>($($args),*),
            "i16" => $f::<i16>($($args),*),
            "i32" => $f::<i32>($($args),*),
            "i64" => $f::<i64>($($args),*),
            "i128" => $f::<i128>($($args),*),
            other => panic!("unknown key kind {other}"),
        }
    };
}

pub fn width(kind: &str) -> Option<usize> {
    match kind {
        "fixed4" => Some(4),
        "u8" | "i8" => Some(1),
        "u16" | "i16" => Some(2),
        "u32" | "i32" => Some(4),
        "u64" | "i64" => Some(8),
        "u128" | "i128" => Some(16),
        _ => None,
    }
}

const STRINGS: &[&str] =
    &["", "a", "b", "ab", "ba", "aa", "\u{e9}", "\u{20ac}", "\u{1f600}", "a\0", "z", "A", "~", "\u{7ff}", "\u{800}", "\u{ffff}", "\u{10000}", "\u{10ffff}"];

/// a VALID key encoding for `kind`; `pool` small ⇒ frequent collisions between keys
pub fn gen_key(kind: &str, rng: &mut Rng, pool: u64) -> Vec<u8> {
    match kind {
        "bytes" => {
            let alphabet = [0x00u8, 0x61, 0x62, 0x7f, 0x80, 0xff];
            match rng.below(pool.max(1)) {
                0 => vec![],
                n => {
                    let len = 1 + (n as usize % 3);
                    (0..len).map(|i| alphabet[((n as usize) / (i + 1) + i) % alphabet.len()]).collect()
                }
            }
        }
        "string" => STRINGS[rng.below(pool.min(STRINGS.len() as u64).max(1)) as usize].as_bytes().to_vec(),
        _ => {
            let w = width(kind).expect("width");
            // extremes and near-extremes of the two's complement / unsigned range, plus small values
            let pats: [u8; 6] = [0x00, 0x01, 0x7f, 0x80, 0xfe, 0xff];
            let n = rng.below(pool.max(1)) as usize;
            let mut v = vec![0u8; w];
            match n % 4 {
                0 => { v[0] = (n / 4) as u8; }                                   // small non-negative
                1 => { for b in v.iter_mut() { *b = 0xff; } v[0] = 0xff - (n / 4) as u8; } // small negative / near max
                2 => { v[w - 1] = pats[(n / 4) % 6]; }                           // sign-bit region
                _ => { for (i, b) in v.iter_mut().enumerate() { *b = pats[(n / 4 + i) % 6]; } }
            }
            v
        }
    }
}

/// arbitrary bytes that may or may not be a valid key of `kind`
pub fn gen_maybe_key(kind: &str, rng: &mut Rng) -> Vec<u8> {
    match kind {
        "string" => {
            const NASTY: &[&[u8]] = &[
                b"\xc0\x80", b"\xc1\xbf", b"\xc2", b"\xc2\x7f", b"\xc2\x80", b"\xdf\xbf", b"\xe0\x80\x80",
                b"\xe0\x9f\xbf", b"\xe0\xa0\x80", b"\xed\x9f\xbf", b"\xed\xa0\x80", b"\xed\xbf\xbf",
                b"\xee\x80\x80", b"\xef\xbf\xbf", b"\xf0\x80\x80\x80", b"\xf0\x8f\xbf\xbf",
                b"\xf0\x90\x80\x80", b"\xf4\x8f\xbf\xbf", b"\xf4\x90\x80\x80", b"\xf5\x80\x80\x80",
                b"\xff", b"\x80", b"\xbf", b"\xe2\x82", b"\xf0\x9f\x98", b"a\xe2\x82\xacb", b"\xe2\x82\xac\x80",
            ];
            if rng.chance(1, 2) {
                let mut v = Vec::new();
                for _ in 0..rng.range(1, 3) {
                    let p: &&[u8] = rng.pick(NASTY); v.extend_from_slice(p);
                }
                v
            } else {
                let n = rng.below(6) as usize;
                (0..n).map(|_| *rng.pick(&[0x00u8, 0x41, 0x7f, 0x80, 0xbf, 0xc2, 0xe0, 0xed, 0xf0, 0xf4, 0xa0, 0x90, 0x9f, 0x8f])).collect()
            }
        }
        _ => {
            let w = width(kind).unwrap_or(3);
            let len = match rng.below(6) {
                0 => w.saturating_sub(1),
                1 => w + 1,
                2 => 0,
                _ => w,
            };
            rng.bytes(len)
        }
    }
}
