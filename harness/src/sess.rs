//! Main-process side of a store session: owns the worker child process (which runs the real
//! store under the interposer), canonicalises the syscall trace, dumps the directory, applies
//! power-loss truncation, and records every request/response pair in `Out`.
use std::collections::HashMap;
use std::io::{BufRead, BufReader, Read, Seek, SeekFrom, Write};
use std::path::{Path, PathBuf};
use std::process::{Child, ChildStdin, ChildStdout, Command, Stdio};

use crate::out::Out;
use crate::wire::hx;

struct Worker {
    child: Child,
    stdin: ChildStdin,
    /// lines of the worker's stdout, read by a helper thread (None = EOF) so that a request can time out
    lines: std::sync::mpsc::Receiver<Option<String>>,
}

pub struct Sess {
    pub out: Out,
    pub work: PathBuf,
    pub dir: PathBuf,
    log: PathBuf,
    log_off: u64,
    worker: Option<Worker>,
    cfgline: String,
    staging: HashMap<String, u64>,
    /// rel path → (length, synced length), rebuilt from the trace (for power-loss images)
    track: HashMap<String, (u64, u64)>,
    ploss: Option<String>,
    case_no: u64,
    pub interposed: bool,
    pending_trace: Vec<String>,
    planted: usize,
    /// slice c11p: further processes working on the same directory
    lk_procs: Vec<Option<(Child, ChildStdin, BufReader<ChildStdout>)>>,
}

fn so_path() -> PathBuf {
    let exe = std::env::current_exe().expect("exe");
    // /verif/harness/target/debug/cvh → /verif/interpose/fsio.so
    exe.parent().and_then(|p| p.parent()).and_then(|p| p.parent()).and_then(|p| p.parent())
        .map(|p| p.join("interpose/fsio.so")).expect("so path")
}

pub fn copy_dir(from: &Path, to: &Path) {
    std::fs::create_dir_all(to).expect("mkdir");
    if let Ok(rd) = std::fs::read_dir(from) {
        for e in rd.flatten() {
            let p = e.path();
            let t = to.join(e.file_name());
            if p.is_dir() { copy_dir(&p, &t); } else { std::fs::copy(&p, &t).expect("copy"); }
        }
    }
}

pub fn is_hex_lower(s: &str) -> bool {
    s.bytes().all(|b| b.is_ascii_digit() || (b'a'..=b'f').contains(&b))
}

impl Sess {
    pub fn new(work: &Path) -> Sess {
        std::fs::create_dir_all(work).expect("work");
        Sess {
            out: Out::default(),
            work: work.to_path_buf(),
            dir: work.join("db0"),
            log: work.join("fsio.log"),
            log_off: 0,
            worker: None,
            cfgline: String::new(),
            staging: HashMap::new(),
            track: HashMap::new(),
            ploss: None,
            case_no: 0,
            interposed: so_path().exists(),
            pending_trace: Vec::new(),
            planted: 0,
            lk_procs: Vec::new(),
        }
    }

    fn spawn(&mut self) {
        let exe = std::env::current_exe().expect("exe");
        let mut cmd = Command::new(exe);
        cmd.arg("worker").stdin(Stdio::piped()).stdout(Stdio::piped()).stderr(Stdio::null());
        if self.interposed {
            cmd.env("LD_PRELOAD", so_path()).env("FSIO_LOG", &self.log);
        }
        let mut child = cmd.spawn().expect("spawn worker");
        let stdin = child.stdin.take().unwrap();
        let mut stdout = BufReader::new(child.stdout.take().unwrap());
        let (tx, lines) = std::sync::mpsc::channel();
        std::thread::spawn(move || loop {
            let mut l = String::new();
            match stdout.read_line(&mut l) {
                Ok(0) | Err(_) => { let _ = tx.send(None); break; }
                Ok(_) => { if tx.send(Some(l)).is_err() { break; } }
            }
        });
        self.worker = Some(Worker { child, stdin, lines });
        let d = format!("dir {}", self.dir.display());
        let c = self.cfgline.clone();
        assert_eq!(self.raw(&d).as_deref(), Some("ok"));
        assert_eq!(self.raw(&c).as_deref(), Some("ok"));
    }

    /// send one line to the worker; None = the worker died (crashed)
    fn raw(&mut self, line: &str) -> Option<String> {
        let w = self.worker.as_mut()?;
        if writeln!(w.stdin, "{line}").is_err() || w.stdin.flush().is_err() {
            self.reap();
            return None;
        }
        let limit = std::env::var("CVH_REQ_TIMEOUT").ok().and_then(|s| s.parse().ok()).unwrap_or(180u64);
        match w.lines.recv_timeout(std::time::Duration::from_secs(limit)) {
            Ok(Some(resp)) => Some(resp.trim_end_matches('\n').to_string()),
            Ok(None) | Err(std::sync::mpsc::RecvTimeoutError::Disconnected) => {
                self.reap();
                None
            }
            Err(std::sync::mpsc::RecvTimeoutError::Timeout) => {
                // the real code did not return: a hang is a failure of the call itself
                let _ = w.child.kill();
                self.reap();
                self.out.oracle_fail(format!("HANG: the implementation did not answer within {limit} s: {}", &line[..line.len().min(200)]));
                None
            }
        }
    }

    fn lk_kill_all(&mut self) {
        for p in self.lk_procs.iter_mut() {
            if let Some((mut c, i, o)) = p.take() { drop(i); drop(o); let _ = c.kill(); let _ = c.wait(); }
        }
        self.lk_procs.clear();
    }

    /// one request to process `p` of the lock-protocol slice (spawned on first use)
    fn lk_ask(&mut self, p: usize, line: &str) -> Option<String> {
        while self.lk_procs.len() <= p { self.lk_procs.push(None); }
        if self.lk_procs[p].is_none() {
            let exe = std::env::current_exe().expect("exe");
            let mut child = Command::new(exe).arg("worker").stdin(Stdio::piped()).stdout(Stdio::piped()).stderr(Stdio::null()).spawn().expect("spawn lk worker");
            let stdin = child.stdin.take().unwrap();
            let stdout = BufReader::new(child.stdout.take().unwrap());
            self.lk_procs[p] = Some((child, stdin, stdout));
            let d = format!("dir {}", self.dir.display());
            let c = self.cfgline.clone();
            self.lk_ask(p, &d)?;
            self.lk_ask(p, &c)?;
        }
        let (_, stdin, stdout) = self.lk_procs[p].as_mut().unwrap();
        if writeln!(stdin, "{line}").is_err() || stdin.flush().is_err() { return None; }
        let mut r = String::new();
        match stdout.read_line(&mut r) { Ok(0) | Err(_) => None, Ok(_) => Some(r.trim_end_matches('\n').to_string()) }
    }

    fn reap(&mut self) {
        if let Some(mut w) = self.worker.take() {
            let _ = w.child.wait();
        }
    }

    /// start a new case: fresh directory, `cfg` line to both sides
    /// `num_ops_per_wal` of the current case
    pub fn n_wal(&self) -> u64 {
        self.cfgline.split(' ').find_map(|t| t.strip_prefix("n=")).and_then(|v| v.parse().ok()).unwrap_or(0)
    }

    pub fn begin_case(&mut self, cfgline: &str) {
        // end the previous session cleanly so that destructors run in the worker
        self.case_no += 1;
        self.out.cases += 1;
        let old = self.dir.clone();
        self.dir = self.work.join(format!("db{}", self.case_no));
        std::fs::create_dir_all(&self.dir).expect("case dir");
        self.cfgline = cfgline.to_string();
        self.staging.clear();
        self.track.clear();
        self.ploss = None;
        self.pending_trace.clear();
        self.lk_kill_all();
        self.out.mark(&format!("case {}", self.case_no));
        if self.worker.is_some() {
            let d = format!("dir {}", self.dir.display());
            let ok = self.raw(&d).is_some() && self.raw(cfgline).is_some();
            if !ok { self.reap(); }
        }
        // the log only ever holds the current case
        let _ = std::fs::OpenOptions::new().write(true).create(true).truncate(true).open(&self.log);
        self.log_off = 0;
        let _ = std::fs::remove_dir_all(old);
        self.out.push(cfgline.to_string(), "ok".to_string());
    }

    /// Run request lines on the REAL code only, in a separate worker on a separate directory
    /// (`<work>/probe`), not recorded for the model: oracle-only probes for situations the model
    /// abstracts (e.g. a kill in the middle of the 65 792 mkdirs of a pre-created tree).
    /// `None` = the worker died at that line (the rest of the lines is sent to a fresh worker on
    /// the same directory).
    pub fn probe_real(&mut self, fresh: bool, lines: &[String]) -> Vec<Option<String>> {
        use std::io::{BufRead, Write as _};
        let dir = self.work.join("probe");
        if fresh { let _ = std::fs::remove_dir_all(&dir); }
        std::fs::create_dir_all(&dir).expect("probe dir");
        let log = self.work.join("probe.log");
        let mut out: Vec<Option<String>> = Vec::new();
        let mut i = 0;
        while i < lines.len() {
            let exe = std::env::current_exe().expect("exe");
            let mut cmd = Command::new(exe);
            cmd.arg("worker").stdin(Stdio::piped()).stdout(Stdio::piped()).stderr(Stdio::null());
            if self.interposed { cmd.env("LD_PRELOAD", so_path()).env("FSIO_LOG", &log); }
            let mut child = cmd.spawn().expect("spawn probe worker");
            let mut stdin = child.stdin.take().unwrap();
            let mut stdout = BufReader::new(child.stdout.take().unwrap());
            let mut ask = |l: &str| -> Option<String> {
                if writeln!(stdin, "{l}").is_err() || stdin.flush().is_err() { return None; }
                let mut r = String::new();
                match stdout.read_line(&mut r) { Ok(0) | Err(_) => None, Ok(_) => Some(r.trim_end_matches('\n').to_string()) }
            };
            let hello = ask(&format!("dir {}", dir.display())).is_some();
            // the first line of `lines` is the cfg line; it is repeated for every fresh worker
            let cfg_ok = hello && ask(&lines[0]).is_some();
            if i == 0 { out.push(if cfg_ok { Some("ok".into()) } else { None }); i = 1; }
            let mut died = !cfg_ok;
            while !died && i < lines.len() {
                let r = ask(&lines[i]);
                died = r.is_none();
                out.push(r);
                i += 1;
            }
            drop(ask);
            drop(stdin);
            let _ = child.wait();
            if !died { break; }
        }
        let _ = std::fs::remove_file(&log);
        out
    }

    pub fn finish(&mut self) {
        self.lk_kill_all();
        if let Some(mut w) = self.worker.take() {
            drop(w.stdin);
            let _ = w.child.wait();
        }
        let _ = std::fs::remove_dir_all(&self.dir);
    }

    fn fid(&mut self, rel: &str) -> String {
        match rel {
            "LOCK" => return "lock".into(),
            "db_settings.json" => return "settings".into(),
            "db_settings.json.tmp" => return "settings.tmp".into(),
            "index" => return "index".into(),
            "index.tmp" => return "index.tmp".into(),
            _ => {}
        }
        if let Some(id) = rel.strip_suffix("_index.wal") {
            if let Ok(n) = id.parse::<u64>() { return format!("seg:{n}"); }
        }
        if let Some(name) = rel.strip_prefix("staging/") {
            let n = self.staging.len() as u64;
            let id = *self.staging.entry(name.to_string()).or_insert(n);
            return format!("staging:{id}");
        }
        if let Some(p) = rel.strip_prefix("cas/") {
            let c: Vec<&str> = p.split('/').collect();
            if c.len() == 3 && c[0].len() == 2 && c[1].len() == 2 && c[2].len() == 60 && c.iter().all(|x| is_hex_lower(x)) {
                return format!("cas:{}{}{}", c[0], c[1], c[2]);
            }
        }
        format!("path:{rel}")
    }

    /// read the new part of the interposer log, update file tracking, return canonical events
    fn take_trace(&mut self) -> Vec<String> {
        let mut ev = Vec::new();
        let Ok(mut f) = std::fs::File::open(&self.log) else { return ev };
        if f.seek(SeekFrom::Start(self.log_off)).is_err() { return ev; }
        let mut s = String::new();
        if f.read_to_string(&mut s).is_err() { return ev; }
        // only whole lines
        let upto = s.rfind('\n').map_or(0, |i| i + 1);
        self.log_off += upto as u64;
        for l in s[..upto].lines() {
            let w: Vec<&str> = l.split(' ').collect();
            match w.as_slice() {
                ["mkdir", p] => ev.push(format!("mkdir {p}")),
                ["creat", p, kind] => {
                    let trunc = matches!(*kind, "trunc" | "excl");
                    if trunc || !self.track.contains_key(*p) { self.track.insert(p.to_string(), (0, 0)); }
                    let f = self.fid(p);
                    ev.push(format!("creat {f} {}", if trunc { "trunc" } else { "plain" }));
                }
                ["write", p, data] => {
                    let bytes = crate::wire::unhx(data);
                    let e = self.track.entry(p.to_string()).or_insert((0, 0));
                    e.0 += bytes.len() as u64;
                    if !p.starts_with("staging/") {
                        let f = self.fid(p);
                        ev.push(format!("write {f} {}:{}", bytes.len(), hx(blake3::hash(&bytes).as_bytes())));
                    }
                }
                ["sync", p] => {
                    if let Some(e) = self.track.get_mut(*p) { e.1 = e.0; }
                    let f = self.fid(p);
                    ev.push(format!("sync {f}"));
                }
                ["rename", a, b] if b.starts_with('/') => {
                    // destination outside the database directory (quarantine): for the store the file is gone
                    self.track.remove(*a);
                    let fa = self.fid(a);
                    ev.push(format!("unlink {fa}"));
                }
                ["rename", a, b] => {
                    if let Some(e) = self.track.remove(*a) { self.track.insert(b.to_string(), e); }
                    let (fa, fb) = (self.fid(a), self.fid(b));
                    ev.push(format!("rename {fa} {fb}"));
                }
                ["unlink", p] => {
                    self.track.remove(*p);
                    let f = self.fid(p);
                    ev.push(format!("unlink {f}"));
                }
                ["flock"] => ev.push("flock".into()),
                _ => {}
            }
        }
        // the 65 792 mkdirs of a pre-created CAS tree are one abstract event in the model
        let mut out: Vec<String> = Vec::with_capacity(ev.len());
        let mut i = 0;
        while i < ev.len() {
            if ev[i].starts_with("mkdir cas/") {
                let mut j = i;
                while j < ev.len() && ev[j].starts_with("mkdir cas/") { j += 1; }
                if j - i >= 1000 { out.push("mkdir-tree".to_string()); } else { out.extend_from_slice(&ev[i..j]); }
                i = j;
            } else {
                out.push(ev[i].clone());
                i += 1;
            }
        }
        out
    }

    fn digest(b: &[u8]) -> String {
        format!("{}:{}", b.len(), hx(blake3::hash(b).as_bytes()))
    }

    pub fn dump(&self) -> String {
        let f = |name: &str| std::fs::read(self.dir.join(name)).map_or("-".to_string(), |b| Self::digest(&b));
        let mut segs: Vec<(u64, String)> = Vec::new();
        if let Ok(rd) = std::fs::read_dir(&self.dir) {
            for e in rd.flatten() {
                let n = e.file_name().to_string_lossy().into_owned();
                if let Some(id) = n.strip_suffix("_index.wal").and_then(|s| s.parse::<u64>().ok()) {
                    segs.push((id, f(&n)));
                }
            }
        }
        segs.sort();
        let mut cas: Vec<String> = Vec::new();
        fn walk(root: &Path, p: &Path, acc: &mut Vec<String>) {
            if let Ok(rd) = std::fs::read_dir(p) {
                for e in rd.flatten() {
                    let path = e.path();
                    if path.is_dir() { walk(root, &path, acc); } else {
                        let rel = path.strip_prefix(root).unwrap().to_string_lossy().into_owned();
                        let c: Vec<&str> = rel.split('/').collect();
                        let b = std::fs::read(&path).unwrap_or_default();
                        let name = if c.len() == 3 && c[0].len() == 2 && c[1].len() == 2 && c[2].len() == 60 && c.iter().all(|x| is_hex_lower(x)) {
                            format!("{}{}{}", c[0], c[1], c[2])
                        } else { format!("path:{rel}") };
                        acc.push(format!("{}:{}", name, Sess::digest(&b)));
                    }
                }
            }
        }
        walk(&self.dir.join("cas"), &self.dir.join("cas"), &mut cas);
        cas.sort();
        let staging = std::fs::read_dir(self.dir.join("staging")).map_or(0, |rd| rd.flatten().filter(|e| e.path().is_file()).count());
        let j = |v: Vec<String>| if v.is_empty() { "_".to_string() } else { v.join(",") };
        format!(
            "index={} segs={} cas={} staging={} settings={} tmp={}{}",
            f("index"),
            j(segs.into_iter().map(|(i, d)| format!("{i}:{d}")).collect()),
            j(cas),
            staging,
            f("db_settings.json"),
            self.dir.join("index.tmp").exists() as u8,
            self.dir.join("db_settings.json.tmp").exists() as u8
        )
    }

    fn apply_power_loss(&mut self, spec: &str) {
        let _ = self.take_trace_silent();
        let want: Vec<&str> = if spec == "all" { vec![] } else { spec.split(',').collect() };
        let paths: Vec<(String, (u64, u64))> = self.track.iter().map(|(k, v)| (k.clone(), *v)).collect();
        for (rel, (len, synced)) in paths {
            let fid = self.fid(&rel);
            if spec == "all" || want.contains(&fid.as_str()) {
                if synced < len {
                    if let Ok(f) = std::fs::OpenOptions::new().write(true).open(self.dir.join(&rel)) {
                        let _ = f.set_len(synced);
                    }
                    self.track.insert(rel, (synced, synced));
                }
            }
        }
        // the machine is back up: what survived IS on the disk, the next power loss cannot take it
        // (`Disk.reboot` = `powerLoss` then `settle` in the model)
        for v in self.track.values_mut() { v.1 = v.0; }
    }

    /// pending trace events, kept for the next `trace` request
    fn take_trace_silent(&mut self) -> Vec<String> {
        let ev = self.take_trace();
        self.pending_trace.extend(ev.iter().cloned());
        ev
    }

    /// execute one protocol line on the real side and record it. Returns the real response.
    pub fn op(&mut self, line: &str) -> String {
        let w: Vec<&str> = line.split(' ').collect();
        let resp = match w.as_slice() {
            ["trace"] => {
                let mut ev = std::mem::take(&mut self.pending_trace);
                ev.extend(self.take_trace());
                if ev.is_empty() { "_".to_string() } else { ev.join(";") }
            }
            ["traceset"] => {
                let mut ev = std::mem::take(&mut self.pending_trace);
                ev.extend(self.take_trace());
                ev.sort();
                if ev.is_empty() { "_".to_string() } else { ev.join(";") }
            }
            ["plant", content] => {
                // write a stray blob file at its canonical CAS path, behind the store's back
                let c = crate::wire::unhx(content);
                let h = blake3::hash(&c).to_hex().to_string();
                let d = self.dir.join("cas").join(&h[0..2]).join(&h[2..4]);
                std::fs::create_dir_all(&d).expect("plant dir");
                std::fs::write(d.join(&h[4..]), &c).expect("plant file");
                "ok".to_string()
            }
            ["snapshot"] => {
                let b = self.work.join("backup");
                let _ = std::fs::remove_dir_all(&b);
                copy_dir(&self.dir, &b);
                "ok".to_string()
            }
            ["restore"] => {
                if let Some(mut w) = self.worker.take() { let _ = writeln!(w.stdin, "exit"); let _ = w.child.wait(); }
                let b = self.work.join("backup");
                let _ = std::fs::remove_dir_all(&self.dir);
                copy_dir(&b, &self.dir);
                "ok".to_string()
            }
            ["damage", f, off, x] => {
                let name = match f.strip_prefix("seg:") { Some(id) => format!("{id}_index.wal"), None => f.to_string() };
                let p = self.dir.join(name);
                match std::fs::read(&p) {
                    Ok(mut b) => { let o: usize = off.parse().unwrap(); if o < b.len() { b[o] ^= x.parse::<u8>().unwrap(); } std::fs::write(&p, b).expect("damage"); "ok".to_string() }
                    Err(_) => "nofile".to_string(),
                }
            }
            ["truncseg", id, len] => {
                let idn: u64 = id.parse().unwrap();
                let p = self.dir.join(format!("{idn}_index.wal"));
                match std::fs::OpenOptions::new().write(true).open(&p) {
                    Ok(f) => {
                        f.set_len(len.parse().unwrap()).expect("truncate");
                        if let Ok(rd) = std::fs::read_dir(&self.dir) {
                            for e in rd.flatten() {
                                let n = e.file_name().to_string_lossy().into_owned();
                                if let Some(j) = n.strip_suffix("_index.wal").and_then(|s| s.parse::<u64>().ok()) { if j > idn { let _ = std::fs::remove_file(e.path()); } }
                            }
                        }
                        "ok".to_string()
                    }
                    Err(_) => "nofile".to_string(),
                }
            }
            ["tracedrop"] => { self.pending_trace.clear(); let _ = self.take_trace(); "ok".to_string() }
            // change the configuration used by later opens (same directory, new worker session)
            ["recfg", rest @ ..] => {
                self.cfgline = format!("cfg {}", rest.join(" "));
                if self.worker.is_some() {
                    let c = self.cfgline.clone();
                    if self.raw(&c).is_none() { self.reap(); }
                }
                "ok".to_string()
            }
            // overwrite db_settings.json behind the store's back (canonical serde_json form)
            ["setsettings", ver, pre, n] => {
                let txt = format!("{{\"version\":{},\"dir_tree_is_pre_created\":{},\"num_ops_per_wal\":{}}}", ver, if *pre == "1" { "true" } else { "false" }, n);
                std::fs::write(self.dir.join("db_settings.json"), txt).expect("write settings");
                "ok".to_string()
            }
            // a SECOND PROCESS tries to open the directory while (or after) this one holds it
            ["open_other"] => {
                let exe = std::env::current_exe().expect("exe");
                let log2 = self.work.join("fsio2.log");
                let _ = std::fs::remove_file(&log2);
                let mut cmd = Command::new(exe);
                cmd.arg("worker").stdin(Stdio::piped()).stdout(Stdio::piped()).stderr(Stdio::null());
                if self.interposed { cmd.env("LD_PRELOAD", so_path()).env("FSIO_LOG", &log2); }
                let mut child = cmd.spawn().expect("spawn second worker");
                let mut stdin = child.stdin.take().unwrap();
                let mut stdout = BufReader::new(child.stdout.take().unwrap());
                let mut ask = |l: &str| -> String {
                    let _ = writeln!(stdin, "{l}");
                    let _ = stdin.flush();
                    let mut r = String::new();
                    let _ = stdout.read_line(&mut r);
                    r.trim_end().to_string()
                };
                ask(&format!("dir {}", self.dir.display()));
                let c = self.cfgline.clone();
                ask(&c);
                let r = ask("open");
                ask("exit");
                let _ = child.wait();
                // what the other process did to the directory (mutating calls)
                let t = std::fs::read_to_string(&log2).unwrap_or_default();
                let evs: Vec<String> = t.lines().filter(|l| !l.starts_with('#')).map(|l| l.split(' ').take(2).collect::<Vec<_>>().join(" ")).collect();
                format!("{} other_events={}", r, if evs.is_empty() { "_".to_string() } else { evs.join(";") })
            }
            // --- planted garbage / damage behind the store's back (C08)
            ["plantpath", path, content] => {
                let comps: Vec<String> = path.split('/').map(|c| String::from_utf8_lossy(&crate::wire::unhx(c)).into_owned()).collect();
                let mut p = self.dir.join("cas");
                for c in &comps { p.push(c); }
                std::fs::create_dir_all(p.parent().unwrap()).expect("plant dir");
                std::fs::write(&p, crate::wire::unhx(content)).expect("plant file");
                "ok".to_string()
            }
            ["rmblob", h] => {
                let p = self.dir.join("cas").join(&h[0..2]).join(&h[2..4]).join(&h[4..]);
                let _ = std::fs::remove_file(p);
                "ok".to_string()
            }
            ["setblob", h, content] => {
                let p = self.dir.join("cas").join(&h[0..2]).join(&h[2..4]).join(&h[4..]);
                std::fs::create_dir_all(p.parent().unwrap()).expect("dir");
                std::fs::write(p, crate::wire::unhx(content)).expect("setblob");
                "ok".to_string()
            }
            ["plantstaging", content] => {
                std::fs::create_dir_all(self.dir.join("staging")).expect("staging dir");
                // numbered at once, like the model does (a later transaction gets the next number)
                let name = format!("planted{}", self.staging.len() + self.planted);
                let id = self.staging.len() as u64;
                self.staging.insert(name.clone(), id);
                std::fs::write(self.dir.join("staging").join(name), crate::wire::unhx(content)).expect("plantstaging");
                "ok".to_string()
            }
            ["dump"] => self.dump(),
            // --- slice c11p: several processes, several calls of `open` each
            ["lk", "reset"] => { self.lk_kill_all(); "ok".to_string() }
            // slice c11sys: one request to process p (a full worker with its own handle)
            ["at", p, "die"] => {
                let p: usize = p.parse().unwrap();
                if let Some(Some((mut c, i, o))) = self.lk_procs.get_mut(p).map(|x| x.take()) { let _ = c.kill(); let _ = c.wait(); drop(i); drop(o); }
                "ok".to_string()
            }
            ["at", p, rest @ ..] => {
                let before = if rest == ["open"] { Some(self.dump()) } else { None };
                let r = self.lk_ask(p.parse().unwrap(), &rest.join(" ")).unwrap_or_else(|| "died".into());
                if let Some(b) = before {
                    if r.starts_with("err alreadyOpened") && self.dump() != b {
                        self.out.oracle_fail(format!("C11: a refused open changed the directory: `{line}`"));
                    }
                }
                r
            }
            ["lk", "open", slot, p, mode] => {
                let before = self.dump();
                let r = self.lk_ask(p.parse().unwrap(), &format!("lk open {slot} {mode}")).unwrap_or_else(|| "died".into());
                if r == "refused" && self.dump() != before {
                    self.out.oracle_fail(format!("C11: a refused open changed the directory: `{line}`"));
                }
                r
            }
            ["lk", "clone", slot, p] => self.lk_ask(p.parse().unwrap(), &format!("lk clone {slot}")).unwrap_or_else(|| "died".into()),
            ["lk", "drop", slot, p, kind] => self.lk_ask(p.parse().unwrap(), &format!("lk drop {slot} {kind}")).unwrap_or_else(|| "died".into()),
            ["lk", "die", p] => {
                let p: usize = p.parse().unwrap();
                if let Some(Some((mut c, i, o))) = self.lk_procs.get_mut(p).map(|x| x.take()) { let _ = c.kill(); let _ = c.wait(); drop(i); drop(o); }
                "ok".to_string()
            }
            ["lk", "live"] => {
                let mut all: Vec<String> = Vec::new();
                for p in 0..self.lk_procs.len() {
                    if self.lk_procs[p].is_some() {
                        if let Some(r) = self.lk_ask(p, "lk live") { all.extend(r.split(',').filter(|x| !x.is_empty()).map(String::from)); }
                    }
                }
                all.sort();
                if all.is_empty() { "-".to_string() } else { all.join(",") }
            }
            ["conc", _policy, progs @ ..] => {
                if self.worker.is_none() { self.spawn(); }
                let r = self.raw(line).unwrap_or_else(|| "sched= crashed".into());
                let (sched, obs) = r.split_once(' ').unwrap_or((&r, ""));
                // the request recorded for the model carries the schedule that was actually run
                let req = format!("conc {} {}", sched, progs.join(" "));
                self.out.push(req, obs.to_string());
                return obs.to_string();
            }
            ["plossnext", k, spec] => {
                if self.worker.is_none() { self.spawn(); }
                self.ploss = Some(spec.to_string());
                self.raw(&format!("crashnext {k}")).unwrap_or_else(|| "crashed".into())
            }
            _ => {
                if self.worker.is_none() { self.spawn(); }
                match self.raw(line) {
                    Some(r) => {
                        if !r.starts_with("armed") { self.ploss = None; }
                        r
                    }
                    None => {
                        if let Some(spec) = self.ploss.take() { self.apply_power_loss(&spec); }
                        "crashed".to_string()
                    }
                }
            }
        };
        self.out.push(line.to_string(), resp.clone());
        resp
    }
}
