//! C19 (settings / format-version gate) and C11 (exclusive ownership) slices.
use crate::rng::Rng;
use crate::sess::Sess;
use crate::wire::hx;

fn populate(s: &mut Sess, rng: &mut Rng) -> Vec<String> {
    let mut lines = Vec::new();
    for i in 0..rng.range(1, 6) {
        let k = vec![b'a' + (i % 3) as u8];
        let l = if rng.chance(1, 5) { format!("remove {}", hx(&k)) } else { format!("put {} ={}", hx(&k), hx(&[b'x' + rng.below(3) as u8])) };
        s.op(&l);
        lines.push(l);
    }
    if rng.chance(1, 3) { s.op("checkpoint"); }
    lines
}

fn snapshot(s: &mut Sess) -> (String, String) {
    (s.op("iter"), s.op("dump"))
}

pub fn c19(s: &mut Sess, rng: &mut Rng, n: u64) {
    let ns = [1u64, 2, 3, 5, 1000, 10_000];
    for i in 0..n {
        if i % 15 == 4 { precreate_crash_probe(s, rng); }
        let n1 = *rng.pick(&ns);
        let pre = i % 20 == 17; // the 65 792-directory tree: rarely
        s.begin_case(&format!("cfg kind=string n={n1} sync=1 pre={}", pre as u8));
        if !s.op("open").starts_with("ok") { s.out.oracle_fail("C19: first open failed".into()); continue; }
        // the creating open's calls, in order (tree before the settings file that records it)
        s.op("trace");
        populate(s, rng);
        let (iter0, _) = snapshot(s);
        s.op("close");
        s.op("trace");
        let before = s.op("dump");
        // wrong num_ops_per_wal
        let n2 = *rng.pick(&ns);
        s.op(&format!("recfg kind=string n={n2} sync=1 pre={}", rng.below(2)));
        let r = s.op("open");
        s.out.count(if n1 == n2 { "c19.same-n" } else { "c19.other-n" });
        if n1 != n2 {
            if r != "err validation" { s.out.oracle_fail(format!("C19: reopening a store created with n={n1} using n={n2} returned `{r}`")); }
            let t = s.op("trace");
            if t.split(';').any(|e| !(e.starts_with("creat lock") || e == "flock" || e == "_")) {
                s.out.oracle_fail(format!("C19: the rejected open modified the directory: {t}"));
            }
            let after = s.op("dump");
            if after != before { s.out.oracle_fail(format!("C19: directory changed across a rejected open: {before} → {after}")); }
        } else if r.starts_with("ok") {
            // a legal reopen (possibly with the other pre-create flag): the store must work as before
            if s.op("put 79 =7979") != "ok" { s.out.oracle_fail("C19: put after a legal reopen with another pre_create_cas_dirs flag failed".into()); }
            s.op("get 79");
            s.op("remove 79");
            s.op("close"); s.op("trace");
        }
        // wrong format version
        let ver = *rng.pick(&[0u64, 3, 5, 4_294_967_295, 4]);
        s.op(&format!("setsettings {ver} {} {n1}", pre as u8));
        s.op(&format!("recfg kind=string n={n1} sync=1 pre=0"));
        let before = s.op("dump");
        let r = s.op("open");
        s.out.count(if ver == 4 { "c19.version-ok" } else { "c19.version-bad" });
        if ver != 4 {
            if r != "err unsupportedVersion" { s.out.oracle_fail(format!("C19: stored version {ver} accepted: `{r}`")); }
            let t = s.op("trace");
            if t.split(';').any(|e| !(e.starts_with("creat lock") || e == "flock" || e == "_")) {
                s.out.oracle_fail(format!("C19: the rejected open modified the directory: {t}"));
            }
            if s.op("dump") != before { s.out.oracle_fail("C19: directory changed across a version-rejected open".into()); }
            s.op(&format!("setsettings 4 {} {n1}", pre as u8));
            let r = s.op("open");
            if !r.starts_with("ok") { s.out.oracle_fail(format!("C19: correct reopen failed: {r}")); continue; }
        } else if !r.starts_with("ok") { s.out.oracle_fail(format!("C19: correct reopen failed: {r}")); continue; }
        // the data is unchanged
        let iter1 = s.op("iter");
        if iter1 != iter0 { s.out.oracle_fail(format!("C19: contents changed: {iter0} → {iter1}")); }
        s.op("stats"); s.op("blobs");
        s.op("put 7a =7a7a");
        s.op("get 7a");
        s.op("close");
        s.op("trace");
        s.op("dump");
    }
}

pub fn c11(s: &mut Sess, rng: &mut Rng, n: u64) {
    for i in 0..n {
        s.begin_case(&format!("cfg kind=bytes n={} sync=1 pre=0", *rng.pick(&[2u64, 10_000])));
        match i % 4 {
            0 => {
                // racing opens from threads on a fresh or populated directory
                if rng.chance(1, 2) { s.op("open"); populate(s, rng); s.op("close"); }
                s.op("tracedrop");
                let k = rng.range(2, 6);
                let r = s.op(&format!("race_open {k}"));
                if r != "winners=1 losers_already_opened=true" { s.out.oracle_fail(format!("C11: {k} racing opens: {r}")); }
                s.op("tracedrop");
                s.out.count("c11.race-threads");
            }
            _ => {
                if !s.op("open").starts_with("ok") { continue; }
                populate(s, rng);
                s.op("trace");
            }
        }
        let before = s.op("dump");
        // a clone of the handle comes and goes (a worker thread that finishes): the directory stays locked
        if rng.chance(1, 2) { s.op("clonedrop"); s.out.count("c11.clone-dropped"); }
        // second handle in the same process
        let r = s.op("open2");
        if r != "err alreadyOpened" { s.out.oracle_fail(format!("C11: a second handle was granted: {r}")); }
        let t = s.op("trace");
        if t != "creat lock trunc" { s.out.oracle_fail(format!("C11: the losing open touched the directory: {t}")); }
        // second process
        let r = s.op("open_other");
        if !r.starts_with("err alreadyOpened") { s.out.oracle_fail(format!("C11: another process was granted the directory: {r}")); }
        if r.split("other_events=").nth(1).is_some_and(|e| e.split(';').any(|x| x != "creat LOCK" && x != "_")) {
            s.out.oracle_fail(format!("C11: the losing process modified the directory: {r}"));
        }
        s.op("tracedrop");
        if s.op("dump") != before { s.out.oracle_fail("C11: directory changed by losing opens".into()); }
        s.out.count("c11.second-handle+process");
        // owner gone in different ways
        match rng.below(3) {
            0 => { s.op("close"); s.out.count("c11.owner-dropped"); }
            1 => { s.op("exit"); s.out.count("c11.owner-killed"); }
            _ => {
                // the OrphanStats still owns the handle: the lock must still be held
                s.op("close_keep_stats");
                let r = s.op("open2");
                if r != "err alreadyOpened" { s.out.oracle_fail(format!("C11: lock released while OrphanStats keeps the handle alive: {r}")); }
                s.op("dropstats");
                s.out.count("c11.owner-kept-by-stats");
            }
        }
        s.op("tracedrop");
        let r = s.op("open");
        if !r.starts_with("ok") { s.out.oracle_fail(format!("C11: open after the owner is gone failed: {r}")); }
        s.op("iter");
        s.op("close");
        s.op("tracedrop");
    }
}


/// C19 / C03, oracle-only probe on the real code: kill the FIRST open of a database with
/// `pre_create_cas_dirs = true` somewhere inside the creation of the directory tree, then open
/// again (same flag, then the other flag): the store must be fully usable — every put must find
/// its directory — whatever the settings file and the half-made tree say.
pub fn precreate_crash_probe(s: &mut Sess, rng: &mut Rng) {
    let k = match rng.below(4) { 0 => rng.range(4, 40), 1 => rng.range(200, 300), 2 => rng.range(1_000, 60_000), _ => rng.range(65_700, 65_800) };
    let mut lines: Vec<String> = vec!["cfg kind=bytes n=5 sync=1 pre=1".into(), format!("crashnext {k}"), "open".into()];
    lines.push("open".into());
    let contents: Vec<Vec<u8>> = (0..10u8).map(|i| vec![b'p', i, rng.below(256) as u8, rng.below(256) as u8]).collect();
    for (i, c) in contents.iter().enumerate() { lines.push(format!("put {} ={}", hx(&[b'k', i as u8]), hx(c))); }
    for i in 0..contents.len() { lines.push(format!("get {}", hx(&[b'k', i as u8]))); }
    lines.push("close".into());
    let ctx = format!(" [real-only probe, replay by sending these lines to `cvh worker` under LD_PRELOAD=interpose/fsio.so on an empty directory: {}]", lines.join(" | "));
    let r = s.probe_real(true, &lines);
    s.out.count("c19.precreate-crash-probe");
    // lines: 0 cfg, 1 crashnext, 2 open (dies or completes), 3 open, 4.. puts, gets, close
    let died = r.get(2).map_or(true, |x| x.is_none());
    s.out.count(if died { "c19.probe.killed-inside-creation" } else { "c19.probe.creation-completed" });
    let reopen = r.get(3).cloned().flatten().unwrap_or_default();
    // (if the first open completed, the second `open` is answered `already-open-in-worker`)
    if died && !reopen.starts_with("ok") { s.out.oracle_fail(format!("C19: open after a kill at call {k} of a pre-creating first open failed: `{reopen}`{ctx}")); return; }
    for (i, c) in contents.iter().enumerate() {
        let p = r.get(4 + i).cloned().flatten().unwrap_or_else(|| "died".into());
        if p != "ok" { s.out.oracle_fail(format!("C19: after a kill at call {k} of a pre-creating first open and a reopen, put #{i} returned `{p}` (the recovered store must be fully usable){ctx}")); return; }
        let g = r.get(4 + contents.len() + i).cloned().flatten().unwrap_or_else(|| "died".into());
        let want = format!("found {} {}", c.len(), hx(blake3::hash(c).as_bytes()));
        if g != want { s.out.oracle_fail(format!("C19: after a kill at call {k} of a pre-creating first open, get #{i} returned `{g}`, expected `{want}`{ctx}")); return; }
    }
    // the other flag on the next open: the stored choice wins, puts still work
    let mut lines2: Vec<String> = vec!["cfg kind=bytes n=5 sync=1 pre=0".into(), "open".into()];
    for i in 0..4u8 { lines2.push(format!("put {} ={}", hx(&[b'q', i]), hx(&[b'z', i, rng.below(256) as u8]))); }
    lines2.push("close".into());
    let r2 = s.probe_real(false, &lines2);
    for (i, x) in r2.iter().enumerate().skip(1) {
        let v = x.clone().unwrap_or_else(|| "died".into());
        if !(v.starts_with("ok")) { s.out.oracle_fail(format!("C19: after the interrupted pre-creation, line `{}` with the other flag returned `{v}`{ctx}", lines2[i])); return; }
    }
}

/// C08: scan exactness on arbitrary planted garbage / damage, then clean-up.
pub fn c08(s: &mut Sess, rng: &mut Rng, n: u64) {
    use std::collections::BTreeSet;
    for _ in 0..n {
        let verify = rng.chance(1, 2);
        // a quarter of the cases run with fail_on_integrity_errors and reopen through `Cas::open`:
        // its gate must reject exactly the stores with a missing or corrupted referenced blob
        let gate_case = rng.chance(1, 4);
        s.begin_case(&format!("cfg kind=bytes n={} sync=1 pre=0 verify={} fail={}", *rng.pick(&[2u64, 10_000]), verify as u8, gate_case as u8));
        if !s.op("open").starts_with("ok") { continue; }
        // a few keys over few contents
        let contents: [&[u8]; 4] = [b"X", b"", b"ZZZ", b"hello"];
        let mut map: std::collections::BTreeMap<Vec<u8>, Vec<u8>> = Default::default();
        for i in 0..rng.range(1, 4) {
            let k = vec![b'a' + i as u8];
            let c = contents[rng.below(3) as usize];
            s.op(&format!("put {} ={}", hx(&k), hx(c)));
            map.insert(k, c.to_vec());
        }
        // one case in four also holds a LARGE referenced blob (verification hashes it differently
        // above some size: an intact one must not be reported, whatever its size)
        if rng.chance(1, 4) {
            let len = *rng.pick(&[131_072u64, 131_073, 262_145, 1_048_577]);
            let spec = format!("~3:{len}");
            s.op(&format!("put {} {}", hx(b"z"), spec));
            map.insert(b"z".to_vec(), crate::worker::chunk_bytes(&spec));
            s.out.count("c08.large-referenced-blob");
        }
        s.op("close");
        s.op("tracedrop");
        let refd: BTreeSet<String> = map.values().map(|c| blake3::hash(c).to_hex().to_string()).collect();
        let size_of = |h: &str| map.values().find(|c| blake3::hash(c).to_hex().as_str() == h).map(|c| c.len());
        // expectations
        let mut exp_orph: BTreeSet<String> = BTreeSet::new();
        let mut exp_missing: BTreeSet<String> = BTreeSet::new();
        let mut exp_corrupt: BTreeSet<String> = BTreeSet::new();
        let mut exp_invalid: BTreeSet<String> = BTreeSet::new();
        let mut exp_staging = 0;
        let hexc = |s: &str| hx(s.as_bytes());
        for _ in 0..rng.range(1, 5) {
            match rng.below(12) {
                0 | 11 => { // orphan blob at its canonical path — intact, or (11) TORN: an unreferenced
                    // leftover whose bytes do not hash to its name (what an Async-mode power loss leaves);
                    // the scan lists it as an orphan all the same, and a later put of that content
                    // must replace it
                    let c = contents[3];
                    let h = blake3::hash(c).to_hex().to_string();
                    if refd.contains(&h) || exp_orph.contains(&h) { continue; }
                    let torn = rng.chance(1, 2);
                    let bytes: &[u8] = if torn { &c[..2] } else { c };
                    s.op(&format!("plantpath {}/{}/{} {}", hexc(&h[0..2]), hexc(&h[2..4]), hexc(&h[4..]), hx(bytes)));
                    exp_orph.insert(h);
                    s.out.count(if torn { "c08.orphan-torn" } else { "c08.orphan" });
                }
                1 => { // stray at depth 1 / 2
                    let p = if rng.chance(1, 2) { "junk".to_string() } else { "ab/junk".to_string() };
                    s.op(&format!("plantpath {} {}", p.split('/').map(hexc).collect::<Vec<_>>().join("/"), hx(b"j")));
                    exp_invalid.insert(format!("cas/{p}"));
                    s.out.count("c08.stray-shallow");
                }
                2 => { // depth 3, non-hex or wrong length
                    let names = ["zz".to_string(), "0123".to_string(), "g".repeat(60), "a".repeat(59), "a".repeat(61)];
                    let name = names[rng.below(names.len() as u64) as usize].clone();
                    let p = format!("ab/cd/{name}");
                    s.op(&format!("plantpath {} {}", p.split('/').map(hexc).collect::<Vec<_>>().join("/"), hx(b"j")));
                    exp_invalid.insert(format!("cas/{p}"));
                    s.out.count("c08.stray-depth3");
                }
                3 | 4 => { // non-canonical but hex-decodable spelling of a REFERENCED hash, real blob removed
                    let Some(h) = refd.iter().next().cloned() else { continue };
                    if exp_missing.contains(&h) || exp_corrupt.contains(&h) { continue; }
                    let p = if rng.chance(1, 2) { format!("{}/{}/{}", &h[0..4], &h[4..6], &h[6..]) } else { format!("{}/{}/{}", h[0..2].to_uppercase(), &h[2..4], &h[4..]) };
                    if p == format!("{}/{}/{}", &h[0..2], &h[2..4], &h[4..]) { continue; } // upper-casing digits only
                    s.op(&format!("plantpath {} {}", p.split('/').map(hexc).collect::<Vec<_>>().join("/"), hx(b"X")));
                    s.op(&format!("rmblob {h}"));
                    exp_invalid.insert(format!("cas/{p}"));
                    exp_missing.insert(h);
                    s.out.count("c08.noncanonical-masks-missing");
                }
                5 => { // referenced blob simply missing
                    let Some(h) = refd.iter().last().cloned() else { continue };
                    if exp_corrupt.contains(&h) { continue; }
                    s.op(&format!("rmblob {h}"));
                    exp_missing.insert(h);
                    s.out.count("c08.missing");
                }
                6 | 7 => { // referenced blob truncated / altered / wrong size
                    let Some(h) = refd.iter().nth(rng.below(refd.len() as u64) as usize).cloned() else { continue };
                    if exp_missing.contains(&h) { continue; }
                    let sz = size_of(&h).unwrap_or(0);
                    // (an empty blob has only one way to be damaged: gaining bytes)
                    let newc: Vec<u8> = if sz == 0 { vec![b'!'; rng.range(1, 3) as usize] } else { match rng.below(3) { 0 => vec![], 1 => vec![b'!'; sz], _ => vec![b'!'; sz + 1] } };
                    s.op(&format!("setblob {h} {}", hx(&newc)));
                    if verify { exp_corrupt.insert(h); }
                    s.out.count("c08.corrupt");
                }
                8 => { s.op(&format!("plantstaging {}", hx(b"leftover"))); exp_staging += 1; s.out.count("c08.staging"); }
                9 => { // upper-case orphan: not canonical ⇒ invalid
                    let c = contents[3];
                    let h = blake3::hash(c).to_hex().to_string();
                    let up = h[4..].to_uppercase();
                    if up == h[4..] { continue; }
                    let p = format!("{}/{}/{}", &h[0..2], &h[2..4], up);
                    s.op(&format!("plantpath {} {}", p.split('/').map(hexc).collect::<Vec<_>>().join("/"), hx(c)));
                    exp_invalid.insert(format!("cas/{p}"));
                    s.out.count("c08.uppercase");
                }
                _ => {}
            }
        }
        if gate_case {
            let r = s.op("openplain");
            let want = if exp_missing.is_empty() && exp_corrupt.is_empty() { "ok plain".to_string() } else { format!("err integrity {} {}", exp_missing.len(), exp_corrupt.len()) };
            if r != want { s.out.oracle_fail(format!("C08: Cas::open with fail_on_integrity_errors returned `{r}`, the planted damage demands `{want}`")); }
            s.out.count(if want.starts_with("ok") { "c08.gate-passes" } else { "c08.gate-rejects" });
            if r.starts_with("ok") { s.op("close"); }
            s.op("tracedrop");
            continue;
        }
        let r = s.op("open");
        if !r.starts_with("ok") { s.out.oracle_fail(format!("C08: open (fail_on_integrity_errors=false) returned {r}")); continue; }
        let o = s.op("orphans");
        let j = |v: &BTreeSet<String>| if v.is_empty() { "_".to_string() } else { v.iter().cloned().collect::<Vec<_>>().join(",") };
        let total = {
            let present_refd = refd.iter().filter(|h| !exp_missing.contains(*h)).count();
            present_refd + exp_orph.len()
        };
        let want = format!("orphaned={} missing={} corrupted={} invalid={} staging={} total={}", j(&exp_orph), j(&exp_missing), j(&exp_corrupt), j(&exp_invalid), exp_staging, total);
        if o != want { s.out.oracle_fail(format!("C08: scan reported `{o}`, an independent directory/index comparison gives `{want}`")); }
        // clean-up: removes exactly the reported garbage, never a referenced blob
        let before = s.op("dump");
        let mode = if exp_orph.is_empty() { rng.below(5) } else { *rng.pick(&[0u64, 1, 2, 3, 3, 3, 4]) };
        if mode == 3 && !exp_orph.is_empty() {
            // an orphan found by the scan becomes referenced before the clean-up runs: a put of the
            // same content after the scan; every clean-up entry point must now leave it alone
            let c = contents[3];
            let h = blake3::hash(c).to_hex().to_string();
            if exp_orph.contains(&h) {
                let r = s.op(&format!("put {} ={}", hx(b"zz"), hx(c)));
                if r == "ok" {
                    let r = s.op(&format!("delete_orphan {h}"));
                    if r != "false" { s.out.oracle_fail(format!("C08: delete_orphan of a blob referenced since the scan returned {r}")); }
                    let r = s.op("quarantine");
                    if !r.contains("errors=0") { s.out.oracle_fail(format!("C08: quarantine_orphans: {r}")); }
                    let g = s.op(&format!("get {}", hx(b"zz")));
                    if !g.starts_with("found") { s.out.oracle_fail(format!("C08: a blob referenced since the scan was removed by the clean-up: get returned {g}")); }
                    // C06: whatever lay at the blob's path before (an intact or a torn leftover), the
                    // acknowledged put reads back exactly its content
                    let wantg = format!("found {} {}", c.len(), h);
                    if g != wantg { s.out.oracle_fail(format!("C06: after a put over a leftover file at the blob's path `get` returned `{g}`, the content put is `{wantg}`")); }
                    exp_orph.remove(&h);
                    s.out.count("c08.orphan_becomes_referenced");
                }
            }
        }
        if mode == 1 {
            // one blob at a time: every listed orphan, plus hashes that are not orphans (must be refused)
            let order = s.op("orphan_order");
            for h in refd.iter().take(2) {
                let r = s.op(&format!("delete_orphan {h}"));
                if r != "false" { s.out.oracle_fail(format!("C08: delete_orphan of referenced {h} returned {r}")); }
            }
            if order != "_" && order != "nostats" {
                for h in order.split(',') {
                    let r = s.op(&format!("delete_orphan {h}"));
                    if r != "true" { s.out.oracle_fail(format!("C08: delete_orphan {h} returned {r}")); }
                    let r2 = s.op(&format!("delete_orphan {h}"));
                    if r2 != "false" { s.out.oracle_fail(format!("C08: second delete_orphan {h} returned {r2}")); }
                }
            }
            s.out.count("c08.delete_orphan_each");
        } else if mode == 2 {
            let r = s.op("quarantine");
            if !r.contains("errors=0") || !r.contains(&format!("quarantined={}", exp_orph.len())) { s.out.oracle_fail(format!("C08: quarantine_orphans: {r}, expected {} blobs", exp_orph.len())); }
            s.out.count("c08.quarantine");
        }
        // (after a partial clean-up the full one removes what is left: strays, staging files)
        let r = s.op("delete_orphans");
        if !r.contains("errors=0") { s.out.oracle_fail(format!("C08: delete_orphans: {r}")); }
        s.op("traceset");
        let after = s.op("dump");
        let cas_of = |d: &str| -> BTreeSet<String> { let c = d.split(' ').find_map(|f| f.strip_prefix("cas=")).unwrap_or("_"); if c == "_" { BTreeSet::new() } else { c.split(',').map(|e| e.split(':').next().unwrap().to_string()).collect() } };
        let (b, a) = (cas_of(&before), cas_of(&after));
        let want_after: BTreeSet<String> = b.iter().filter(|n| !n.starts_with("path") && !exp_orph.contains(*n)).cloned().collect();
        if a != want_after { s.out.oracle_fail(format!("C08: after clean-up cas/ holds {a:?}, expected {want_after:?}")); }
        if !after.contains("staging=0") { s.out.oracle_fail("C08: staging files survive clean-up".into()); }
        s.op("iter");
        s.op("close");
        s.op("tracedrop");
    }
}

/// C10, oracle-only probe on the real code: a log with TWO uncheckpointed segments (the roll-over
/// checkpoint's snapshot write failed, so the sealed segment was not pruned), one byte changed in
/// the LAST record of the sealed, non-final segment: open must fail or show exactly the state
/// before that record — in particular it must not go on to the later segment.
pub fn multi_segment_damage_probe(s: &mut Sess, rng: &mut Rng) {
    let cfg = "cfg kind=bytes n=3 sync=1 pre=0".to_string();
    let keys = [b"a", b"b", b"c", b"d"];
    let mut lines = vec![cfg.clone(), "open".to_string()];
    for k in &keys[..3] { lines.push(format!("put {} ={}", hx(*k), hx(&[b'p' + rng.below(5) as u8; 4]))); }
    lines.push("blockindextmp".into());
    lines.push(format!("put {} ={}", hx(keys[3]), hx(b"late")));
    lines.push("unblockindextmp".into());
    lines.push("iter".into());
    lines.push("close".into());
    let ctx = lines.join(" ; ");
    let r = s.probe_real(true, &lines);
    s.out.cases += 1;
    if r.iter().any(|x| x.is_none()) { s.out.oracle_fail(format!("C10 probe: the worker died [{ctx}]")); return; }
    let dir = s.work.join("probe");
    let (Ok(seg0), Ok(_seg1)) = (std::fs::read(dir.join("0_index.wal")), std::fs::read(dir.join("1_index.wal"))) else {
        // the failed snapshot did not leave two segments behind (the layout this probe is about): nothing to judge
        s.out.count("c10probe.no-two-segments"); return;
    };
    // records of segment 0
    let mut recs: Vec<(usize, usize, u64)> = Vec::new(); // (start, end, version)
    let mut off = 0usize;
    while off + 44 <= seg0.len() {
        let ver = u64::from_le_bytes(seg0[off..off + 8].try_into().unwrap());
        let len = u32::from_le_bytes(seg0[off + 40..off + 44].try_into().unwrap()) as usize;
        if ver == 0 || len == 0 || off + 44 + len > seg0.len() { break; }
        recs.push((off, off + 44 + len, ver));
        off += 44 + len;
    }
    let Some(&(start, end, ver)) = recs.last() else { s.out.count("c10probe.no-records"); return; };
    // the state before that record: the first ver-1 puts
    let iter_all = r[r.len() - 2].clone().unwrap_or_default();
    let before: Vec<&str> = iter_all.split(';').filter(|e| {
        let k = e.split(':').next().unwrap_or("");
        keys[..(ver as usize - 1).min(3)].iter().any(|x| hx(*x) == k)
    }).collect();
    let want = if before.is_empty() { "_".to_string() } else { before.join(";") };
    for _ in 0..6 {
        let o = start + 8 + rng.below((end - start - 8) as u64) as usize;
        if (start + 40..start + 44).contains(&o) { continue; } // the length field is not payload/checksum
        let mut b = seg0.clone();
        b[o] ^= 1u8 << rng.below(8);
        std::fs::write(dir.join("0_index.wal"), &b).expect("damage");
        let r2 = s.probe_real(false, &[cfg.clone(), "open".into(), "iter".into(), "close".into()]);
        match (r2.get(1).cloned().flatten(), r2.get(2).cloned().flatten()) {
            (Some(o1), Some(it)) if o1.starts_with("ok") => {
                if it != want { s.out.oracle_fail(format!("C10: two uncheckpointed segments, byte {o} of the last record (version {ver}) of the sealed segment 0 changed: open succeeded with `{it}`; the state after the longest undamaged prefix is `{want}` [{ctx}]")); }
                s.out.count("c10probe.accepted-as-prefix");
            }
            (Some(o1), _) if o1.starts_with("err") => s.out.count("c10probe.rejected"),
            other => s.out.oracle_fail(format!("C10 probe: open on the damaged two-segment log → {other:?} [{ctx}]")),
        }
        std::fs::write(dir.join("0_index.wal"), &seg0).expect("restore");
    }
    s.out.count("c10probe.two-uncheckpointed-segments");
}

/// C10 at log level: real stores (snapshot + several segments), every/sampled truncation offset
/// and single-byte change in the checksum/payload of every UNCHECKPOINTED record, through Cas::open.
pub fn c10log(s: &mut Sess, rng: &mut Rng, n: u64, thorough: bool) {
    for i in 0..n {
        if i % 10 == 3 { multi_segment_damage_probe(s, rng); }
        let n_wal = *rng.pick(&[2u64, 3, 5, 10_000]);
        s.begin_case(&format!("cfg kind=bytes n={n_wal} sync=1 pre=0"));
        if !s.op("open").starts_with("ok") { continue; }
        let mut states: Vec<String> = vec![s.op("iter")];
        // the state after the operations with versions < v, for every v ("the state after the longest
        // undamaged prefix" of a log whose first damaged record has version v)
        let mut at: std::collections::BTreeMap<u64, String> = Default::default();
        let next_of = |s: &mut Sess| -> u64 { s.op("mem").split(' ').find_map(|f| f.strip_prefix("next=")).and_then(|x| x.parse().ok()).unwrap_or(0) };
        at.insert(next_of(s), states[0].clone());
        let mut step = |s: &mut Sess, l: String, states: &mut Vec<String>| {
            s.op(&l);
            let it = s.op("iter");
            let nv = s.op("mem").split(' ').find_map(|f| f.strip_prefix("next=")).and_then(|x| x.parse::<u64>().ok()).unwrap_or(0);
            at.insert(nv, it.clone());
            states.push(it);
        };
        for i in 0..rng.range(1, 4) { step(s, format!("put {} ={}", hx(&[b'a' + (i % 3) as u8]), hx(&[b'x' + rng.below(3) as u8; 3])), &mut states); }
        // make a snapshot exist (explicit checkpoint, or restart which checkpoints after replay) — or not
        match rng.below(3) { 0 => { s.op("checkpoint"); } 1 => { s.op("close"); s.op("open"); } _ => {} }
        // a long record among the uncheckpointed ones: payload = key + 45 bytes — exactly 64 KiB, 128 KiB,
        // one more, one less, or just past the 8 KiB buffer
        if i % 5 == 2 {
            let len = *rng.pick(&[65_491usize, 65_490, 65_492, 131_027, 8_200]);
            step(s, format!("put {} =4c", hx(&vec![b'k'; len])), &mut states);
        }
        for i in 0..rng.range(1, 5) {
            let k = [b'a' + rng.below(3) as u8];
            let l = if rng.chance(1, 4) { format!("remove {}", hx(&k)) } else { format!("put {} ={}", hx(&k), hx(&vec![b'p' + (i % 5) as u8; 1 + rng.below(6) as usize])) };
            step(s, l.clone(), &mut states);
            // an unchanged re-put: two byte-identical operations back to back in the log
            if l.starts_with("put") && rng.chance(1, 3) { step(s, l, &mut states); }
        }
        s.op("close");
        s.op("tracedrop");
        s.op("snapshot");
        // locate the uncheckpointed records in the real segment files
        let snap_ver = std::fs::read(s.dir.join("index")).ok().filter(|b| b.len() >= 8).map_or(0, |b| u64::from_le_bytes(b[..8].try_into().unwrap()));
        let mut segs: Vec<(u64, Vec<u8>)> = Vec::new();
        if let Ok(rd) = std::fs::read_dir(&s.dir) {
            for e in rd.flatten() {
                let nme = e.file_name().to_string_lossy().into_owned();
                if let Some(id) = nme.strip_suffix("_index.wal").and_then(|x| x.parse::<u64>().ok()) { segs.push((id, std::fs::read(e.path()).unwrap_or_default())); }
            }
        }
        segs.sort();
        let mut targets: Vec<(u64, usize, u64)> = Vec::new(); // (segment, byte offset, version) inside checksum/payload of uncheckpointed records
        let mut recs: Vec<(u64, usize, u64)> = Vec::new();    // (segment, end offset, version) of every complete record
        for (id, bytes) in &segs {
            let mut off = 0usize;
            while off + 44 <= bytes.len() {
                let ver = u64::from_le_bytes(bytes[off..off + 8].try_into().unwrap());
                let len = u32::from_le_bytes(bytes[off + 40..off + 44].try_into().unwrap()) as usize;
                if ver == 0 || len == 0 || off + 44 + len > bytes.len() { break; }
                if ver > snap_ver { for o in off + 8..off + 40 { targets.push((*id, o, ver)); } for o in off + 44..off + 44 + len { targets.push((*id, o, ver)); } }
                off += 44 + len;
                recs.push((*id, off, ver));
            }
        }
        s.out.add("c10log.damageable-bytes", targets.len() as u64);
        // every byte when that is affordable, a sample otherwise (a long record has tens of thousands)
        let picks: Vec<(u64, usize, u64)> = if targets.len() <= 24 || (thorough && targets.len() <= 800) { targets.clone() }
            else { (0..if thorough { 120 } else { 24 }).map(|_| targets[rng.below(targets.len() as u64) as usize]).collect() };
        // `first_bad` = version of the first record that is damaged or missing: a successful open
        // must show EXACTLY the state after the operations below that version
        let mut judge = |s: &mut Sess, what: String, first_bad: u64| {
            let r = s.op("open");
            if r.starts_with("ok") {
                let got = s.op("iter");
                match at.get(&first_bad) {
                    Some(want) if *want != got => s.out.oracle_fail(format!("C10: {what}: open succeeded with `{got}`; the state after the longest undamaged prefix (operations below version {first_bad}) is `{want}`")),
                    Some(_) => {}
                    None => if !states.contains(&got) { s.out.oracle_fail(format!("C10: {what}: open succeeded with `{got}`, which is not the state after any prefix of the logged operations")); }
                }
                s.out.count("c10log.accepted-as-prefix");
                s.op("close");
            } else if r.starts_with("err") { s.out.count("c10log.rejected"); }
            else { s.out.oracle_fail(format!("C10: {what}: open → `{r}`")); }
            s.op("tracedrop");
            s.op("restore");
        };
        for (id, off, ver) in picks {
            s.op(&format!("damage seg:{id} {off} {}", 1u8 << rng.below(8)));
            judge(s, format!("byte {off} of segment {id} (record of version {ver}) changed"), ver);
        }
        // truncation of the log at an offset of some segment (later segments absent)
        for _ in 0..(if thorough { 40 } else { 8 }) {
            if segs.is_empty() { break; }
            let (id, bytes) = &segs[rng.below(segs.len() as u64) as usize];
            if bytes.is_empty() { continue; }
            let cut = rng.below(bytes.len() as u64);
            // the last record that is still complete: in an earlier segment, or in this one before the cut
            let last_ok = recs.iter().filter(|(i, end, _)| *i < *id || (*i == *id && *end as u64 <= cut)).map(|r| r.2).max().unwrap_or(0).max(snap_ver);
            s.op(&format!("truncseg {id} {cut}"));
            judge(s, format!("log cut at byte {cut} of segment {id}"), last_ok + 1);
        }
    }
}


/// C11 at protocol level: up to three PROCESSES, each making several independent calls of `open`
/// on one directory, cloning and dropping handles and statistics, and dying (SIGKILL). The model
/// (`CasModel/Lock.lean`, proved in `Props/C11Proto.lean`) answers every line; on top, straight
/// from the property: never two live handles, a refused open changes nothing, an open that fails
/// after taking the lock gives it back, and when nobody owns the directory the next open succeeds.
pub fn c11p(s: &mut Sess, rng: &mut Rng, n: u64) {
    for _ in 0..n {
        s.begin_case(&format!("cfg kind=bytes n={} sync=1 pre=0", *rng.pick(&[3u64, 10_000])));
        s.op("lk reset");
        // the owner as the harness sees it: name, process, clones of the handle, statistics alive
        let mut live: Option<(String, usize, usize, bool)> = None;
        let mut next_slot = 0u32;
        let mut created = false;
        let steps = rng.range(8, 20);
        for _ in 0..steps {
            let roll = rng.below(10);
            let can_clone = live.as_ref().is_some_and(|l| l.2 > 0);
            if roll < 5 || live.is_none() || (roll < 7 && !can_clone) {
                // a call of `open` from some process
                let p = rng.below(3) as usize;
                let mode = if !created { *rng.pick(&["good0", "good1"]) } else { *rng.pick(&["good0", "good1", "good1", "bad"]) };
                let slot = format!("h{next_slot}"); next_slot += 1;
                let r = s.op(&format!("lk open {slot} {p} {mode}"));
                match (&live, r.as_str()) {
                    (None, "granted") if mode != "bad" => { live = Some((slot, p, 1, mode == "good1")); created = true; s.out.count("c11p.granted"); }
                    (None, "failed") if mode == "bad" => { s.out.count("c11p.failed-after-lock"); }
                    (None, _) => s.out.oracle_fail(format!("C11: nobody owns the directory, yet `lk open {slot} {p} {mode}` answered `{r}`")),
                    (Some(_), "refused") => { s.out.count("c11p.refused"); }
                    (Some(l), _) => s.out.oracle_fail(format!("C11: `{}` owns the directory, yet `lk open {slot} {p} {mode}` answered `{r}`", l.0)),
                }
            } else if roll < 7 {
                let (slot, p, cl, st) = live.clone().unwrap();
                let r = s.op(&format!("lk clone {slot} {p}"));
                if r != format!("refs={}", cl + 1 + st as usize) { s.out.oracle_fail(format!("C11: clone of `{slot}` answered `{r}`")); }
                live = Some((slot, p, cl + 1, st));
                s.out.count("c11p.clone");
            } else if roll < 9 {
                let (slot, p, mut cl, mut st) = live.clone().unwrap();
                let kind = *rng.pick(&["c", "s"]);
                let r = s.op(&format!("lk drop {slot} {p} {kind}"));
                if (kind == "s" && st) || cl == 0 { st = false; } else { cl -= 1; }
                let refs = cl + st as usize;
                if r != format!("refs={refs}") { s.out.oracle_fail(format!("C11: drop on `{slot}` answered `{r}`, {refs} references should be left")); }
                if cl == 0 && st { s.out.count("c11p.kept-by-stats"); }
                live = if refs > 0 { Some((slot, p, cl, st)) } else { s.out.count("c11p.last-drop"); None };
            } else {
                let p = rng.below(3) as usize;
                s.op(&format!("lk die {p}"));
                if live.as_ref().is_some_and(|l| l.1 == p) { live = None; s.out.count("c11p.owner-died"); } else { s.out.count("c11p.bystander-died"); }
            }
            let l = s.op("lk live");
            let want = live.as_ref().map(|x| x.0.clone()).unwrap_or_else(|| "-".into());
            if l.contains(',') { s.out.oracle_fail(format!("C11: two live handles on one directory: {l}")); }
            else if l != want { s.out.oracle_fail(format!("C11: live handles `{l}`, expected `{want}`")); }
        }
        s.op("lk reset");
        // the directory is a working store afterwards
        if !s.op("open").starts_with("ok") { s.out.oracle_fail("C11: open after every process is gone failed".into()); }
        s.op("iter");
        s.op("close");
        s.op("tracedrop");
    }
}


/// C11 as a system (`Props/C11System`): up to three real processes take turns OWNING one store —
/// puts, removes, range removals, checkpoints by the owner; clean hand-overs (close, then whoever
/// opens next) and deaths (SIGKILL, then whoever opens next: recovery); calls of `open` by the
/// other processes in between, which must be refused and change nothing. The model answers with
/// ONE world (`mRun_eq_lRun`: a multi-process run is the single-owner run of the owners' steps);
/// on top, the ordered-map oracle over completed operations follows every read and iteration
/// through all the hand-overs.
pub fn c11sys(s: &mut Sess, rng: &mut Rng, n: u64) {
    for _ in 0..n {
        s.begin_case(&format!("cfg kind=bytes n={} sync=1 pre=0", *rng.pick(&[2u64, 3, 10_000])));
        s.op("lk reset");
        let mut owner: Option<usize> = None;
        let mut oracle: std::collections::BTreeMap<Vec<u8>, Vec<u8>> = Default::default();
        let steps = rng.range(12, 30);
        for _ in 0..steps {
            match owner {
                None => {
                    let p = rng.below(3) as usize;
                    let r = s.op(&format!("at {p} open"));
                    if r.starts_with("ok") { owner = Some(p); s.out.count("c11sys.granted"); }
                    else { s.out.oracle_fail(format!("C11: nobody owns the directory, yet process {p}'s open answered `{r}`")); break; }
                }
                Some(o) => match rng.below(12) {
                    0..=4 => {
                        let k = vec![b'a' + rng.below(4) as u8];
                        if rng.chance(1, 4) {
                            let r = s.op(&format!("at {o} remove {}", hx(&k)));
                            let want = if oracle.remove(&k).is_some() { "true" } else { "false" };
                            if r != want { s.out.oracle_fail(format!("C11/C01: remove {} by owner {o} returned `{r}`, the ordered map says {want}", hx(&k))); }
                        } else {
                            let c = vec![b'x' + rng.below(3) as u8; rng.range(1, 4) as usize];
                            let r = s.op(&format!("at {o} put {} ={}", hx(&k), hx(&c)));
                            if r.starts_with("ok") { oracle.insert(k, c); } else { s.out.oracle_fail(format!("C11: put by owner {o} failed: {r}")); }
                        }
                        s.out.count("c11sys.owner-op");
                    }
                    5 => { s.op(&format!("at {o} checkpoint")); }
                    6..=7 => {
                        let q = (o + 1 + rng.below(2) as usize) % 3;
                        let r = s.op(&format!("at {q} open"));
                        if !r.starts_with("err alreadyOpened") { s.out.oracle_fail(format!("C11: process {o} owns the directory, yet process {q}'s open answered `{r}`")); }
                        // a process that was refused has no handle
                        let r2 = s.op(&format!("at {q} get 61"));
                        if r2 != "nohandle" { s.out.oracle_fail(format!("C11: the refused process {q} can read: `{r2}`")); }
                        s.out.count("c11sys.refused");
                    }
                    8 => { s.op(&format!("at {o} close")); owner = None; s.out.count("c11sys.hand-over"); }
                    9 => { s.op(&format!("at {o} die")); owner = None; s.out.count("c11sys.owner-died"); }
                    _ => {
                        let k = vec![b'a' + rng.below(4) as u8];
                        let r = s.op(&format!("at {o} get {}", hx(&k)));
                        let want = match oracle.get(&k) { Some(c) => format!("found {} {}", c.len(), blake3::hash(c).to_hex()), None => "absent".into() };
                        if r != want { s.out.oracle_fail(format!("C11/C01: get {} by owner {o} returned `{r}`, the ordered map through all hand-overs says `{want}`", hx(&k))); }
                        s.op("dump");
                    }
                },
            }
        }
        if let Some(o) = owner { s.op(&format!("at {o} die")); }
        s.op("lk reset");
        // whoever comes next — here the harness's own worker — finds the store of the last owner
        if !s.op("open").starts_with("ok") { s.out.oracle_fail("C11: open after every process is gone failed".into()); }
        for (k, c) in &oracle {
            let r = s.op(&format!("get {}", hx(k)));
            let want = format!("found {} {}", c.len(), blake3::hash(c).to_hex());
            if r != want { s.out.oracle_fail(format!("C11/C03: after all hand-overs get {} returned `{r}`, expected `{want}`", hx(k))); }
        }
        s.op("iter");
        s.op("close");
        s.op("tracedrop");
    }
}
