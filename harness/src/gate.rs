//! C19 (settings / format-version gate) and C11 (exclusive ownership) slices.
use crate::rng::Rng;
use crate::sess::Sess;
use crate::wire::hx;

fn populate(s: &mut Sess, rng: &mut Rng) -> Vec<String> {
    let mut lines = Vec::new();
    for i in 0..rng.range(1, 6) {
        let k = vec![b'a' + (i % 3) as u8];
        let l = if rng.chance(1, 5) { format!("remove {}", hx(&k)) } else { format!("put {} ={}", hx(&k), hx(&[b'x' + rng.below(3) as u8])) };
        s.op(&l);
        lines.push(l);
    }
    if rng.chance(1, 3) { s.op("checkpoint"); }
    lines
}

fn snapshot(s: &mut Sess) -> (String, String) {
    (s.op("iter"), s.op("dump"))
}

pub fn c19(s: &mut Sess, rng: &mut Rng, n: u64) {
    let ns = [1u64, 2, 3, 5, 1000, 10_000];
    for i in 0..n {
        let n1 = *rng.pick(&ns);
        let pre = i % 40 == 17; // the 65 792-directory tree: rarely
        s.begin_case(&format!("cfg kind=string n={n1} sync=1 pre={}", pre as u8));
        if !s.op("open").starts_with("ok") { s.out.oracle_fail("C19: first open failed".into()); continue; }
        s.op("tracedrop");
        populate(s, rng);
        let (iter0, _) = snapshot(s);
        s.op("close");
        s.op("trace");
        let before = s.op("dump");
        // wrong num_ops_per_wal
        let n2 = *rng.pick(&ns);
        s.op(&format!("recfg kind=string n={n2} sync=1 pre={}", rng.below(2)));
        let r = s.op("open");
        s.out.count(if n1 == n2 { "c19.same-n" } else { "c19.other-n" });
        if n1 != n2 {
            if r != "err validation" { s.out.oracle_fail(format!("C19: reopening a store created with n={n1} using n={n2} returned `{r}`")); }
            let t = s.op("trace");
            if t.split(';').any(|e| !(e.starts_with("creat lock") || e == "flock" || e == "_")) {
                s.out.oracle_fail(format!("C19: the rejected open modified the directory: {t}"));
            }
            let after = s.op("dump");
            if after != before { s.out.oracle_fail(format!("C19: directory changed across a rejected open: {before} → {after}")); }
        } else if r.starts_with("ok") { s.op("close"); s.op("trace"); }
        // wrong format version
        let ver = *rng.pick(&[0u64, 3, 5, 4_294_967_295, 4]);
        s.op(&format!("setsettings {ver} {} {n1}", pre as u8));
        s.op(&format!("recfg kind=string n={n1} sync=1 pre=0"));
        let before = s.op("dump");
        let r = s.op("open");
        s.out.count(if ver == 4 { "c19.version-ok" } else { "c19.version-bad" });
        if ver != 4 {
            if r != "err unsupportedVersion" { s.out.oracle_fail(format!("C19: stored version {ver} accepted: `{r}`")); }
            let t = s.op("trace");
            if t.split(';').any(|e| !(e.starts_with("creat lock") || e == "flock" || e == "_")) {
                s.out.oracle_fail(format!("C19: the rejected open modified the directory: {t}"));
            }
            if s.op("dump") != before { s.out.oracle_fail("C19: directory changed across a version-rejected open".into()); }
            s.op(&format!("setsettings 4 {} {n1}", pre as u8));
            let r = s.op("open");
            if !r.starts_with("ok") { s.out.oracle_fail(format!("C19: correct reopen failed: {r}")); continue; }
        } else if !r.starts_with("ok") { s.out.oracle_fail(format!("C19: correct reopen failed: {r}")); continue; }
        // the data is unchanged
        let iter1 = s.op("iter");
        if iter1 != iter0 { s.out.oracle_fail(format!("C19: contents changed: {iter0} → {iter1}")); }
        s.op("stats"); s.op("blobs");
        s.op("put 7a =7a7a");
        s.op("get 7a");
        s.op("close");
        s.op("trace");
        s.op("dump");
    }
}

pub fn c11(s: &mut Sess, rng: &mut Rng, n: u64) {
    for i in 0..n {
        s.begin_case(&format!("cfg kind=bytes n={} sync=1 pre=0", *rng.pick(&[2u64, 10_000])));
        match i % 4 {
            0 => {
                // racing opens from threads on a fresh or populated directory
                if rng.chance(1, 2) { s.op("open"); populate(s, rng); s.op("close"); }
                s.op("tracedrop");
                let k = rng.range(2, 6);
                let r = s.op(&format!("race_open {k}"));
                if r != "winners=1 losers_already_opened=true" { s.out.oracle_fail(format!("C11: {k} racing opens: {r}")); }
                s.op("tracedrop");
                s.out.count("c11.race-threads");
            }
            _ => {
                if !s.op("open").starts_with("ok") { continue; }
                populate(s, rng);
                s.op("trace");
            }
        }
        let before = s.op("dump");
        // second handle in the same process
        let r = s.op("open2");
        if r != "err alreadyOpened" { s.out.oracle_fail(format!("C11: a second handle was granted: {r}")); }
        let t = s.op("trace");
        if t != "creat lock trunc" { s.out.oracle_fail(format!("C11: the losing open touched the directory: {t}")); }
        // second process
        let r = s.op("open_other");
        if !r.starts_with("err alreadyOpened") { s.out.oracle_fail(format!("C11: another process was granted the directory: {r}")); }
        if r.split("other_events=").nth(1).is_some_and(|e| e.split(';').any(|x| x != "creat LOCK" && x != "_")) {
            s.out.oracle_fail(format!("C11: the losing process modified the directory: {r}"));
        }
        s.op("tracedrop");
        if s.op("dump") != before { s.out.oracle_fail("C11: directory changed by losing opens".into()); }
        s.out.count("c11.second-handle+process");
        // owner gone in different ways
        match rng.below(3) {
            0 => { s.op("close"); s.out.count("c11.owner-dropped"); }
            1 => { s.op("exit"); s.out.count("c11.owner-killed"); }
            _ => {
                // the OrphanStats still owns the handle: the lock must still be held
                s.op("close_keep_stats");
                let r = s.op("open2");
                if r != "err alreadyOpened" { s.out.oracle_fail(format!("C11: lock released while OrphanStats keeps the handle alive: {r}")); }
                s.op("dropstats");
                s.out.count("c11.owner-kept-by-stats");
            }
        }
        s.op("tracedrop");
        let r = s.op("open");
        if !r.starts_with("ok") { s.out.oracle_fail(format!("C11: open after the owner is gone failed: {r}")); }
        s.op("iter");
        s.op("close");
        s.op("tracedrop");
    }
}
