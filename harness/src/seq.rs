//! Sequential-history slices through the public API (real store in a worker process), with the
//! plain-ordered-map oracle of C01 and the exactness oracles of C07 / C12 / C13 / C02.
use std::collections::{BTreeMap, BTreeSet};
use std::ops::Bound;

use crate::keys::{gen_key, HKey, KINDS};
use crate::rng::Rng;
use crate::sess::Sess;
use crate::wire::hx;
use crate::with_kind;
use crate::worker::chunks_of;

#[derive(Clone, Copy)]
pub struct Weights {
    pub put: u64,
    pub abort: u64,
    pub remove: u64,
    pub rrange: u64,
    pub checkpoint: u64,
    pub reopen: u64,
    pub txn: u64, // explicit begin/write/finish interleaved with other ops
    pub len_lo: u64,
    pub len_hi: u64,
}

pub const W_C01: Weights = Weights { put: 10, abort: 2, remove: 4, rrange: 3, checkpoint: 1, reopen: 1, txn: 2, len_lo: 5, len_hi: 30 };
pub const W_C02: Weights = Weights { put: 8, abort: 1, remove: 3, rrange: 1, checkpoint: 3, reopen: 6, txn: 0, len_lo: 4, len_hi: 24 };
pub const W_C13: Weights = Weights { put: 5, abort: 8, remove: 2, rrange: 1, checkpoint: 1, reopen: 2, txn: 6, len_lo: 4, len_hi: 20 };

pub struct Ctx<'a, K: HKey> {
    pub s: &'a mut Sess,
    pub rng: &'a mut Rng,
    pub map: BTreeMap<K, Vec<u8>>,
    pub keys: Vec<Vec<u8>>,
    pub open_txs: Vec<(u32, K, Vec<u8>)>,
    pub next_tx: u32,
    pub prop: &'static str,
}

fn b3(b: &[u8]) -> String {
    hx(blake3::hash(b).as_bytes())
}

impl<'a, K: HKey> Ctx<'a, K> {
    pub fn fail(&mut self, what: String) {
        let p = self.prop;
        self.s.out.oracle_fail(format!("{p}: {what}"));
    }

    fn key(&mut self) -> Vec<u8> {
        let i = self.rng.below(self.keys.len() as u64) as usize;
        self.keys[i].clone()
    }

    /// a content as a chunk-spec string; few distinct contents, many chunkings
    fn content(&mut self) -> String {
        let base: &[&[u8]] = &[b"", b"X", b"XY", b"hello world", b"XYXYXYXY"];
        match self.rng.below(20) {
            // one large single write call / the same bytes in small pieces (chunk independence, C18)
            3 if matches!(self.prop, "C18" | "C06") => {
                let seed = self.rng.below(2);
                // thresholds hide at powers of two: 2^k-1, 2^k, 2^k+1 for 8 KiB … 2 MiB, as one
                // chunk, as all-but-one-byte + one byte, or in 64 KiB pieces
                let k = self.rng.range(13, 21);
                let len = (1u64 << k) + self.rng.below(3) - 1;
                match self.rng.below(4) {
                    0 => format!("~{seed}:{len}"),
                    1 => format!("~{seed}:{len},=-"),
                    2 => format!("~{seed}:{},~{seed}:1", len - 1),
                    _ => { let mut v = Vec::new(); let mut left = len; while left > 0 { let n = left.min(65_536); v.push(format!("~{seed}:{n}")); left -= n; } v.join(",") }
                }
            }
            // a small head (stays in the BufWriter) followed by a large body, optionally a tail:
            // mixed chunk sizes around the usual buffer thresholds (8 KiB, 64 KiB, 128 KiB)
            4 if matches!(self.prop, "C18" | "C06" | "C01") => {
                let head = self.rng.range(1, 40);
                let len = *self.rng.pick(&[8192u64, 65_535, 65_536, 65_537, 131_072]);
                let seed = self.rng.below(2);
                let tail = if self.rng.chance(1, 2) { format!(",={}", hx(b"tail")) } else { String::new() };
                format!("~{}:{head},~{seed}:{len}{tail}", seed + 1)
            }
            0 => format!("~{}:{}", self.rng.below(3), *self.rng.pick(&[8191u64, 8192, 8193, 20000])),
            1 => format!("~{}:{},={}", self.rng.below(3), 5000, hx(b"tail")),
            2 => "_".to_string(),
            _ => {
                let c: &[u8] = base[self.rng.below(base.len() as u64) as usize];
                if c.is_empty() { return if self.rng.chance(1, 2) { "=-".into() } else { "=-,=-".into() }; }
                // random chunking, possibly with empty chunks
                let mut parts = Vec::new();
                let mut i = 0;
                while i < c.len() {
                    let n = 1 + self.rng.below((c.len() - i) as u64) as usize;
                    parts.push(format!("={}", hx(&c[i..i + n])));
                    if self.rng.chance(1, 6) { parts.push("=-".into()); }
                    i += n;
                }
                parts.join(",")
            }
        }
    }

    /// issue a line; count it in the distribution
    pub fn op(&mut self, line: &str) -> String {
        let verb = line.split(' ').next().unwrap_or("");
        self.s.out.count(&format!("op.{verb}"));
        self.s.op(line)
    }

    pub fn expect(&mut self, line: &str, want: &str) {
        let r = self.op(line);
        if r != want {
            self.fail(format!("`{line}` returned `{r}`, the ordered-map oracle says `{want}`"));
        }
    }

    fn iter_want(&self, lo: Bound<&K>, hi: Bound<&K>) -> String {
        let v: Vec<String> = self.map.range((lo, hi)).map(|(k, c)| format!("{}:{}:{}", hx(&k.enc()), b3(c), c.len())).collect();
        if v.is_empty() { "_".into() } else { v.join(";") }
    }

    /// all observations after a step, judged against the oracle
    pub fn observe(&mut self, quiescent: bool) {
        self.op("trace");
        let want = self.iter_want(Bound::Unbounded, Bound::Unbounded);
        self.expect("iter", &want);
        // C13/C07: nothing of an abandoned or finished transaction is kept alive by a descriptor
        if matches!(self.prop, "C13" | "C07") && quiescent { self.expect("leaks", "0"); }
        // C12: stats and reference counts
        let mut rc: BTreeMap<String, (u32, u64)> = BTreeMap::new();
        for c in self.map.values() {
            let e = rc.entry(b3(c)).or_insert((0, c.len() as u64));
            e.0 += 1;
        }
        let blobs = if rc.is_empty() { "_".to_string() } else { rc.iter().map(|(h, (n, _))| format!("{h}:{n}")).collect::<Vec<_>>().join(",") };
        self.expect("blobs", &blobs);
        let r = self.op("stats");
        let w: Vec<&str> = r.split(' ').collect();
        let (u, t) = (rc.len() as u64, rc.values().map(|x| x.1).sum::<u64>());
        if w.len() != 3 || w[0] != u.to_string() || w[1] != t.to_string() {
            self.fail(format!("stats `{r}`, expected unique={u} total={t}"));
        }
        // C07: exact CAS directory, empty staging
        let d = self.op("dump");
        let cas = d.split(' ').find_map(|f| f.strip_prefix("cas=")).unwrap_or("_").to_string();
        let have: BTreeSet<String> = if cas == "_" { BTreeSet::new() } else { cas.split(',').map(|e| e.to_string()).collect() };
        let want: BTreeSet<String> = self.map.values().map(|c| format!("{}:{}:{}", b3(c), c.len(), b3(c))).collect();
        if quiescent && have != want {
            let extra: Vec<_> = have.difference(&want).take(3).collect();
            let lack: Vec<_> = want.difference(&have).take(3).collect();
            self.fail(format!("cas/ differs from the referenced contents: extra {extra:?} missing {lack:?}"));
        }
        // C06: every file's content hashes to its name (the dump carries name:len:blake3(content))
        for e in &have {
            let p: Vec<&str> = e.split(':').collect();
            if p.len() != 3 || p[0] != p[2] {
                self.fail(format!("C06: cas file {} holds content with hash {}", p[0], p.get(2).unwrap_or(&"?")));
            }
        }
        let staging = d.split(' ').find_map(|f| f.strip_prefix("staging=")).unwrap_or("?").to_string();
        if quiescent && staging != self.open_txs.len().to_string() {
            self.fail(format!("staging/ holds {staging} files, {} transactions are open", self.open_txs.len()));
        }
        // two point reads
        for _ in 0..2 {
            let kb = self.key();
            let k = K::dec(&kb).unwrap();
            let want = match self.map.get(&k) {
                None => "absent".to_string(),
                Some(c) => format!("found {} {}", c.len(), b3(c)),
            };
            let verb = if self.rng.chance(1, 4) { "reader" } else { "get" };
            self.expect(&format!("{verb} {}", hx(&kb)), &want);
            let want = self.map.get(&k).map_or("absent".to_string(), |c| c.len().to_string());
            self.expect(&format!("size {}", hx(&kb)), &want);
            if self.rng.chance(1, 3) {
                // contains_key / require_item / is_empty / len / contains_blob_hash / keys_snapshot
                let item = self.map.get(&k).map_or("notfound".to_string(), |c| format!("{}:{}", b3(c), c.len()));
                let want = format!("contains={} item={} empty={} len={} hashknown={} keys={}", self.map.contains_key(&k), item,
                    self.map.is_empty(), self.map.len(), self.map.contains_key(&k), self.map.len());
                self.expect(&format!("idxq {}", hx(&kb)), &want);
            }
            if self.rng.chance(1, 3) {
                let l = self.map.get(&k).map_or(0, |c| c.len() as u64);
                let (s, e) = (self.rng.below(l + 2), self.rng.below(l + 3));
                let (s, e) = if s > e { (e, s) } else { (s, e) };
                let want = match self.map.get(&k) {
                    None => "absent".to_string(),
                    Some(c) => format!("ok {}", hx(&c[(s.min(l) as usize)..(e.min(l) as usize)])),
                };
                self.expect(&format!("getrange {} {} {}", hx(&kb), s, e), &want);
            }
        }
    }

    fn bounds(&mut self) -> (String, String, Bound<K>, Bound<K>) {
        loop {
            let a = self.key();
            let b = self.key();
            let (ka, kb) = (K::dec(&a).unwrap(), K::dec(&b).unwrap());
            let (lo_b, hi_b, klo, khi) = if ka <= kb { (a, b, ka, kb) } else { (b, a, kb, ka) };
            let lo_kind = self.rng.below(3);
            let hi_kind = self.rng.below(3);
            // BTreeMap::range panics for lo > hi and for lo == hi with both bounds excluded
            if klo == khi && lo_kind == 2 && hi_kind == 2 { continue; }
            let (ls, lb) = match lo_kind { 0 => ("*".to_string(), Bound::Unbounded), 1 => (format!("[{}", hx(&lo_b)), Bound::Included(klo.clone())), _ => (format!("({}", hx(&lo_b)), Bound::Excluded(klo.clone())) };
            let (hs, hb) = match hi_kind { 0 => ("*".to_string(), Bound::Unbounded), 1 => (format!("{}]", hx(&hi_b)), Bound::Included(khi.clone())), _ => (format!("{})", hx(&hi_b)), Bound::Excluded(khi.clone())) };
            return (ls, hs, lb, hb);
        }
    }

    pub fn step(&mut self, w: &Weights) {
        let total = w.put + w.abort + w.remove + w.rrange + w.checkpoint + w.reopen + w.txn;
        let mut r = self.rng.below(total);
        let mut pick = |n: u64| { if r < n { r = u64::MAX; true } else { r -= n.min(r); false } };
        if pick(w.put) {
            let kb = self.key();
            let spec = self.content();
            let bytes: Vec<u8> = chunks_of(&spec).concat();
            let k = K::dec(&kb).unwrap();
            if self.map.get(&k) == Some(&bytes) { self.s.out.count("put.same-content"); }
            else if self.map.values().any(|c| *c == bytes) { self.s.out.count("put.shared-content"); }
            else if self.map.contains_key(&k) { self.s.out.count("put.overwrite"); }
            else { self.s.out.count("put.new"); }
            self.expect(&format!("put {} {}", hx(&kb), spec), "ok");
            self.map.insert(k, bytes);
        } else if pick(w.abort) {
            let kb = self.key();
            let id = self.next_tx; self.next_tx += 1;
            self.expect(&format!("begin {id} {}", hx(&kb)), "ok");
            for _ in 0..self.rng.below(3) {
                let c = format!("~{}:{}", self.rng.below(4), *self.rng.pick(&[0u64, 1, 10, 9000]));
                self.expect(&format!("write {id} {c}"), "ok");
            }
            self.expect(&format!("abort {id}"), "ok");
        } else if pick(w.remove) {
            let kb = self.key();
            let k = K::dec(&kb).unwrap();
            let want = self.map.remove(&k).is_some();
            self.s.out.count(if want { "remove.present" } else { "remove.absent" });
            self.expect(&format!("remove {}", hx(&kb)), &want.to_string());
        } else if pick(w.rrange) {
            let (ls, hs, lb, hb) = self.bounds();
            let want_iter = self.iter_want(lb.as_ref(), hb.as_ref());
            self.expect(&format!("riter {ls} {hs}"), &want_iter);
            let victims: Vec<K> = self.map.range((lb, hb)).map(|(k, _)| k.clone()).collect();
            for k in &victims { self.map.remove(k); }
            self.s.out.count(if victims.is_empty() { "rrange.empty" } else { "rrange.nonempty" });
            self.expect(&format!("rrange {ls} {hs}"), &victims.len().to_string());
        } else if pick(w.checkpoint) {
            self.expect("checkpoint", "ok");
        } else if pick(w.reopen) {
            if !self.open_txs.is_empty() { return; }
            let next: u64 = self.op("mem").split(' ').find_map(|f| f.strip_prefix("next=")).and_then(|x| x.parse().ok()).unwrap_or(0);
            self.expect("close", "ok");
            self.op("trace");
            // C20: the layout rules, on the files alone (versions increasing, placed by (v-1)/N, every
            // acknowledged version above the snapshot's still in a segment)
            if next > 0 {
                if let Some(bad) = crate::reader::layout_violations(&self.s.dir, self.s.n_wal(), next) {
                    self.s.out.count("c20.layout-judged");
                    if let Some(b) = bad.first() { self.fail(format!("C20: after a clean close: {b}")); }
                }
            }
            // C20: the files, read without the library, must describe the state the next open shows
            let described = crate::reader::described_state(&self.s.dir);
            if let Some(d) = &described {
                let want: std::collections::BTreeSet<String> = self.map.iter().map(|(k, c)| format!("{}:{}:{}", hx(&k.enc()), b3(c), c.len())).collect();
                if crate::reader::as_set(d) != want {
                    self.fail(format!("C20: after a clean close the files describe {:?}, the ordered-map oracle says {want:?}", crate::reader::as_set(d)));
                }
            }
            if self.rng.chance(1, 3) {
                // the plain entry point (its own integrity gate, stats dropped)
                let r = self.op("openplain");
                if r != "ok plain" { self.fail(format!("C02: clean reopen through Cas::open reported `{r}`")); }
            } else {
                let r = self.op("open");
                if !r.starts_with("ok orphans=0 missing=0 corrupted=0 staging=0") {
                    self.fail(format!("C02: clean reopen reported `{r}`"));
                }
            }
        } else {
            // explicit transaction: begin now, finish or abort after other operations
            if let Some(i) = (!self.open_txs.is_empty() && self.rng.chance(2, 3)).then(|| self.rng.below(self.open_txs.len() as u64) as usize) {
                let (id, k, bytes) = self.open_txs.remove(i);
                if self.rng.chance(2, 3) {
                    self.expect(&format!("finish {id}"), "ok");
                    self.map.insert(k, bytes);
                } else {
                    self.expect(&format!("abort {id}"), "ok");
                }
            } else {
                let kb = self.key();
                let id = self.next_tx; self.next_tx += 1;
                self.expect(&format!("begin {id} {}", hx(&kb)), "ok");
                let mut bytes = Vec::new();
                for _ in 0..self.rng.below(3) {
                    let c = if self.rng.chance(1, 2) { { let opts: [&[u8]; 3] = [b"X", b"XY", b"hello "]; let o: &[u8] = opts[self.rng.below(3) as usize]; format!("={}", hx(o)) } } else { format!("~{}:{}", self.rng.below(2), *self.rng.pick(&[3u64, 9000])) };
                    bytes.extend(crate::worker::chunk_bytes(&c));
                    self.expect(&format!("write {id} {c}"), "ok");
                }
                self.open_txs.push((id, K::dec(&kb).unwrap(), bytes));
            }
        }
    }
}

fn history<K: HKey>(s: &mut Sess, rng: &mut Rng, w: &Weights, prop: &'static str, n_wal: u64, sync: bool, case: u64) {
    let nkeys = rng.range(2, 5);
    let mut keys = BTreeSet::new();
    while (keys.len() as u64) < nkeys { keys.insert(gen_key(K::KIND, rng, 12)); }
    s.begin_case(&format!("cfg kind={} n={} sync={} pre=0", K::KIND, n_wal, sync as u8));
    let mut c: Ctx<K> = Ctx { s, rng, map: BTreeMap::new(), keys: keys.into_iter().collect(), open_txs: Vec::new(), next_tx: 0, prop };
    let r = c.op("open");
    if !r.starts_with("ok") { c.fail(format!("first open failed: {r}")); return; }
    c.observe(true);
    // C18/C06 "all contents incl. those larger than I/O buffers": thresholds hide at powers of two, so
    // the first 27 histories of a run start with a put of exactly 2^k-1, 2^k, 2^k+1 bytes for
    // k = 13 … 21 (8 KiB … 2 MiB), alternately as one write call and in 64 KiB pieces — swept, not drawn
    // (the other properties' histories: 128 KiB and 1 MiB only — recorded sizes and counters depend
    // on the length of a write call too)
    let swept = if matches!(prop, "C18" | "C06") { case < 27 } else { case < 6 && prop != "C13" };
    if swept {
        let (k, delta) = if matches!(prop, "C18" | "C06") { (13 + case / 3, case % 3) } else { ([17, 20][(case / 3) as usize], case % 3) };
        let len = (1u64 << k) + delta - 1;
        let spec = if case % 2 == 0 { format!("~1:{len}") } else {
            let mut v = Vec::new(); let mut left = len;
            while left > 0 { let n = left.min(65_536); v.push(format!("~1:{n}")); left -= n; }
            v.join(",")
        };
        let kb = c.key();
        let bytes: Vec<u8> = chunks_of(&spec).concat();
        c.expect(&format!("put {} {}", hx(&kb), spec), "ok");
        c.map.insert(K::dec(&kb).unwrap(), bytes);
        c.s.out.count("put.size-sweep-2^k");
        c.observe(true);
        // the same length once more, under another key, as a short header followed by ONE big
        // write call (bytes still in the write buffer when a large chunk arrives)
        let kb2 = c.key();
        let spec2 = format!("=a1b2c3,~2:{}", len.saturating_sub(3).max(1));
        let bytes2: Vec<u8> = chunks_of(&spec2).concat();
        c.expect(&format!("put {} {}", hx(&kb2), spec2), "ok");
        c.map.insert(K::dec(&kb2).unwrap(), bytes2);
        c.s.out.count("put.size-sweep-header+big");
        c.observe(true);
    }
    // Count thresholds are invisible to histories over five keys: once in a while a history over
    // MANY keys (a range removal whose record outgrows the 8 KiB write buffer, hundreds of versions,
    // two- and three-digit segment ids with n = 3 / 64)
    if case % 20 == 7 && prop != "C13" {
        let target = if c.rng.chance(1, 4) { c.rng.range(1030, 1300) as usize } else { c.rng.range(300, 700) as usize };
        let mut more: BTreeSet<Vec<u8>> = c.keys.iter().cloned().collect();
        let mut tries = 0;
        while more.len() < target && tries < 20_000 {
            let mut k = gen_key(K::KIND, c.rng, 4000);
            // the variable-length kinds have small pools: extend them
            if K::KIND == "bytes" { k.extend_from_slice(&(tries as u16).to_be_bytes()); }
            if K::KIND == "string" { k.extend_from_slice(format!("-{tries}").as_bytes()); }
            more.insert(k);
            tries += 1;
        }
        c.keys = more.into_iter().collect();
        let all = c.keys.clone();
        for (i, kb) in all.iter().enumerate() {
            let content = vec![b'p', (i % 7) as u8];
            c.expect(&format!("put {} ={}", hx(kb), hx(&content)), "ok");
            c.map.insert(K::dec(kb).unwrap(), content);
            if i % 200 == 199 { c.observe(true); }
        }
        c.s.out.count("history.many-keys");
        c.observe(true);
        // half of them: ONE range removal over everything (a record naming hundreds or more than a
        // thousand keys), a restart that has to replay it, and the keys put back
        if c.rng.chance(1, 2) {
            let n = c.map.len();
            c.map.clear();
            c.expect("rrange * *", &n.to_string());
            c.expect("close", "ok");
            let r = c.op("open");
            if !r.starts_with("ok orphans=0 missing=0 corrupted=0 staging=0") { c.fail(format!("C02: reopen after a range removal over {n} keys reported `{r}`")); }
            c.observe(true);
            c.s.out.count("history.many-keys-removed-at-once");
        }
    }
    // Size thresholds of RECORDS hide behind key lengths (a put's record is its key + 45 bytes): a
    // swept, not drawn, list of key lengths around the write buffer (8 KiB), 64 KiB, 128 KiB and —
    // late in long runs only — 1 MiB; the key joins the pool, so later removes and range removals
    // log it too; a restart follows at once (what was acknowledged must be there afterwards)
    if case % 20 == 13 && matches!(K::KIND, "bytes" | "string") && prop != "C13" {
        const LENS: [usize; 11] = [8103, 65_492, 1_048_532, 65_491, 8102, 131_027, 65_490, 8104, 65_493, 1_048_531, 1_048_533];
        let n = LENS[(case / 20) as usize % LENS.len()];
        let kb = vec![b'k'; n];
        let huge = n > 200_000; // its hex form is megabytes per line: no listings while it is there
        c.expect(&format!("put {} =4c", hx(&kb)), "ok");
        let k2 = c.key();
        c.expect(&format!("put {} =4d", hx(&k2)), "ok");
        c.map.insert(K::dec(&k2).unwrap(), b"M".to_vec());
        if !huge { c.keys.push(kb.clone()); c.map.insert(K::dec(&kb).unwrap(), b"L".to_vec()); c.observe(true); }
        c.expect("close", "ok");
        let r = c.op("open");
        if !r.starts_with("ok orphans=0 missing=0 corrupted=0 staging=0") { c.fail(format!("C02: reopen after a put with a {n}-byte key reported `{r}`")); }
        if huge {
            // judged by point reads: both puts were acknowledged before the restart
            let l = format!("found 1 {}", b3(b"L"));
            c.expect(&format!("get {}", hx(&kb)), &l);
            let m = format!("found 1 {}", b3(b"M"));
            c.expect(&format!("get {}", hx(&k2)), &m);
            // … and the removal of the long key (a second long record) as well
            c.expect(&format!("remove {}", hx(&kb)), "true");
            c.expect("close", "ok");
            let r = c.op("open");
            if !r.starts_with("ok orphans=0 missing=0 corrupted=0 staging=0") { c.fail(format!("C02: reopen after removing a {n}-byte key reported `{r}`")); }
            c.expect(&format!("get {}", hx(&kb)), "absent");
        }
        c.observe(true);
        c.s.out.count(if huge { "history.long-key-1MiB" } else { "history.long-key" });
    }
    let len = if case % 20 == 13 && matches!(K::KIND, "bytes" | "string") { c.rng.range(3, 8) } else { c.rng.range(w.len_lo, w.len_hi) };
    for i in 0..len {
        c.step(w);
        c.observe(true);
        // once per C13 history in a while: a transaction abandoned after a LARGE amount of data
        if prop == "C13" && i == 1 && c.rng.chance(1, 12) {
            let kb = c.key();
            let id = c.next_tx; c.next_tx += 1;
            c.expect(&format!("begin {id} {}", hx(&kb)), "ok");
            let big = *c.rng.pick(&[9u64 << 20, 33 << 20, 40 << 20]);
            c.expect(&format!("writezeros {id} {big}"), "ok");
            c.expect(&format!("abort {id}"), "ok");
            c.s.out.count("abort.large");
            c.observe(true);
        }
    }
    // finish: close cleanly, reopen, everything still there (C02 / C13 "also after reopening")
    for (id, _, _) in std::mem::take(&mut c.open_txs) { c.expect(&format!("abort {id}"), "ok"); }
    c.expect("close", "ok");
    let r = c.op("open");
    if !r.starts_with("ok orphans=0 missing=0 corrupted=0 staging=0") { c.fail(format!("C02: final reopen reported `{r}`")); }
    c.observe(true);
    c.expect("close", "ok");
    c.op("trace");
}

pub fn histories(s: &mut Sess, rng: &mut Rng, n: u64, w: &Weights, prop: &'static str) {
    for i in 0..n {
        let kind = if i % 20 == 13 { KINDS[(i / 20 % 2) as usize] } else { KINDS[rng.below(KINDS.len() as u64) as usize] };
        let n_wal = if i % 20 == 7 { *rng.pick(&[3u64, 64, 10_000]) } else if i % 20 == 13 { 10_000 } else { *rng.pick(&[1u64, 2, 3, 5, 10_000]) };
        let sync = i % 4 != 3;
        s.out.count(&format!("cfg.n={n_wal}"));
        s.out.count(&format!("cfg.kind={kind}"));
        s.out.count(if sync { "cfg.sync" } else { "cfg.async" });
        with_kind!(kind, history(s, rng, w, prop, n_wal, sync, i));
    }
}
