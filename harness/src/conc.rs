//! Forced-schedule execution of small concurrent programs on the REAL store (inside the worker
//! process). Worker threads park at every `cassadilia::verif::point`; the controller releases one
//! thread per step and records what it observes after the step.
use std::cell::Cell;
use std::sync::{Arc, Condvar, Mutex};
use std::time::Duration;

use cassadilia::{Cas, LibError, OrphanStats};

use crate::keys::HKey;
use crate::rng::Rng;
use crate::wire::{hx, unhx};
use crate::worker::{chunks_of, classify};

#[derive(Clone, Debug, PartialEq)]
enum TState {
    Parked(String),
    Running,
    Done,
}

struct Ctl {
    states: Mutex<Vec<TState>>,
    cv: Condvar,
}

thread_local! {
    static TID: Cell<Option<usize>> = const { Cell::new(None) };
}

static CTL: Mutex<Option<Arc<Ctl>>> = Mutex::new(None);

/// lock mask of the store under test (set for the duration of `run`)
struct Probe(Box<dyn Fn() -> u8>);
unsafe impl Send for Probe {}
static PROBE: Mutex<Option<Probe>> = Mutex::new(None);

/// points that sit INSIDE a lock-protected region of the code as it is: the model takes the
/// region as one step, so a thread parks there only if the lock is NOT held when it arrives
/// (the work was moved out of the guarded region) — then other threads may run in between
fn guarded_by_state_lock(id: &str) -> bool { id == "blob.before_open" }

fn park(id: &str) {
    let Some(t) = TID.with(|c| c.get()) else { return };
    if guarded_by_state_lock(id) {
        let held = PROBE.lock().unwrap().as_ref().map_or(true, |p| (p.0)() & 2 != 0);
        if held { return; }
    }
    let Some(ctl) = CTL.lock().unwrap().clone() else { return };
    let mut st = ctl.states.lock().unwrap();
    st[t] = TState::Parked(id.to_string());
    ctl.cv.notify_all();
    while st[t] != TState::Running {
        st = ctl.cv.wait(st).unwrap();
    }
}

pub fn install_point_callback() {
    cassadilia::verif::set_point_callback(Some(Box::new(|id: &'static str| park(id))));
}

#[derive(Clone, Debug)]
pub enum COp {
    Put(Vec<u8>, String),
    Abort(Vec<u8>, String),
    Remove(Vec<u8>),
    RRange(String, String),
    Get(Vec<u8>),
    Reader(Vec<u8>),
    GetRange(Vec<u8>, u64, u64),
    Ckpt,
    Cleanup,
}

pub fn parse_cop(s: &str) -> COp {
    let w: Vec<&str> = s.split(':').collect();
    match w.as_slice() {
        ["put", k, c] => COp::Put(unhx(k), c.to_string()),
        ["abort", k, c] => COp::Abort(unhx(k), c.to_string()),
        ["remove", k] => COp::Remove(unhx(k)),
        ["rrange", lo, hi] => COp::RRange(lo.to_string(), hi.to_string()),
        ["get", k] => COp::Get(unhx(k)),
        ["reader", k] => COp::Reader(unhx(k)),
        ["grange", k, s, e] => COp::GetRange(unhx(k), s.parse().unwrap(), e.parse().unwrap()),
        ["ckpt"] => COp::Ckpt,
        ["cleanup", ..] => COp::Cleanup,
        _ => panic!("bad concurrent op {s}"),
    }
}

fn wants(point: &str) -> u8 {
    if point == "idle" { 0 }
    else if point.ends_with("before_intents") || point.ends_with("before_register") { 1 }
    else if point == "apply.before_state" || point == "checkpoint.before_state" { 2 }
    else if point.ends_with("before_scan") || point == "read.before_lookup" || point == "orphan.before_state" { 3 }
    else { 0 }
}

fn short(s: &str) -> String {
    hx(&blake3::hash(s.as_bytes()).as_bytes()[..4])
}

fn exec_op<K: HKey>(cas: &Cas<K>, stats: Option<&OrphanStats<K>>, op: &COp) -> String {
    let key = |b: &Vec<u8>| K::dec(b).expect("valid key");
    let err = |e: LibError| format!("err_{}", classify(&e).replace(' ', "_"));
    match op {
        COp::Put(k, spec) => {
            let mut tx = match cas.put(key(k)) { Ok(t) => t, Err(e) => return err(e) };
            for c in chunks_of(spec) { if tx.write(&c).is_err() { return "err_write".into(); } }
            match tx.finish() { Ok(()) => "ok".into(), Err(e) => err(e) }
        }
        COp::Abort(k, spec) => {
            let mut tx = match cas.put(key(k)) { Ok(t) => t, Err(e) => return err(e) };
            for c in chunks_of(spec) { let _ = tx.write(&c); }
            drop(tx);
            "ok".into()
        }
        COp::Remove(k) => match cas.remove(&key(k)) { Ok(b) => format!("bool_{b}"), Err(e) => err(e) },
        COp::RRange(lo, hi) => {
            let pl = |s: &str| -> std::ops::Bound<K> {
                if s == "*" { std::ops::Bound::Unbounded }
                else if let Some(h) = s.strip_prefix('[') { std::ops::Bound::Included(K::dec(&unhx(h)).unwrap()) }
                else { std::ops::Bound::Excluded(K::dec(&unhx(&s[1..])).unwrap()) }
            };
            let ph = |s: &str| -> std::ops::Bound<K> {
                if s == "*" { std::ops::Bound::Unbounded }
                else if let Some(h) = s.strip_suffix(']') { std::ops::Bound::Included(K::dec(&unhx(h)).unwrap()) }
                else { std::ops::Bound::Excluded(K::dec(&unhx(&s[..s.len() - 1])).unwrap()) }
            };
            match cas.remove_range((pl(lo), ph(hi))) { Ok(n) => format!("count_{n}"), Err(e) => err(e) }
        }
        COp::Get(k) => match cas.get(&key(k)) {
            Ok(None) => "absent".into(),
            Ok(Some(b)) => format!("found_{}", hx(&b)),
            Err(e) => err(e),
        },
        COp::Reader(k) => match cas.get_reader(&key(k)) {
            Ok(None) => "absent".into(),
            Ok(Some(mut r)) => {
                use std::io::Read;
                let mut b = Vec::new();
                match r.read_to_end(&mut b) { Ok(_) => format!("found_{}", hx(&b)), Err(_) => "err_read".into() }
            }
            Err(e) => err(e),
        },
        COp::GetRange(k, s, e) => match cas.get_range(&key(k), *s, *e) {
            Ok(None) => "absent".into(),
            Ok(Some(b)) => format!("found_{}", hx(&b)),
            Err(e) => err(e),
        },
        COp::Ckpt => match cas.checkpoint() { Ok(()) => "ok".into(), Err(e) => err(e) },
        COp::Cleanup => match stats {
            Some(s) => match s.delete_orphans() {
                Ok(r) => format!("cleaned_{}_{}", r.orphans_deleted, r.orphans_skipped),
                Err(e) => err(e),
            },
            None => "nostats".into(),
        },
    }
}

fn observe<K: HKey>(cas: &Cas<K>, dir: &std::path::Path) -> (String, bool) {
    let mask = cas.verif_lock_mask() & 3;
    // CAS listing (hashes of files present)
    let mut files: Vec<String> = Vec::new();
    fn walk(p: &std::path::Path, acc: &mut Vec<String>, pre: String) {
        if let Ok(rd) = std::fs::read_dir(p) {
            for e in rd.flatten() {
                let n = e.file_name().to_string_lossy().into_owned();
                if e.path().is_dir() { walk(&e.path(), acc, format!("{pre}{n}")); } else { acc.push(format!("{pre}{n}")); }
            }
        }
    }
    walk(&dir.join("cas"), &mut files, String::new());
    files.sort();
    let mut dangling = false;
    let idx = match (mask & 2 == 0).then(|| cas.verif_try_entries()).flatten() {
        Some(es) => {
            for (_, h, _) in &es { if !files.contains(&hx(h.as_bytes())) { dangling = true; } }
            short(&es.iter().map(|(k, h, n)| format!("{}:{}:{}", hx(&k.enc()), hx(h.as_bytes()), n)).collect::<Vec<_>>().join(";"))
        }
        None => "L".to_string(),
    };
    let prot = match (mask & 1 == 0).then(|| cas.verif_try_intents()).flatten() {
        Some((bk, pr)) => short(&format!(
            "{}|{}",
            bk.iter().map(|(k, h)| format!("{}:{}", hx(&k.enc()), hx(h.as_bytes()))).collect::<Vec<_>>().join(";"),
            pr.iter().map(|(h, c)| format!("{}:{}", hx(h.as_bytes()), c)).collect::<Vec<_>>().join(";")
        )),
        None => "L".to_string(),
    };
    (format!("{}:{}:{}:{}", mask, idx, short(&files.join(";")), prot), dangling)
}

/// Execute `programs` under `policy`; returns (schedule actually run, observation text).
pub fn run<K: HKey>(cas: &Cas<K>, stats: Option<&OrphanStats<K>>, dir: &std::path::Path, programs: Vec<Vec<COp>>, policy: &str) -> (Vec<usize>, String) {
    let n = programs.len();
    let ctl = Arc::new(Ctl { states: Mutex::new(vec![TState::Running; n]), cv: Condvar::new() });
    *CTL.lock().unwrap() = Some(ctl.clone());
    {
        // the closure borrows `cas`; it is removed again before `run` returns
        let f: Box<dyn Fn() -> u8 + '_> = Box::new(move || cas.verif_lock_mask());
        let f: Box<dyn Fn() -> u8 + 'static> = unsafe { std::mem::transmute(f) };
        *PROBE.lock().unwrap() = Some(Probe(f));
    }
    let results: Arc<Mutex<Vec<Vec<String>>>> = Arc::new(Mutex::new(vec![Vec::new(); n]));
    // an idle thread whose next operation begins with an index read cannot start while the state
    // lock is held exclusively (get_range's size pre-check has no yield point before it)
    let starts_with_state_read = |t: usize, done: usize| -> bool {
        matches!(programs.get(t).and_then(|p| p.get(done)), Some(COp::GetRange(..)))
    };
    let mut sched: Vec<usize> = Vec::new();
    let mut obs: Vec<String> = Vec::new();
    std::thread::scope(|scope| {
        for (t, prog) in programs.iter().enumerate() {
            let results = results.clone();
            let ctl = ctl.clone();
            scope.spawn(move || {
                TID.with(|c| c.set(Some(t)));
                for op in prog {
                    park("idle");
                    let r = std::panic::catch_unwind(std::panic::AssertUnwindSafe(|| exec_op(cas, stats, op))).unwrap_or_else(|_| "panic".into());
                    results.lock().unwrap()[t].push(r);
                }
                let mut st = ctl.states.lock().unwrap();
                st[t] = TState::Done;
                ctl.cv.notify_all();
            });
        }
        // wait until every thread is parked (at "idle") or done
        let wait_all = |ctl: &Ctl| -> bool {
            let st = ctl.states.lock().unwrap();
            let (st, to) = ctl.cv.wait_timeout_while(st, Duration::from_secs(3), |s| s.iter().any(|x| *x == TState::Running)).unwrap();
            drop(st);
            !to.timed_out()
        };
        let mut ok = wait_all(&ctl);
        let explicit: Option<Vec<usize>> = policy.strip_prefix("sched=").map(|s| if s.is_empty() { vec![] } else { s.split(',').map(|x| x.parse().unwrap()).collect() });
        let mut rng = Rng::new(policy.strip_prefix("rand=").or(policy.strip_prefix("stall=")).or(policy.strip_prefix("stall0=")).and_then(|s| s.parse().ok()).unwrap_or(0));
        // `stall=<seed>`: one long preemption — a victim thread runs `stall_after` steps, is then
        // held back while any other thread can run, and finishes last
        // (`stall0=`: the victim is thread 0 and is stopped early, inside its first or second call)
        let stall: Option<(usize, usize)> = if policy.starts_with("stall0=") { Some((0, 1 + rng.below(5) as usize)) }
            else { policy.strip_prefix("stall=").map(|_| (rng.below(n as u64) as usize, rng.below(9) as usize)) };
        let mut victim_steps = 0usize;
        let mut step_no = 0usize;
        let mut cur: Option<usize> = None;
        while ok {
            let st = ctl.states.lock().unwrap().clone();
            if st.iter().all(|s| *s == TState::Done) { break; }
            let mask = cas.verif_lock_mask() & 3;
            let done_counts: Vec<usize> = results.lock().unwrap().iter().map(|r| r.len()).collect();
            let enabled: Vec<usize> = (0..n).filter(|&t| match &st[t] {
                TState::Parked(p) if p == "idle" => !(starts_with_state_read(t, done_counts[t]) && mask & 2 != 0),
                TState::Parked(p) => match wants(p) { 1 => mask & 1 == 0, 2 | 3 => mask & 2 == 0, _ => true },
                _ => false,
            }).collect();
            let pick = match &explicit {
                Some(s) => { if step_no >= s.len() { break; } s[step_no] }
                None => {
                    if enabled.is_empty() { obs.push("DEADLOCK".into()); break; }
                    if let Some((victim, after)) = stall {
                        let others: Vec<usize> = enabled.iter().copied().filter(|t| *t != victim).collect();
                        if victim_steps < after && enabled.contains(&victim) { victim_steps += 1; victim }
                        else if !others.is_empty() {
                            // the others run one after the other, each to completion where possible
                            match cur { Some(c) if others.contains(&c) => c, _ => others[rng.below(others.len() as u64) as usize] }
                        } else { victim }
                    } else {
                    // mostly keep running the current thread (few preemptions), sometimes switch
                    match cur { Some(c) if enabled.contains(&c) && rng.chance(2, 3) => c, _ => enabled[rng.below(enabled.len() as u64) as usize] }
                    }
                }
            };
            cur = Some(pick);
            step_no += 1;
            sched.push(pick);
            if !matches!(st.get(pick), Some(TState::Parked(_))) { obs.push(format!("{pick}:NOTRUNNABLE")); break; }
            {
                let mut s = ctl.states.lock().unwrap();
                s[pick] = TState::Running;
                ctl.cv.notify_all();
                let (s, to) = ctl.cv.wait_timeout_while(s, Duration::from_millis(1500), |s| s[pick] == TState::Running).unwrap();
                if to.timed_out() { drop(s); obs.push(format!("{pick}:TIMEOUT")); break; }
            }
            let now = ctl.states.lock().unwrap()[pick].clone();
            let nres = results.lock().unwrap()[pick].len();
            let where_ = match now { TState::Parked(p) => p, TState::Done => "done".into(), TState::Running => "?".into() };
            let (o, dangling) = observe(cas, dir);
            let last = results.lock().unwrap()[pick].last().cloned().unwrap_or_default();
            let lastd = if last.is_empty() { "-".to_string() } else { short(&last) };
            obs.push(format!("{pick}:{where_}:{nres}:{lastd}:{o}{}", if dangling { ":DANGLING" } else { "" }));
            if step_no > 400 { obs.push("TOOLONG".into()); break; }
        }
        // let everything run to completion (unparks in round-robin) so the scope can join
        for _ in 0..2000 {
            if obs.last().map_or(false, |o| o.ends_with("TIMEOUT") || o == "DEADLOCK") { break; }
            let st = ctl.states.lock().unwrap().clone();
            if st.iter().all(|s| *s == TState::Done) { break; }
            let mask = cas.verif_lock_mask() & 3;
            let dc: Vec<usize> = results.lock().unwrap().iter().map(|r| r.len()).collect();
            let next = (0..n).find(|&t| match &st[t] {
                TState::Parked(p) if p == "idle" => !(starts_with_state_read(t, dc[t]) && mask & 2 != 0),
                TState::Parked(p) => match wants(p) { 1 => mask & 1 == 0, 2 | 3 => mask & 2 == 0, _ => true }, _ => false });
            match next {
                Some(t) => {
                    let mut s = ctl.states.lock().unwrap();
                    s[t] = TState::Running;
                    ctl.cv.notify_all();
                    let (_s, to) = ctl.cv.wait_timeout_while(s, Duration::from_millis(1500), |s| s[t] == TState::Running).unwrap();
                    if to.timed_out() { break; }
                }
                None => std::thread::sleep(Duration::from_millis(5)),
            }
        }
        // last resort: detach the controller so parked threads run free
        *CTL.lock().unwrap() = None;
        let mut s = ctl.states.lock().unwrap();
        for x in s.iter_mut() { if matches!(x, TState::Parked(_)) { *x = TState::Running; } }
        ctl.cv.notify_all();
        // threads blocked inside the library for good (a real deadlock) can never be joined:
        // answer the request here and leave the process; the harness starts a new worker
        let (s, to) = ctl.cv.wait_timeout_while(s, Duration::from_secs(2), |s| s.iter().any(|x| *x != TState::Done)).unwrap();
        drop(s);
        if to.timed_out() {
            obs.push("HUNG".into());
            let line = format!("sched={} {}", sched.iter().map(|t| t.to_string()).collect::<Vec<_>>().join(","), obs.join(" | "));
            use std::io::Write;
            let mut o = std::io::stdout();
            let _ = writeln!(o, "{line}");
            let _ = o.flush();
            unsafe { libc::_exit(0) }
        }
    });
    *CTL.lock().unwrap() = None;
    *PROBE.lock().unwrap() = None;
    let res = results.lock().unwrap().iter().map(|v| v.join(",")).collect::<Vec<_>>().join("/");
    let (fin, dangling) = observe(cas, dir);
    // exactness at quiescence: files under cas/ == hashes referenced by the index
    let mut files: Vec<String> = Vec::new();
    fn walk2(p: &std::path::Path, acc: &mut Vec<String>, pre: String) {
        if let Ok(rd) = std::fs::read_dir(p) {
            for e in rd.flatten() {
                let n = e.file_name().to_string_lossy().into_owned();
                if e.path().is_dir() { walk2(&e.path(), acc, format!("{pre}{n}")); } else { acc.push(format!("{pre}{n}")); }
            }
        }
    }
    walk2(&dir.join("cas"), &mut files, String::new());
    files.sort();
    let mut refd: Vec<String> = cas.verif_try_entries().unwrap_or_default().iter().map(|(_, h, _)| hx(h.as_bytes())).collect();
    refd.sort();
    refd.dedup();
    obs.push(format!("final:{res}:{fin}{}:{}", if dangling { ":DANGLING" } else { "" }, if files == refd { "EXACT" } else { "INEXACT" }));
    (sched, obs.join(" | "))
}
