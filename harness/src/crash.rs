//! Crash / power-loss slices (C03, C06, C09, C20, C08): every history is re-run from scratch with
//! the process killed before its k-th mutating filesystem call, for every k of the targeted
//! operation (also the first open and recovery itself), then reopened by the real code.
use std::collections::{BTreeMap, BTreeSet};

use crate::keys::{gen_key, HKey, KINDS};
use crate::rng::Rng;
use crate::seq::Ctx;
use crate::sess::Sess;
use crate::wire::hx;
use crate::with_kind;
use crate::worker::chunks_of;

#[derive(Clone, Debug)]
enum AOp {
    Put(Vec<u8>, String),
    Remove(Vec<u8>),
    RemoveAll,
    Checkpoint,
    Reopen,
    Abort(Vec<u8>),
}

#[derive(Clone, Copy, PartialEq)]
pub enum Mode {
    Kill,
    PowerLoss,
}

fn line_of(op: &AOp, tx: u32) -> Vec<String> {
    match op {
        AOp::Put(k, spec) => vec![format!("put {} {}", hx(k), spec)],
        AOp::Remove(k) => vec![format!("remove {}", hx(k))],
        AOp::RemoveAll => vec!["rrange * *".to_string()],
        AOp::Checkpoint => vec!["checkpoint".to_string()],
        AOp::Reopen => vec!["close".to_string(), "open".to_string()],
        AOp::Abort(k) => vec![format!("begin {tx} {}", hx(k)), format!("write {tx} ~1:100"), format!("abort {tx}")],
    }
}

/// effect on the ordered-map oracle; returns the expected response of the (last) line
fn apply<K: HKey>(map: &mut BTreeMap<K, Vec<u8>>, op: &AOp) -> Option<String> {
    match op {
        AOp::Put(k, spec) => { map.insert(K::dec(k).unwrap(), chunks_of(spec).concat()); Some("ok".into()) }
        AOp::Remove(k) => Some(map.remove(&K::dec(k).unwrap()).is_some().to_string()),
        AOp::RemoveAll => { let n = map.len(); map.clear(); Some(n.to_string()) }
        AOp::Checkpoint => Some("ok".into()),
        AOp::Reopen => None,
        AOp::Abort(_) => Some("ok".into()),
    }
}

struct Plan {
    target: usize,          // index into ops; ops.len() = the final close; usize::MAX = the very first open
    k: u64,
    spec: Option<String>,   // power loss file set
    nested_k: Option<u64>,  // crash again during the recovery open
    second_k: Option<u64>,  // after recovery, WITHOUT cleaning up: retry the killed operation and kill it again
}

struct Run {
    events: Option<u64>,        // counted events of the target op (probe)
    recovery_events: Option<u64>,
    second_events: Option<u64>,
}

fn gen_history(kind: &str, rng: &mut Rng, big: bool) -> (Vec<Vec<u8>>, Vec<AOp>) {
    let nkeys = rng.range(2, 3);
    let mut keys = BTreeSet::new();
    while (keys.len() as u64) < nkeys { keys.insert(gen_key(kind, rng, 10)); }
    let mut keys: Vec<Vec<u8>> = keys.into_iter().collect();
    let mut ops = Vec::new();
    // a key so long that every record naming it outgrows the 8 KiB write buffer (a put's record is
    // key + 45 + 44 bytes): written past the buffer, synced — or not — on its own
    if !big && matches!(kind, "bytes" | "string") && rng.chance(1, 5) {
        keys[0] = vec![b'k'; *rng.pick(&[8103usize, 8150, 9000, 20_000])];
    }
    if big {
        // a range removal whose WAL record exceeds the 8 KiB BufWriter: ≥ 410 sixteen-byte keys
        return (keys, vec![AOp::RemoveAll]);
    }
    let contents = ["=58", "=5859", "=58,=59", "=-", "~1:9000", "=68656c6c6f"];
    for _ in 0..rng.range(2, 7) {
        let k = keys[rng.below(keys.len() as u64) as usize].clone();
        ops.push(match rng.below(12) {
            0..=5 => AOp::Put(k, contents[rng.below(contents.len() as u64) as usize].to_string()),
            6 | 7 => AOp::Remove(k),
            8 => AOp::RemoveAll,
            9 => AOp::Checkpoint,
            10 => AOp::Reopen,
            _ => AOp::Abort(k),
        });
    }
    (keys, ops)
}

#[allow(clippy::too_many_arguments)]
fn run_one<K: HKey>(s: &mut Sess, rng: &mut Rng, cfg: &str, keys: &[Vec<u8>], ops: &[AOp], big: bool, plan: Option<&Plan>, prop: &'static str) -> Run {
    let mut run = Run { events: None, recovery_events: None, second_events: None };
    s.begin_case(cfg);
    let mut c: Ctx<K> = Ctx { s, rng, map: BTreeMap::new(), keys: keys.to_vec(), open_txs: Vec::new(), next_tx: 0, prop };
    let arm = |c: &mut Ctx<K>, p: &Plan| {
        match &p.spec {
            Some(spec) => c.op(&format!("plossnext {} {}", p.k, spec)),
            None => c.op(&format!("crashnext {}", p.k)),
        };
    };
    // ---- first open (possibly the crash target)
    let mut crashed = false;
    let mut inflight: Option<BTreeMap<K, Vec<u8>>> = None;
    if let Some(p) = plan { if p.target == usize::MAX { arm(&mut c, p); } }
    let r = c.op("open");
    if r == "crashed" { crashed = true; }
    else if let Some(rest) = r.strip_prefix("nocrash events=") {
        run.events = rest.split(' ').next().and_then(|x| x.parse().ok());
    } else if !r.starts_with("ok") { c.s.out.oracle_fail(format!("{prop}: first open failed: {r}")); return run; }
    if big && !crashed {
        // bulk load 420 keys sharing one content (not observed individually)
        for i in 0..420u32 {
            let mut k = vec![b'k'; 12];
            k.extend_from_slice(&i.to_be_bytes());
            c.op(&format!("put {} =58", hx(&k)));
            c.map.insert(K::dec(&k).unwrap(), b"X".to_vec());
        }
        c.op("trace");
    }
    // ---- history
    if !crashed {
        for (i, op) in ops.iter().enumerate() {
            let lines = line_of(op, i as u32);
            let target = plan.is_some_and(|p| p.target == i);
            let before = c.map.clone();
            let want = apply(&mut c.map, op);
            for (j, l) in lines.iter().enumerate() {
                let last = j + 1 == lines.len();
                if target && last { arm(&mut c, plan.unwrap()); }
                let r = c.op(l);
                if target && last {
                    if r == "crashed" {
                        crashed = true;
                        inflight = Some(std::mem::replace(&mut c.map, before.clone()));
                    } else if let Some(rest) = r.strip_prefix("nocrash events=") {
                        run.events = rest.split(' ').next().and_then(|x| x.parse().ok());
                    }
                } else if last {
                    if let Some(w) = &want { if &r != w { c.s.out.oracle_fail(format!("{prop}: `{l}` returned `{r}`, oracle `{w}`")); } }
                }
            }
            if crashed { break; }
            c.op("trace");
            c.op("dump");
        }
    }
    // ---- final close as crash target
    if !crashed {
        if let Some(p) = plan { if p.target == ops.len() { arm(&mut c, p); } }
        let r = c.op("close");
        if r == "crashed" { crashed = true; }
        else if let Some(rest) = r.strip_prefix("nocrash events=") { run.events = rest.split(' ').next().and_then(|x| x.parse().ok()); }
        c.op("trace");
        c.op("dump");
    }
    if !crashed { return run; }
    c.s.out.count("crash.hit");
    // ---- crash image, recovery (possibly crashing again), checks
    c.op("trace");
    let image = c.op("dump");
    for e in image.split(' ').find_map(|f| f.strip_prefix("cas=")).unwrap_or("_").split(',') {
        let p: Vec<&str> = e.split(':').collect();
        if p.len() == 3 && p[0] != p[2] {
            c.s.out.oracle_fail(format!("C06: at the crash point cas file {} holds content hashing to {}", p[0], p[2]));
        }
    }
    if let Some(k2) = plan.and_then(|p| p.nested_k) {
        c.op(&format!("crashnext {k2}"));
        let r = c.op("open");
        if let Some(rest) = r.strip_prefix("nocrash events=") {
            run.recovery_events = rest.split(' ').next().and_then(|x| x.parse().ok());
            c.op("close");
        } else if r == "crashed" { c.s.out.count("crash.nested"); }
        c.op("trace");
        c.op("dump");
    }
    // C20: what the files say, read without the library (snapshot + records above its version, in
    // version order) — recovery must show exactly that
    let described = crate::reader::described_state(&c.s.dir);
    let r = c.op("open");
    if let Some(rest) = r.strip_prefix("ok ") {
        // recovered view: acknowledged history, or that plus the in-flight operation
        let got = c.op("iter");
        match &described {
            Some(d) => {
                c.s.out.count("c20.independent-reader-judged");
                if crate::reader::as_set(d) != crate::reader::iter_set(&got) {
                    c.s.out.oracle_fail(format!("C20: recovery shows `{got}`, but the files of the crash image (snapshot + records above its version, in version order) describe {:?}", crate::reader::as_set(d)));
                }
            }
            None => c.s.out.count("c20.independent-reader-abstains"),
        }
        let fmt = |m: &BTreeMap<K, Vec<u8>>| {
            let v: Vec<String> = m.iter().map(|(k, b)| format!("{}:{}:{}", hx(&k.enc()), hx(blake3::hash(b).as_bytes()), b.len())).collect();
            if v.is_empty() { "_".to_string() } else { v.join(";") }
        };
        let acked = fmt(&c.map);
        let with_inflight = inflight.as_ref().map(fmt);
        if got == acked { c.s.out.count("recovered.acked"); }
        else if Some(&got) == with_inflight.as_ref() { c.map = inflight.take().unwrap(); c.s.out.count("recovered.acked+inflight"); }
        else {
            c.s.out.oracle_fail(format!("{prop}: after the crash the store shows `{got}`; acknowledged = `{acked}`, with in-flight = `{with_inflight:?}`"));
            return run;
        }
        // C08: the scan is exact on this crash image
        let d = c.op("dump");
        let cas = d.split(' ').find_map(|f| f.strip_prefix("cas=")).unwrap_or("_");
        let files: BTreeSet<String> = if cas == "_" { BTreeSet::new() } else { cas.split(',').map(|e| e.split(':').next().unwrap().to_string()).collect() };
        let refd: BTreeSet<String> = c.map.values().map(|b| hx(blake3::hash(b).as_bytes())).collect();
        let staging = d.split(' ').find_map(|f| f.strip_prefix("staging=")).unwrap_or("0");
        let want = format!("orphans={} missing={} corrupted=0 staging={} total={} invalid=0", files.difference(&refd).count(), refd.difference(&files).count(), staging, files.len());
        if rest != want { c.s.out.oracle_fail(format!("C08: scan after crash reported `{rest}`, directory/index comparison gives `{want}`")); }
        c.observe(false);
        // "further operations, crashes and reopens keep satisfying the same guarantee": retry the
        // killed operation on the recovered store WITHOUT cleaning up first (its leftovers — an
        // unreferenced blob, a staging file — are still there) and kill it again
        if let Some(k2) = plan.and_then(|p| p.second_k) {
            let retry = match plan.map(|p| p.target) {
                Some(t) if t < ops.len() && matches!(ops[t], AOp::Put(..) | AOp::Remove(..) | AOp::RemoveAll) => ops[t].clone(),
                _ => AOp::Put(c.keys[0].clone(), "=5859".to_string()),
            };
            let line = line_of(&retry, 0).pop().unwrap();
            let before = c.map.clone();
            apply(&mut c.map, &retry);
            c.op(&format!("crashnext {k2}"));
            let r2 = c.op(&line);
            if r2 == "crashed" {
                c.s.out.count("crash.second");
                c.op("trace");
                c.op("dump");
                let r3 = c.op("open");
                if r3.starts_with("ok ") {
                    let got = c.op("iter");
                    if got == fmt(&before) { c.map = before; c.s.out.count("recovered2.acked"); }
                    else if got == fmt(&c.map) { c.s.out.count("recovered2.acked+inflight"); }
                    else {
                        c.s.out.oracle_fail(format!("{prop}: after a second crash (retry of the killed operation, no clean-up in between) the store shows `{got}`; acknowledged = `{}`, with in-flight = `{}`", fmt(&before), fmt(&c.map)));
                        return run;
                    }
                    c.observe(false);
                } else {
                    c.s.out.oracle_fail(format!("{prop}: open after a second crash failed: `{r3}`"));
                    return run;
                }
            } else if let Some(rest) = r2.strip_prefix("nocrash events=") {
                run.second_events = rest.split(' ').next().and_then(|x| x.parse().ok());
                c.op("trace");
                c.op("dump");
                c.observe(false);
            } else {
                c.op("trace");
                c.op("dump");
            }
        }
        // clean-up restores exactness (C08 → C07) — or nobody cleans up: the store must stay usable
        // with the leftovers of the killed operations lying around (StoreLive of Props/C03Live)
        let cleanup = !plan.is_some_and(|p| p.second_k.is_some_and(|k2| k2 % 2 == 1));
        if cleanup {
            let r = c.op("delete_orphans");
            if !r.contains("errors=0") { c.s.out.oracle_fail(format!("C08: delete_orphans reported `{r}`")); }
            c.op("traceset");
            c.observe(true);
        } else { c.s.out.count("recovered.no-cleanup"); }
        // the recovered store is fully usable
        let kb = c.keys[0].clone();
        c.op(&format!("put {} =7a7a", hx(&kb)));
        c.map.insert(K::dec(&kb).unwrap(), b"zz".to_vec());
        c.observe(cleanup);
        c.op("checkpoint");
        c.op("close");
        c.op("trace");
        // what the next open's scan must report, from the directory and the oracle map alone
        let d = c.op("dump");
        let cas = d.split(' ').find_map(|f| f.strip_prefix("cas=")).unwrap_or("_");
        let files: BTreeSet<String> = if cas == "_" { BTreeSet::new() } else { cas.split(',').map(|e| e.split(':').next().unwrap().to_string()).collect() };
        let refd: BTreeSet<String> = c.map.values().map(|b| hx(blake3::hash(b).as_bytes())).collect();
        let staging = d.split(' ').find_map(|f| f.strip_prefix("staging=")).unwrap_or("0");
        let want = format!("ok orphans={} missing=0 corrupted=0 staging={} total={} invalid=0", files.difference(&refd).count(), staging, files.len());
        let r = c.op("open");
        if r != want || (cleanup && !r.starts_with("ok orphans=0 missing=0 corrupted=0 staging=0")) {
            c.s.out.oracle_fail(format!("{prop}: reopen after recovery reported `{r}`, directory/index comparison gives `{want}`"));
        }
        c.observe(cleanup);
        c.op("close");
        c.op("trace");
    } else {
        c.s.out.oracle_fail(format!("{prop}: open after a crash failed: `{r}` (crash image: {image})"));
    }
    run
}

/// a history that walks the segment ids across a digit boundary (…, 8, 9, 10): two operations per
/// segment, every operation overwrites one of two keys with a fresh content — the last three the
/// same key — so that the order in which recovery reads segments 9 and 10 matters
fn gen_long_history(kind: &str, rng: &mut Rng) -> (Vec<Vec<u8>>, Vec<AOp>) {
    let mut keys = BTreeSet::new();
    while keys.len() < 2 { keys.insert(gen_key(kind, rng, 10)); }
    let keys: Vec<Vec<u8>> = keys.into_iter().collect();
    let n = 21u64; // version 21 is the first record of segment 10 (two per segment), next to segment 9
    let ops = (0..n).map(|i| AOp::Put(keys[if i >= 18 { 0 } else { (i % 2) as usize }].clone(), format!("={:02x}{:02x}", 0x41 + i, 0x61 + i))).collect();
    (keys, ops)
}

fn family<K: HKey>(s: &mut Sess, rng: &mut Rng, mode: Mode, prop: &'static str, big: bool, thorough: bool, long: bool) {
    let n_wal = if big { 10_000 } else if long { 2 } else { *rng.pick(&[1u64, 2, 2, 3, 5]) };
    let sync = mode == Mode::PowerLoss || rng.chance(3, 4);
    let cfg = format!("cfg kind={} n={} sync={} pre=0", K::KIND, n_wal, sync as u8);
    let (keys, ops) = if long { gen_long_history(K::KIND, rng) } else { gen_history(K::KIND, rng, big) };
    // targets: the first open (rarely), one or two operations, the final close (rarely)
    let mut targets: Vec<usize> = Vec::new();
    if rng.chance(1, 8) { targets.push(usize::MAX); }
    targets.push(ops.len() - 1);
    if ops.len() > 1 && rng.chance(1, 2) { targets.push(rng.below(ops.len() as u64 - 1) as usize); }
    // the final close: rarely under kills; ALWAYS under power loss — its cut 0 is the power loss right
    // after the last operation was acknowledged (what that operation left unsynced is lost then, and
    // no cut inside the operation shows it)
    if mode == Mode::PowerLoss || rng.chance(1, 10) { targets.push(ops.len()); }
    for target in targets {
        let probe = Plan { target, k: 1_000_000, spec: None, nested_k: None, second_k: None };
        let r = run_one::<K>(s, rng, &cfg, &keys, &ops, big, Some(&probe), prop);
        let Some(n) = r.events else { continue };
        s.out.add("crash.points", n);
        for k in 0..n {
            let spec = if mode == Mode::PowerLoss {
                Some(match rng.below(4) {
                    0 => "all".to_string(),
                    1 => format!("seg:{}", rng.below(3)),
                    2 => "index".to_string(),
                    _ => "all".to_string(),
                })
            } else { None };
            let plan = Plan { target, k, spec: spec.clone(), nested_k: None, second_k: None };
            run_one::<K>(s, rng, &cfg, &keys, &ops, big, Some(&plan), prop);
            // second crash: retry the killed operation after recovery, kill it again
            if mode == Mode::Kill && !big && (thorough || rng.chance(1, 5)) {
                let probe2 = Plan { target, k, spec: None, nested_k: None, second_k: Some(1_000_000) };
                if let Some(m) = run_one::<K>(s, rng, &cfg, &keys, &ops, big, Some(&probe2), prop).second_events {
                    let ks: Vec<u64> = if thorough && m <= 12 { (0..m).collect() } else { vec![rng.below(m.max(1))] };
                    for k2 in ks {
                        let plan = Plan { target, k, spec: None, nested_k: None, second_k: Some(k2) };
                        run_one::<K>(s, rng, &cfg, &keys, &ops, big, Some(&plan), prop);
                    }
                }
            }
            // nested: crash again inside recovery, at every point (thorough) or one point (quick)
            if mode == Mode::Kill && (thorough || rng.chance(1, 6)) {
                let probe2 = Plan { target, k, spec: None, nested_k: Some(1_000_000), second_k: None };
                if let Some(m) = run_one::<K>(s, rng, &cfg, &keys, &ops, big, Some(&probe2), prop).recovery_events {
                    let ks: Vec<u64> = if thorough { (0..m).collect() } else { vec![rng.below(m.max(1))] };
                    for k2 in ks {
                        let plan = Plan { target, k, spec: None, nested_k: Some(k2), second_k: None };
                        run_one::<K>(s, rng, &cfg, &keys, &ops, big, Some(&plan), prop);
                    }
                }
            }
        }
    }
}

pub fn crashes(s: &mut Sess, rng: &mut Rng, n: u64, mode: Mode, prop: &'static str, thorough: bool) {
    for i in 0..n {
        // C03 "during first-time initialisation": the pre-created tree (oracle-only probe, real code)
        if mode == Mode::Kill && prop == "C03" && i % 20 == 9 { crate::gate::precreate_crash_probe(s, rng); }
        let big = i % 25 == 7;
        let long = i % 25 == 13;
        let kind = if big { "bytes" } else { KINDS[rng.below(KINDS.len() as u64) as usize] };
        s.out.count(if big { "history.big-range-removal" } else if long { "history.segment-ids-9-10-11" } else { "history.small" });
        with_kind!(kind, family(s, rng, mode, prop, big, thorough, long));
    }
}
