//! Concurrent-program slices (C04, C05, C07-conc, C08-cleanup, C13-conc, C15): small programs of
//! 2–3 threads over few keys and few contents, with pre-existing shared blobs and planted
//! orphans, executed under pseudo-random schedules with few preemptions (forced through the
//! yield points), compared step by step with the Lean `Conc` model and judged by:
//!   no TIMEOUT/DEADLOCK (C15) · never an indexed key without its blob (C04) · reads never fail
//!   and the run is linearizable (C05) · exact CAS directory at the end (C07) ·
//!   clean-up never removes a needed blob (C08).
use std::collections::BTreeMap;

use crate::rng::Rng;
use crate::sess::Sess;
use crate::wire::hx;

#[derive(Clone, Debug)]
enum Op {
    Put(Vec<u8>, Vec<u8>),
    Abort(Vec<u8>, Vec<u8>),
    Remove(Vec<u8>),
    RemoveAll,
    Get(Vec<u8>),
    GetRange(Vec<u8>, u64, u64),
    Reader(Vec<u8>),
    Ckpt,
    Cleanup(Vec<String>),
}

fn text(op: &Op) -> String {
    match op {
        Op::Put(k, c) => format!("put:{}:={}", hx(k), hx(c)),
        Op::Abort(k, c) => format!("abort:{}:={}", hx(k), hx(c)),
        Op::Remove(k) => format!("remove:{}", hx(k)),
        Op::RemoveAll => "rrange:*:*".to_string(),
        Op::Get(k) => format!("get:{}", hx(k)),
        Op::Reader(k) => format!("reader:{}", hx(k)),
        Op::GetRange(k, s, e) => format!("grange:{}:{}:{}", hx(k), s, e),
        Op::Ckpt => "ckpt".to_string(),
        Op::Cleanup(hs) => format!("cleanup:{}", hs.join(",")),
    }
}

struct Event {
    thread: usize,
    op: Op,
    inv: usize,
    resp: usize,
    result: String,
}

/// brute-force linearizability check (≤ 7 operations): is there an order respecting real time in
/// which every read returns the map's value at its point, and which ends in a state whose digest
/// is `final_digest`?  `remove` and `remove_range` are documented as not strictly atomic: they
/// take effect in two points inside the call — a scan (which keys are present: this is what they
/// report) and, later, the removal of exactly the scanned keys.
fn linearizable(initial: &BTreeMap<Vec<u8>, Vec<u8>>, evs: &[Event], final_digest: &str) -> bool {
    fn digest(m: &BTreeMap<Vec<u8>, Vec<u8>>) -> String {
        let s = m.iter().map(|(k, c)| format!("{}:{}:{}", hx(k), hx(blake3::hash(c).as_bytes()), c.len())).collect::<Vec<_>>().join(";");
        hx(&blake3::hash(s.as_bytes()).as_bytes()[..4])
    }
    // phase: 0 = not started, 1 = scanned (two-point operations only), 2 = done
    fn rec(m: &mut BTreeMap<Vec<u8>, Vec<u8>>, evs: &[Event], phase: &mut Vec<u8>, scanned: &mut Vec<Vec<Vec<u8>>>, fd: &str) -> bool {
        if phase.iter().all(|p| *p == 2) { return digest(m) == fd; }
        // an operation may take a point only if it was invoked before every unfinished operation responded
        let min_resp = evs.iter().enumerate().filter(|(i, _)| phase[*i] < 2).map(|(_, e)| e.resp).min().unwrap();
        for i in 0..evs.len() {
            if phase[i] == 2 || evs[i].inv > min_resp { continue; }
            let e = &evs[i];
            let saved = m.clone();
            let saved_phase = phase[i];
            let saved_scan = scanned[i].clone();
            let ok = match (&e.op, phase[i]) {
                (Op::Put(k, c), _) => { m.insert(k.clone(), c.clone()); phase[i] = 2; true }
                (Op::Remove(k), 0) => {
                    let present = m.contains_key(k);
                    scanned[i] = if present { vec![k.clone()] } else { vec![] };
                    // an absent key ends the call at once
                    phase[i] = if present { 1 } else { 2 };
                    e.result == format!("bool_{present}")
                }
                (Op::RemoveAll, 0) => {
                    scanned[i] = m.keys().cloned().collect();
                    phase[i] = if scanned[i].is_empty() { 2 } else { 1 };
                    e.result == format!("count_{}", scanned[i].len())
                }
                (Op::Remove(_), _) | (Op::RemoveAll, _) => { for k in &scanned[i] { m.remove(k); } phase[i] = 2; true }
                (Op::Get(k), _) | (Op::Reader(k), _) => { phase[i] = 2; match m.get(k) {
                    None => e.result == "absent",
                    Some(c) => e.result == format!("found_{}", hx(c)),
                } }
                (Op::GetRange(k, s, en), _) => { phase[i] = 2; match m.get(k) {
                    None => e.result == "absent",
                    Some(c) => {
                        let l = c.len() as u64;
                        e.result == format!("found_{}", hx(&c[(*s).min(l) as usize..(*en).min(l).max((*s).min(l)) as usize]))
                    }
                } }
                _ => { phase[i] = 2; true }
            };
            if ok && rec(m, evs, phase, scanned, fd) { return true; }
            *m = saved;
            phase[i] = saved_phase;
            scanned[i] = saved_scan;
        }
        false
    }
    let mut m = initial.clone();
    rec(&mut m, evs, &mut vec![0u8; evs.len()], &mut vec![Vec::new(); evs.len()], final_digest)
}

pub fn conc_cases(s: &mut Sess, rng: &mut Rng, n: u64, prop: &'static str) {
    let contents: [&[u8]; 3] = [b"X", b"YY", b"ZZZ"];
    for case in 0..n {
        let nkeys = rng.range(1, 3) as usize;
        let keys: Vec<Vec<u8>> = (0..nkeys).map(|i| vec![b'a' + i as u8]).collect();
        let n_wal = if rng.chance(1, 4) { 2 } else { 10_000 };
        s.begin_case(&format!("cfg kind=bytes n={n_wal} sync=1 pre=0"));
        // planted orphans (content not referenced by any key) for clean-up races
        let with_orphan = case % 3 == 0;
        if with_orphan { s.op(&format!("plant {}", hx(contents[2]))); }
        let r = s.op("open");
        if !r.starts_with("ok") { s.out.oracle_fail(format!("{prop}: open failed: {r}")); continue; }
        let mut initial: BTreeMap<Vec<u8>, Vec<u8>> = BTreeMap::new();
        for k in &keys {
            if rng.chance(2, 3) {
                let c = contents[rng.below(2) as usize];
                s.op(&format!("put {} ={}", hx(k), hx(c)));
                initial.insert(k.clone(), c.to_vec());
            }
        }
        let orphans: Vec<String> = if with_orphan {
            let o = s.op("orphan_order");
            if o == "_" || o == "nostats" { vec![] } else { o.split(',').map(|x| x.to_string()).collect() }
        } else { vec![] };
        // programs
        let big_race = case % 39 == 1;
        let nthreads = if big_race { 2 } else if rng.chance(1, 3) { 3 } else { 2 };
        let mut programs: Vec<Vec<Op>> = Vec::new();
        let mut total_ops = 0;
        // a third of the cases: readers against writers of ONE key (reads racing with a replacing
        // put of longer/shorter content, a remove, a remove_range)
        let rw_race = case % 3 == 1;
        // … and rarely the same race over LARGE contents (a read path may change above some size):
        // a 1 MiB value read while it is replaced by a longer one; the reader is started, held back
        // until the writer is done, and finishes last
        if big_race {
            let k = keys[0].clone();
            let old = vec![b'a'; *rng.pick(&[1usize << 20, (1 << 20) - 1, 200_000])];
            let new = vec![b'b'; old.len() + 65_536];
            s.op(&format!("put {} ={}", hx(&k), hx(&old)));
            initial.insert(k.clone(), old);
            programs.push(vec![if rng.chance(2, 3) { Op::Get(k.clone()) } else { Op::Reader(k.clone()) }]);
            programs.push(vec![Op::Put(k.clone(), new)]);
            total_ops += 2;
            s.out.count("conc.rw-race-large-contents");
        }
        if rw_race && !big_race {
            let k = keys[0].clone();
            // contents of clearly different lengths, so that a range can start inside the old
            // content and beyond the new one (and the other way round)
            let rcontents: [&[u8]; 3] = [b"X", b"YYY", b"ZZZZZZ"];
            {
                let c = rcontents[1 + rng.below(2) as usize];
                s.op(&format!("put {} ={}", hx(&k), hx(c)));
                initial.insert(k.clone(), c.to_vec());
            }
            for t in 0..nthreads {
                let mut prog = Vec::new();
                for _ in 0..(if t == 0 { 2 } else { rng.range(1, 2) }) {
                    let c = rcontents[rng.below(3) as usize].to_vec();
                    let op = if t == 0 {
                        if rng.chance(2, 3) { let st = rng.below(7); Op::GetRange(k.clone(), st, *rng.pick(&[st, st + 1, st + 2, 6, 100, u64::MAX / 2, u64::MAX])) } else if rng.chance(1, 2) { Op::Get(k.clone()) } else { Op::Reader(k.clone()) }
                    } else {
                        match rng.below(8) { 0..=4 => Op::Put(k.clone(), c), 5 => Op::Remove(k.clone()), 6 => Op::RemoveAll, _ => Op::Get(k.clone()) }
                    };
                    prog.push(op);
                    total_ops += 1;
                }
                programs.push(prog);
            }
            s.out.count("conc.rw-race-cases");
        }
        for t in 0..(if rw_race { 0 } else { nthreads }) {
            if big_race { break; }
            let mut prog = Vec::new();
            let nops = if total_ops >= 5 { 1 } else { rng.range(1, 2) };
            for _ in 0..nops {
                let k = keys[rng.below(keys.len() as u64) as usize].clone();
                let c = contents[rng.below(3) as usize].to_vec();
                let op = match rng.below(14) {
                    0..=4 => Op::Put(k, c),
                    5 | 6 => Op::Remove(k),
                    7 => Op::RemoveAll,
                    8 => Op::Get(k),
                    9 => Op::Reader(k),
                    10 => { let s = rng.below(3); Op::GetRange(k, s, s + *rng.pick(&[0u64, 1, 2, 100, u64::MAX / 2])) }
                    11 => Op::Ckpt,
                    12 => Op::Abort(k, c),
                    _ => if !orphans.is_empty() && t == 0 && prog.is_empty() { Op::Cleanup(orphans.clone()) } else { Op::Get(k) },
                };
                prog.push(op);
                total_ops += 1;
            }
            programs.push(prog);
        }
        if with_orphan && !orphans.is_empty() && !programs.iter().flatten().any(|o| matches!(o, Op::Cleanup(_))) {
            programs[0].insert(0, Op::Cleanup(orphans.clone()));
        }
        for p in programs.iter().flatten() {
            s.out.count(match p { Op::Put(..) => "cop.put", Op::Abort(..) => "cop.abort", Op::Remove(_) => "cop.remove", Op::RemoveAll => "cop.rrange", Op::Get(_) => "cop.get", Op::Reader(_) => "cop.reader", Op::GetRange(..) => "cop.getrange", Op::Ckpt => "cop.ckpt", Op::Cleanup(_) => "cop.cleanup" });
        }
        // same-key / same-content concurrency statistics
        let puts: Vec<(usize, &Vec<u8>, &Vec<u8>)> = programs.iter().enumerate().flat_map(|(t, p)| p.iter().filter_map(move |o| if let Op::Put(k, c) = o { Some((t, k, c)) } else { None })).collect();
        if puts.iter().any(|a| puts.iter().any(|b| a.0 != b.0 && a.1 == b.1)) { s.out.count("conc.same-key-puts"); }
        if puts.iter().any(|a| puts.iter().any(|b| a.0 != b.0 && a.2 == b.2)) { s.out.count("conc.same-content-puts"); }
        let progs_text: Vec<String> = programs.iter().map(|p| p.iter().map(text).collect::<Vec<_>>().join(";")).collect();
        let policy = if big_race { "stall0" } else if rng.chance(1, 2) { if rw_race && rng.chance(2, 3) { "stall0" } else { "stall" } } else { "rand" };
        s.out.count(match policy { "stall" => "conc.policy-stall", "stall0" => "conc.policy-stall0", _ => "conc.policy-rand" });
        let obs = s.op(&format!("conc {policy}={} {}", rng.next() % 1_000_000, progs_text.join(" ")));
        // ---- oracles
        let steps: Vec<&str> = obs.split(" | ").collect();
        s.out.add("conc.steps", steps.len() as u64);
        if obs.contains("HUNG") || obs.contains("TIMEOUT") || obs.contains("DEADLOCK") || obs.contains("TOOLONG") || obs.contains("NOTRUNNABLE") {
            s.out.oracle_fail(format!("C15: a scheduled call did not complete: {}", steps.iter().find(|x| x.contains("HUNG") || x.contains("TIMEOUT") || x.contains("DEADLOCK") || x.contains("TOOLONG") || x.contains("NOTRUNNABLE")).unwrap_or(&"")));
            continue;
        }
        if let Some(st) = steps.iter().find(|x| x.contains("DANGLING")) {
            s.out.oracle_fail(format!("C04: an indexed key has no blob file at step `{st}`"));
        }
        let Some(fin) = steps.last().and_then(|l| l.strip_prefix("final:")) else { continue };
        let f: Vec<&str> = fin.split(':').collect();
        let results: Vec<Vec<&str>> = f[0].split('/').map(|r| if r.is_empty() { vec![] } else { r.split(',').collect() }).collect();
        for r in results.iter().flatten() {
            if r.starts_with("err_") || *r == "panic" {
                s.out.oracle_fail(format!("{}: a concurrent call failed with `{r}`", if r.contains("missing") { "C05" } else { prop }));
            }
        }
        if !fin.ends_with(":EXACT") {
            s.out.oracle_fail(format!("C07: at the end of the schedule cas/ is not exactly the referenced contents: {fin}"));
        }
        // linearizability (C05): reconstruct invocation/response steps per operation
        let mut evs: Vec<Event> = Vec::new();
        let mut started: Vec<Option<usize>> = vec![None; nthreads];
        let mut done_count = vec![0usize; nthreads];
        for (i, st) in steps.iter().enumerate() {
            let p: Vec<&str> = st.split(':').collect();
            if p.len() < 3 || p[0] == "final" { continue; }
            let Ok(t) = p[0].parse::<usize>() else { continue };
            let nres: usize = p[2].parse().unwrap_or(0);
            if started[t].is_none() { started[t] = Some(i); }
            if nres > done_count[t] {
                let op = programs[t][done_count[t]].clone();
                let result = results.get(t).and_then(|r| r.get(done_count[t])).unwrap_or(&"").to_string();
                evs.push(Event { thread: t, op, inv: started[t].unwrap(), resp: i, result });
                done_count[t] = nres;
                started[t] = None;
            }
        }
        let _ = evs.iter().map(|e| e.thread).count();
        let complete = (0..nthreads).all(|t| done_count[t] == programs[t].len());
        if complete && evs.len() <= 7 {
            let idx_digest = f.get(2).copied().unwrap_or("");
            if !linearizable(&initial, &evs, idx_digest) {
                s.out.oracle_fail(format!("C05: no linearization explains the results {} and the final index", f[0]));
            }
            s.out.count("conc.linearizability-checked");
        }
    }
}
