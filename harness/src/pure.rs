//! Pure-function correspondence slices: codecs (C16), range reads (C17), hash/path (C18),
//! WAL framing under damage (C10, frame level).
use std::collections::BTreeMap;
use std::num::NonZeroU64;
use std::path::Path;

use cassadilia::{verif, BlobHash, IndexStateItem, WalOpRaw};

use crate::alloc::measure;
use crate::keys::{gen_key, gen_maybe_key, HKey, KINDS};
use crate::out::Out;
use crate::rng::Rng;
use crate::wire::{hx, hxlist};
use crate::with_kind;

fn h32(rng: &mut Rng, pool: u64) -> [u8; 32] {
    // few distinct hashes so that sharing is frequent
    let n = rng.below(pool.max(1)) as u8;
    let mut h = [0u8; 32];
    for (i, b) in h.iter_mut().enumerate() {
        *b = n.wrapping_mul(31).wrapping_add(i as u8 ^ n);
    }
    h
}

fn size_val(rng: &mut Rng) -> u64 {
    match rng.below(8) {
        0 => 0,
        1 => u64::MAX,
        2 => 1 << 32,
        3 => (1 << 32) - 1,
        _ => rng.below(100_000),
    }
}

fn show_raw(op: &WalOpRaw) -> String {
    match op {
        WalOpRaw::Put { key_bytes, hash, size } => {
            format!("put {} {} {}", hx(key_bytes), hx(hash.as_bytes()), size)
        }
        WalOpRaw::Remove { keys_bytes } => format!("remove {}", hxlist(keys_bytes)),
    }
}

fn gen_raw_op(rng: &mut Rng, out: &mut Out) -> WalOpRaw {
    if rng.chance(1, 2) {
        let klen = match rng.below(10) {
            0 => 0,
            1 => 70_000,
            2 => 8_200,
            _ => rng.below(40) as usize,
        };
        out.count(if klen == 0 { "walop.put.emptykey" } else if klen > 8000 { "walop.put.bigkey" } else { "walop.put" });
        WalOpRaw::Put { key_bytes: rng.bytes(klen), hash: BlobHash(h32(rng, 200)), size: size_val(rng) }
    } else {
        // counts: the usual few, 600, and — rarely — the round numbers where a cap could sit
        let n = match rng.below(40) {
            0..=3 => 0,
            4..=6 => 600,
            7 => *rng.pick(&[255usize, 256, 257]),
            8 => *rng.pick(&[1023usize, 1024, 1025]),
            9 => *rng.pick(&[4095usize, 4096, 4097, 10_000]),
            _ => rng.below(6) as usize,
        };
        out.count(if n == 0 { "walop.remove.nokeys" } else if n > 100 { "walop.remove.manykeys" } else { "walop.remove" });
        let keys = (0..n)
            .map(|_| {
                let l = if rng.chance(1, 6) { 0 } else { rng.below(20) as usize };
                rng.bytes(l)
            })
            .collect();
        WalOpRaw::Remove { keys_bytes: keys }
    }
}

fn mutate(rng: &mut Rng, b: &[u8], out: &mut Out) -> Vec<u8> {
    let mut v = b.to_vec();
    match rng.below(6) {
        0 if !v.is_empty() => {
            let n = rng.below(v.len() as u64) as usize;
            v.truncate(n);
            out.count("mut.truncate");
        }
        1 => {
            let n = rng.below(9) as usize;
            v.extend(rng.bytes(n));
            out.count("mut.extend");
        }
        2 if !v.is_empty() => {
            let i = rng.below(v.len() as u64) as usize;
            v[i] ^= 1 << rng.below(8);
            out.count("mut.bitflip");
        }
        3 if v.len() >= 5 => {
            // plant an extreme length / count field right after the tag or header
            let pos = *rng.pick(&[1usize, 8, 12]);
            let val: u32 = *rng.pick(&[0, 1, 0xffff_ffff, 0x7fff_ffff, v.len() as u32, v.len() as u32 + 1, (v.len() as u32).saturating_sub(1)]);
            if pos + 4 <= v.len() {
                v[pos..pos + 4].copy_from_slice(&val.to_le_bytes());
            }
            out.count("mut.lenfield");
        }
        4 => {
            let n = rng.below(64) as usize;
            v = rng.bytes(n);
            out.count("mut.random");
        }
        _ => {
            if !v.is_empty() {
                v[0] = *rng.pick(&[0u8, 1, 2, 0xff]);
            }
            out.count("mut.tag");
        }
    }
    v
}

fn real_walop_de(bytes: &[u8], out: &mut Out) -> String {
    out.about_to(&format!("walop_de {}", hx(bytes)));
    let (r, peak, largest) = measure(|| verif::deserialize_wal_op_raw(bytes));
    // C16: never allocates more than the size of its input (plus Vec growth slack: a Vec of
    // `n` keys doubles, so allow 2x the 24-byte headers; bounded by a small linear function)
    let bound = 3 * bytes.len() + 256 + bytes.len() / 4 * 48;
    if peak > bound {
        out.oracle_fail(format!("C16 alloc: walop decoder peak {peak} B (largest {largest}) for {} B input", bytes.len()));
    }
    match r {
        Ok(op) => format!("ok {}", show_raw(&op)),
        Err(c) => format!("err {c}"),
    }
}

fn real_index_de(bytes: &[u8], out: &mut Out) -> String {
    out.about_to(&format!("index_de {}", hx(bytes)));
    let (r, peak, largest) = measure(|| verif::deserialize_index_state(bytes));
    let bound = 4 * bytes.len() + 1024;
    if peak > bound {
        out.oracle_fail(format!("C16 alloc: index decoder peak {peak} B (largest {largest}) for {} B input", bytes.len()));
    }
    match r {
        Ok((map, ver)) => {
            let es: Vec<String> = map
                .iter()
                .map(|(k, i)| format!("{}:{}:{}", hx(k), hx(i.blob_hash.as_bytes()), i.blob_size))
                .collect();
            format!("ok {} {}", ver.map_or(0, |v| v.get()), if es.is_empty() { "_".into() } else { es.join(";") })
        }
        Err(c) => format!("err {c}"),
    }
}

fn index_ser_case<K: HKey>(rng: &mut Rng, out: &mut Out) {
    let n = match rng.below(8) {
        0 => 0,
        1 => 40,
        _ => rng.below(6),
    };
    let mut map: BTreeMap<K, IndexStateItem> = BTreeMap::new();
    for _ in 0..n {
        let kb = gen_key(K::KIND, rng, 40);
        let k = K::dec(&kb).expect("generated key must be valid");
        map.insert(k, IndexStateItem { blob_hash: BlobHash(h32(rng, 8)), blob_size: size_val(rng) });
    }
    let ver = match rng.below(4) {
        0 => 0,
        1 => u64::MAX,
        _ => rng.below(1000),
    };
    let es: Vec<String> = map
        .iter()
        .map(|(k, i)| format!("{}:{}:{}", hx(&k.enc()), hx(i.blob_hash.as_bytes()), i.blob_size))
        .collect();
    let bytes = verif::serialize_index_state(&map, NonZeroU64::new(ver));
    out.push(
        format!("index_ser {} {}", ver, if es.is_empty() { "_".into() } else { es.join(";") }),
        hx(&bytes),
    );
    out.count(&format!("index_ser.{}", K::KIND));
    // decode what was encoded (round trip on the real side, and the model must agree)
    let r = real_index_de(&bytes, out);
    out.push(format!("index_de {}", hx(&bytes)), r);
    // oracle: round trip
    if let Ok((m2, v2)) = verif::deserialize_index_state(&bytes) {
        let same = m2.len() == map.len()
            && map.iter().all(|(k, i)| m2.get(&k.enc()) == Some(i))
            && v2 == NonZeroU64::new(ver);
        if !same {
            out.oracle_fail("C16 round-trip: index snapshot decoded differently".into());
        }
    } else {
        out.oracle_fail("C16 round-trip: index snapshot failed to decode".into());
    }
    let m = mutate(rng, &bytes, out);
    let r = real_index_de(&m, out);
    out.push(format!("index_de {}", hx(&m)), r);
}

fn key_case<K: HKey>(rng: &mut Rng, out: &mut Out) {
    // validity of arbitrary bytes
    let b = gen_maybe_key(K::KIND, rng);
    let v = K::dec(&b);
    out.push(format!("key_valid {} {}", K::KIND, hx(&b)), if v.is_some() { "1" } else { "0" }.into());
    out.count(if v.is_some() { "key.valid" } else { "key.invalid" });
    if let Some(k) = v {
        if k.enc() != b {
            out.oracle_fail(format!("C16 key round-trip: {} bytes {} re-encode differently", K::KIND, hx(&b)));
        }
    }
    // order of two valid keys
    let a = gen_key(K::KIND, rng, 1000);
    let c = gen_key(K::KIND, rng, 1000);
    let (ka, kc) = (K::dec(&a).expect("valid"), K::dec(&c).expect("valid"));
    if ka.enc() != a {
        out.oracle_fail(format!("C16 key round-trip: {} {}", K::KIND, hx(&a)));
    }
    let o = match ka.cmp(&kc) {
        std::cmp::Ordering::Less => "lt",
        std::cmp::Ordering::Equal => "eq",
        std::cmp::Ordering::Greater => "gt",
    };
    out.push(format!("key_cmp {} {} {}", K::KIND, hx(&a), hx(&c)), o.into());
    out.count(&format!("key_cmp.{o}"));
}

pub fn c16(rng: &mut Rng, n: u64, work: &Path, out: &mut Out) {
    for i in 0..n {
        out.cases += 1;
        // wal op: serialise, decode, decode mutations
        let op = gen_raw_op(rng, out);
        let bytes = verif::serialize_wal_op_raw(&op);
        out.push(format!("walop_ser {}", show_raw(&op)), hx(&bytes));
        let r = real_walop_de(&bytes, out);
        if r != format!("ok {}", show_raw(&op)) {
            out.oracle_fail(format!("C16 round-trip: wal op decoded as {r}"));
        }
        out.push(format!("walop_de {}", hx(&bytes)), r);
        for _ in 0..2 {
            let m = mutate(rng, &bytes, out);
            let r = real_walop_de(&m, out);
            out.count(if r.starts_with("ok") { "walop_de.ok" } else { "walop_de.err" });
            out.push(format!("walop_de {}", hx(&m)), r);
        }
        // snapshot, for a key kind chosen round-robin
        let kind = KINDS[(i as usize) % KINDS.len()];
        with_kind!(kind, index_ser_case(rng, out));
        with_kind!(kind, key_case(rng, out));
        // framed record: encode with the real writer, read with the real reader
        if i % 4 == 0 {
            frame_roundtrip(rng, work, out);
        }
    }
    // exhaustive short inputs for the wal-op decoder: every byte string of length ≤ 2 over a
    // small alphabet, plus every first byte
    for b0 in 0..=255u8 {
        let r = real_walop_de(&[b0], out);
        out.push(format!("walop_de {}", hx(&[b0])), r);
    }
    for b0 in [0u8, 1, 2] {
        for l in 0..6u8 {
            for fill in [0u8, 1, 0xff] {
                let mut v = vec![b0, l, 0, 0, 0];
                v.extend(std::iter::repeat(fill).take(l as usize + 39));
                for cut in [v.len(), v.len() - 1, 5, 4] {
                    let r = real_walop_de(&v[..cut], out);
                    out.push(format!("walop_de {}", hx(&v[..cut])), r);
                }
            }
        }
    }
    out.count("walop_de.exhaustive_block");
}

fn seg_path(work: &Path, id: u64) -> std::path::PathBuf {
    work.join(format!("{id}_index.wal"))
}

fn frame_roundtrip(rng: &mut Rng, work: &Path, out: &mut Out) {
    let _ = std::fs::remove_file(seg_path(work, 3));
    let ver = match rng.below(5) {
        0 => 1,
        1 => u64::MAX,
        _ => rng.range(1, 1 << 40),
    };
    let plen = match rng.below(8) {
        0 => 1,
        1 => 8149,
        2 => 8148,
        3 => 20_000,
        _ => rng.range(1, 80) as usize,
    };
    let payload = rng.bytes(plen);
    verif::write_segment_entries(work, 3, &[(ver, payload.clone())], false).expect("write entry");
    let bytes = std::fs::read(seg_path(work, 3)).expect("read segment");
    out.push(format!("frame_enc {} {}", ver, hx(&payload)), hx(&bytes));
    out.count(if plen > 8148 { "frame_enc.big" } else { "frame_enc" });
}

fn real_frame_read(work: &Path, bytes: &[u8]) -> String {
    if let Ok(p) = std::env::var("CVH_JOURNAL") { let _ = std::fs::write(p, format!("frame_read {}", hx(bytes))); }
    std::fs::write(seg_path(work, 7), bytes).expect("write segment");
    let r = verif::read_segment_file(work, 7);
    let mut parts: Vec<String> = r.entries.iter().map(|(v, d)| format!("{}:{}", v, hx(d))).collect();
    match r.error {
        None => parts.push("end".into()),
        Some(c) => {
            parts.push("err".into());
            parts.push(c.into());
        }
    }
    parts.join(" ")
}

/// C10 at the framing level: streams produced by the real writer, then cut at every offset /
/// changed at every payload+checksum byte (small streams), sampled for larger ones.
pub fn c10_frame(rng: &mut Rng, n: u64, work: &Path, out: &mut Out) {
    for case in 0..n {
        out.cases += 1;
        let _ = std::fs::remove_file(seg_path(work, 5));
        let nrec = rng.range(1, 4);
        let mut entries = Vec::new();
        let mut ver = rng.range(1, 50);
        for _ in 0..nrec {
            let plen = if case % 7 == 0 { rng.range(8100, 8300) as usize } else { rng.range(1, 24) as usize };
            // sometimes the same payload as the record before (an unchanged re-put logs identical ops)
            let prev: Option<Vec<u8>> = entries.last().map(|e: &(u64, Vec<u8>)| e.1.clone());
            let payload = match prev { Some(p) if rng.chance(1, 4) => p, _ => rng.bytes(plen) };
            entries.push((ver, payload));
            ver += rng.range(1, 3);
        }
        let seal = rng.chance(1, 3);
        verif::write_segment_entries(work, 5, &entries, seal).expect("write");
        let full = std::fs::read(seg_path(work, 5)).expect("read");
        let r = real_frame_read(work, &full);
        out.push(format!("frame_read {}", hx(&full)), r.clone());
        // oracle: intact stream reads back exactly
        let want: Vec<String> = entries.iter().map(|(v, d)| format!("{}:{}", v, hx(d))).collect();
        if r != format!("{} end", want.join(" ")) {
            out.oracle_fail(format!("C10: intact stream read back as {r}"));
        }
        let small = full.len() <= 400;
        // truncation at every offset (small) or sampled
        let cuts: Vec<usize> = if small { (0..full.len()).collect() } else { (0..24).map(|_| rng.below(full.len() as u64) as usize).collect() };
        for cut in cuts {
            let r = real_frame_read(work, &full[..cut]);
            out.count(if r.ends_with("end") { "frame.cut.end" } else { "frame.cut.err" });
            // oracle: error, or a prefix of the records
            if r.ends_with("end") {
                let got: Vec<&str> = r.split(' ').collect();
                let k = got.len() - 1;
                if k > want.len() || got[..k].iter().zip(&want).any(|(a, b)| a != b) {
                    out.oracle_fail(format!("C10: truncated stream yields non-prefix {r}"));
                }
            }
            out.push(format!("frame_read {}", hx(&full[..cut])), r);
        }
        // single-byte change at every position (small) or sampled
        let poss: Vec<usize> = if small { (0..full.len()).collect() } else { (0..24).map(|_| rng.below(full.len() as u64) as usize).collect() };
        for pos in poss {
            let mut m = full.clone();
            m[pos] ^= 1 << rng.below(8);
            let r = real_frame_read(work, &m);
            out.count(if r.contains("err checksum") { "frame.flip.checksum" } else if r.contains("err") { "frame.flip.short" } else { "frame.flip.end" });
            out.push(format!("frame_read {}", hx(&m)), r);
        }
    }
}

pub fn c18(rng: &mut Rng, n: u64, out: &mut Out) {
    // every byte position × a spread of values
    for pos in 0..32 {
        for val in [0u8, 1, 9, 10, 15, 16, 0x7f, 0x80, 0xa0, 0xaf, 0xf0, 0xff] {
            let mut h = [0u8; 32];
            h[pos] = val;
            path_case(&h, out);
        }
    }
    for _ in 0..n {
        out.cases += 1;
        let h: [u8; 32] = rng.bytes(32).try_into().unwrap();
        path_case(&h, out);
        // parsing of arbitrary component lists
        let hexs = hex::encode(h);
        let comps: Vec<String> = match rng.below(8) {
            0 => vec![hexs[..4].into(), hexs[4..6].into(), hexs[6..].into()],      // non-canonical split
            1 => vec![hexs[..2].to_uppercase(), hexs[2..4].into(), hexs[4..].into()], // upper case
            2 => vec![hexs[..2].into(), hexs[2..4].into(), hexs[4..63].into()],    // 63 digits
            3 => vec![hexs[..2].into(), hexs[2..4].into(), format!("{}0", &hexs[4..])], // 65 digits
            4 => vec![hexs[..2].into(), hexs[2..].into()],                          // two components
            5 => vec!["zz".into(), hexs[2..4].into(), hexs[4..].into()],            // non-hex
            6 => vec!["var".into(), "cas".into(), hexs[..2].into(), hexs[2..4].into(), hexs[4..].into()],
            _ => vec![hexs[..2].into(), hexs[2..4].into(), hexs[4..].into()],
        };
        let p: std::path::PathBuf = comps.iter().collect();
        let r = match BlobHash::from_relative_path(&p) {
            Ok(h) => format!("ok {}", hx(h.as_bytes())),
            Err(_) => "err".to_string(),
        };
        out.count(if r == "err" { "path_from.err" } else { "path_from.ok" });
        out.push(format!("path_from {}", comps.iter().map(|c| hx(c.as_bytes())).collect::<Vec<_>>().join("/")), r);
        // BLAKE3 of the model vs the crate (the driver's H), sizes around chunk/parent boundaries
        let len = match rng.below(12) {
            0 => 0, 1 => 1, 2 => 63, 3 => 64, 4 => 65, 5 => 1023, 6 => 1024, 7 => 1025, 8 => 2048, 9 => 3073,
            _ => rng.below(5000) as usize,
        };
        let data = rng.bytes(len);
        out.push(format!("blake3 {}", hx(&data)), hx(blake3::hash(&data).as_bytes()));
        out.count("blake3");
    }
    for len in [8191usize, 8192, 8193, 65536, 70_000] {
        let data = rng.bytes(len);
        out.push(format!("blake3 {}", hx(&data)), hx(blake3::hash(&data).as_bytes()));
    }
}

fn path_case(h: &[u8; 32], out: &mut Out) {
    let bh = BlobHash(*h);
    let p = bh.relative_path();
    let s = p.to_str().expect("utf8 path").to_string();
    out.push(format!("path_rel {}", hx(h)), s.clone());
    // oracle: the path parses back to the hash (bijection), also with a prefix
    match BlobHash::from_relative_path(&p) {
        Ok(b) if b == bh => {}
        other => out.oracle_fail(format!("C18: path {s} parses back to {other:?}")),
    }
    let comps: Vec<&str> = s.split('/').collect();
    if comps.len() != 3 || comps[0].len() != 2 || comps[1].len() != 2 || comps[2].len() != 60 {
        out.oracle_fail(format!("C18: path {s} is not 2/2/60"));
    }
    out.push(
        format!("path_from {}", comps.iter().map(|c| hx(c.as_bytes())).collect::<Vec<_>>().join("/")),
        format!("ok {}", hx(h)),
    );
    out.count("path_rel");
}
