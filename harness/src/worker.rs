//! `cvh worker`: executes line-protocol operations with the REAL store, one response per line.
//! Runs as a child process (so that it can be killed at an exact filesystem call by the
//! interposer) with LD_PRELOAD=fsio.so; the interposer is controlled through dlsym'd functions.
use std::collections::HashMap;
use std::ffi::CString;
use std::io::{BufRead, Read, Write};
use std::ops::Bound;
use std::panic::{catch_unwind, AssertUnwindSafe};
use std::path::PathBuf;

use cassadilia::{Cas, CasInner, LibError, OrphanStats, Transaction};

use crate::keys::HKey;
use crate::range::config_full;
use crate::wire::{hx, unhx};
use crate::with_kind;

// ---------------------------------------------------------------- interposer control
pub struct Fsio {
    set_root: Option<unsafe extern "C" fn(*const libc::c_char)>,
    set_fail_at: Option<unsafe extern "C" fn(libc::c_long)>,
    set_kill_at: Option<unsafe extern "C" fn(libc::c_long)>,
    set_drop: Option<unsafe extern "C" fn(libc::c_int)>,
    counter: Option<unsafe extern "C" fn() -> libc::c_long>,
    reset: Option<unsafe extern "C" fn()>,
    drain: Option<unsafe extern "C" fn(*mut libc::c_char, libc::size_t) -> libc::size_t>,
    pending: Option<unsafe extern "C" fn() -> libc::size_t>,
}

impl Fsio {
    pub fn load() -> Fsio {
        unsafe fn sym<T: Copy>(name: &str) -> Option<T> {
            let c = CString::new(name).unwrap();
            let p = libc::dlsym(libc::RTLD_DEFAULT, c.as_ptr());
            if p.is_null() { None } else { Some(std::mem::transmute_copy::<*mut libc::c_void, T>(&p)) }
        }
        unsafe {
            Fsio {
                set_root: sym("fsio_set_root"),
                set_fail_at: sym("fsio_set_fail_at"),
                set_kill_at: sym("fsio_set_kill_at"),
                set_drop: sym("fsio_set_drop_staging_sync"),
                counter: sym("fsio_counter"),
                reset: sym("fsio_reset_counter"),
                drain: sym("fsio_drain"),
                pending: sym("fsio_pending"),
            }
        }
    }
    pub fn present(&self) -> bool {
        self.set_root.is_some()
    }
    pub fn set_root(&self, p: &str) {
        if let Some(f) = self.set_root {
            let c = CString::new(p).unwrap();
            unsafe { f(c.as_ptr()) }
        }
    }
    pub fn set_fail_at(&self, k: i64) {
        if let Some(f) = self.set_fail_at { unsafe { f(k as libc::c_long) } }
    }
    pub fn set_kill_at(&self, k: i64) {
        if let Some(f) = self.set_kill_at { unsafe { f(k as libc::c_long) } }
    }
    pub fn set_drop_staging_sync(&self, v: bool) {
        if let Some(f) = self.set_drop { unsafe { f(v as libc::c_int) } }
    }
    pub fn counter(&self) -> i64 {
        self.counter.map_or(0, |f| unsafe { f() } as i64)
    }
    pub fn reset_counter(&self) {
        if let Some(f) = self.reset { unsafe { f() } }
    }
    pub fn drain(&self) -> String {
        let (Some(d), Some(p)) = (self.drain, self.pending) else { return String::new() };
        unsafe {
            let n = p();
            let mut buf = vec![0u8; n + 4096];
            let got = d(buf.as_mut_ptr() as *mut libc::c_char, buf.len());
            if got == usize::MAX { return String::from("# drain-overflow"); }
            buf.truncate(got);
            String::from_utf8_lossy(&buf).into_owned()
        }
    }
}

// ---------------------------------------------------------------- content specs
/// chunk spec: `=<hex>` literal, `~<seed>:<len>` generated (same formula in Main.lean)
pub fn chunk_bytes(spec: &str) -> Vec<u8> {
    if let Some(h) = spec.strip_prefix('=') {
        unhx(h)
    } else if let Some(g) = spec.strip_prefix('~') {
        let (seed, len) = g.split_once(':').expect("gen spec");
        let (seed, len): (u64, u64) = (seed.parse().unwrap(), len.parse().unwrap());
        (0..len).map(|i| ((seed * 131 + i * 31 + i / 251) % 256) as u8).collect()
    } else {
        panic!("bad chunk spec {spec}")
    }
}

pub fn chunks_of(spec: &str) -> Vec<Vec<u8>> {
    if spec == "_" { Vec::new() } else { spec.split(',').map(chunk_bytes).collect() }
}

pub fn classify(e: &LibError) -> String {
    let d = format!("{e:?}");
    let has = |s: &str| d.contains(s);
    if matches!(e, LibError::AlreadyOpened) { "alreadyOpened".into() }
    else if let LibError::IntegrityCheckFailed { missing, corrupted, .. } = e { format!("integrity {missing} {corrupted}") }
    else if matches!(e, LibError::BlobDataMissing { .. }) { "missing".into() }
    else if has("UnsupportedVersion") { "unsupportedVersion".into() }
    else if has("ValidationFailed") { "validation".into() }
    else if has("ParseFailed") { "settingsParse".into() }
    else if has("EmptyIndexFile") { "emptyIndex".into() }
    else if has("DecodeIndex") { format!("decodeIndex {}", if has("UnexpectedEof {") { "eof" } else if has("InvalidVariantTag") { "badtag" } else { "insufficient" }) }
    else if has("DecodeKey") && !has("Replay") { "decodeKey".into() }
    else if has("ReplayChecksumMismatch") { "replayRead checksum".into() }
    else if has("ReplayIo") && has("ReadOpData") { "replayRead shortPayload".into() }
    else if has("ReplayDeserializeWalOpRaw") { format!("replayDecode {}", if has("UnexpectedEof {") { "eof" } else if has("InvalidVariantTag") { "badtag" } else { "insufficient" }) }
    else if has("ReplayConvertWalOp") { "replayConvert".into() }
    else if has("InvalidRangeStartEnd") { "invalidRange".into() }
    else { format!("io {}", d.chars().filter(|c| !c.is_whitespace()).take(160).collect::<String>()) }
}

fn parse_lo(s: &str) -> Option<Bound<Vec<u8>>> {
    if s == "*" { Some(Bound::Unbounded) }
    else if let Some(h) = s.strip_prefix('[') { Some(Bound::Included(unhx(h))) }
    else { s.strip_prefix('(').map(|h| Bound::Excluded(unhx(h))) }
}
fn parse_hi(s: &str) -> Option<Bound<Vec<u8>>> {
    if s == "*" { Some(Bound::Unbounded) }
    else if let Some(h) = s.strip_suffix(']') { Some(Bound::Included(unhx(h))) }
    else { s.strip_suffix(')').map(|h| Bound::Excluded(unhx(h))) }
}
fn kbound<K: HKey>(b: Bound<Vec<u8>>) -> Bound<K> {
    match b {
        Bound::Unbounded => Bound::Unbounded,
        Bound::Included(x) => Bound::Included(K::dec(&x).expect("valid bound key")),
        Bound::Excluded(x) => Bound::Excluded(K::dec(&x).expect("valid bound key")),
    }
}

struct Session<K: HKey> {
    dir: PathBuf,
    cfgline: String,
    cas: Option<Cas<K>>,
    stats: Option<OrphanStats<K>>,
    txs: HashMap<u32, Transaction<'static, K>>,
    /// slice c11p: independent handles on the same directory, by name: clones + the statistics
    lk: std::collections::BTreeMap<String, (Vec<Cas<K>>, Option<OrphanStats<K>>)>,
}

impl<K: HKey> Session<K> {
    fn inner(&self) -> Option<&'static CasInner<K>> {
        // SAFETY: transactions created from this reference are dropped (self.txs.clear()) before
        // the handle in `self.cas` is dropped.
        self.cas.as_ref().map(|c| unsafe { &*std::sync::Arc::as_ptr(c.as_arc()) })
    }

    fn close(&mut self) {
        self.txs.clear();
        self.stats = None;
        self.cas = None;
    }

    fn exec(&mut self, line: &str) -> String {
        let w: Vec<&str> = line.split(' ').collect();
        let key = |s: &str| K::dec(&unhx(s)).expect("valid key");
        macro_rules! cas { () => { match self.cas.as_ref() { Some(c) => c, None => return "nohandle".into() } } }
        match w.as_slice() {
            ["open"] => {
                if self.cas.is_some() { return "already-open-in-worker".into(); }
                let cfg = config_full(&self.cfgline);
                let fail = cfg.fail_on_integrity_errors;
                match Cas::<K>::open_with_recover(&self.dir, cfg) {
                    Ok((cas, stats)) => {
                        let line = match &stats {
                            Some(s) => {
                                if fail && (!s.missing_blobs.is_empty() || !s.corrupted_blobs.is_empty()) {
                                    let r = format!("err integrity {} {}", s.missing_blobs.len(), s.corrupted_blobs.len());
                                    drop(stats);
                                    drop(cas);
                                    return r;
                                }
                                format!("ok orphans={} missing={} corrupted={} staging={} total={} invalid={}",
                                    s.orphaned_blobs.len(), s.missing_blobs.len(), s.corrupted_blobs.len(), s.staging_files.len(), s.total_blobs, s.invalid_files.len())
                            }
                            None => "ok noscan".into(),
                        };
                        self.cas = Some(cas);
                        self.stats = stats;
                        line
                    }
                    Err(e) => format!("err {}", classify(&e)),
                }
            }
            // the plain entry point: `Cas::open` applies the integrity gate itself and drops the stats
            ["openplain"] => {
                if self.cas.is_some() { return "already-open-in-worker".into(); }
                match Cas::<K>::open(&self.dir, config_full(&self.cfgline)) {
                    Ok(cas) => {
                        if cas.root_path() != self.dir.as_path() { return "err rootpath".into(); }
                        self.cas = Some(cas);
                        self.stats = None;
                        "ok plain".into()
                    }
                    Err(e) => format!("err {}", classify(&e)),
                }
            }
            // a second handle on the same directory while the first is alive (C11)
            ["open2"] => match Cas::<K>::open_with_recover(&self.dir, config_full(&self.cfgline)) {
                Ok(_) => "ok second-handle".into(),
                Err(e) => format!("err {}", classify(&e)),
            },
            ["close"] => { self.close(); "ok".into() }
            // make the next snapshot write fail without side effect (a directory where index.tmp goes) / undo
            ["blockindextmp"] => { match std::fs::create_dir(self.dir.join("index.tmp")) { Ok(_) => "ok".into(), Err(e) => format!("err {e}") } }
            ["unblockindextmp"] => { match std::fs::remove_dir(self.dir.join("index.tmp")) { Ok(_) => "ok".into(), Err(e) => format!("err {e}") } }
            // `Cas` is a cheap clone of one shared handle: dropping a clone must not release anything
            ["clonedrop"] => { let c = cas!().clone(); drop(c); "ok".into() }
            // drop the handle but keep the OrphanStats (which owns an Arc of the inner handle)
            ["close_keep_stats"] => { self.txs.clear(); self.cas = None; "ok".into() }
            // n threads race to open the directory; exactly one must win
            ["race_open", n] => {
                if self.cas.is_some() { return "already-open-in-worker".into(); }
                let n: usize = n.parse().unwrap();
                let barrier = std::sync::Barrier::new(n);
                let cfgline = self.cfgline.clone();
                let dir = self.dir.clone();
                let mut results: Vec<Result<(Cas<K>, Option<OrphanStats<K>>), String>> = std::thread::scope(|sc| {
                    let hs: Vec<_> = (0..n).map(|_| sc.spawn(|| {
                        barrier.wait();
                        Cas::<K>::open_with_recover(&dir, config_full(&cfgline)).map_err(|e| classify(&e))
                    })).collect();
                    hs.into_iter().map(|h| h.join().unwrap()).collect()
                });
                let wins = results.iter().filter(|r| r.is_ok()).count();
                let losers: Vec<String> = results.iter().filter_map(|r| r.as_ref().err().cloned()).collect();
                let all_already = losers.iter().all(|l| l == "alreadyOpened");
                if let Some(pos) = results.iter().position(|r| r.is_ok()) {
                    let (cas, stats) = results.remove(pos).unwrap();
                    self.cas = Some(cas);
                    self.stats = stats;
                }
                format!("winners={wins} losers_already_opened={all_already}")
            }
            ["dropstats"] => { self.stats = None; "ok".into() }
            // --- slice c11p: several independent calls of `open` on one directory
            ["lk", "open", slot, mode] => {
                let line: String = self.cfgline.split(' ').map(|t| {
                    if t.starts_with("scan=") { String::new() }
                    else if let (Some(n), true) = (t.strip_prefix("n="), *mode == "bad") { format!("n={}", n.parse::<u64>().unwrap() + 1) }
                    else { t.to_string() }
                }).filter(|t| !t.is_empty()).collect::<Vec<_>>().join(" ");
                let line = format!("{line} scan={} fail=0", if *mode == "good1" { 1 } else { 0 });
                match Cas::<K>::open_with_recover(&self.dir, config_full(&line)) {
                    Ok((cas, stats)) => { self.lk.insert(slot.to_string(), (vec![cas], stats)); "granted".into() }
                    Err(LibError::AlreadyOpened) => "refused".into(),
                    Err(e) => if classify(&e) == "validation" { "failed".into() } else { format!("failed {}", classify(&e)) },
                }
            }
            ["lk", "clone", slot] => match self.lk.get_mut(*slot) {
                Some((cl, st)) => match cl.first().cloned() {
                    Some(c) => { cl.push(c); format!("refs={}", cl.len() + st.is_some() as usize) }
                    // only the statistics are left: they cannot be cloned
                    None => "stats-only".into(),
                },
                None => "none".into(),
            },
            ["lk", "drop", slot, kind] => match self.lk.get_mut(*slot) {
                Some((cl, st)) => {
                    if (*kind == "s" && st.is_some()) || cl.is_empty() { *st = None; } else { cl.pop(); }
                    let n = cl.len() + st.is_some() as usize;
                    if n == 0 { self.lk.remove(*slot); }
                    format!("refs={n}")
                }
                None => "none".into(),
            },
            ["lk", "live"] => self.lk.keys().cloned().collect::<Vec<_>>().join(","),
            ["put", k, chunks] => {
                let cas = cas!();
                let mut tx = match cas.put(key(k)) { Ok(t) => t, Err(e) => return format!("err {}", classify(&e)) };
                for c in chunks_of(chunks) {
                    if let Err(e) = tx.write(&c) { return format!("err write {e:?}").chars().take(120).collect(); }
                }
                match tx.finish() { Ok(()) => "ok".into(), Err(e) => format!("err {}", classify(&e)) }
            }
            ["begin", id, k] => {
                let Some(inner) = self.inner() else { return "nohandle".into() };
                match inner.put(key(k)) {
                    Ok(t) => { self.txs.insert(id.parse().unwrap(), t); "ok".into() }
                    Err(e) => format!("err {}", classify(&e)),
                }
            }
            ["write", id, chunk] => match self.txs.get_mut(&id.parse().unwrap()) {
                Some(t) => match t.write(&chunk_bytes(chunk)) { Ok(()) => "ok".into(), Err(_) => "err write".into() },
                None => "notx".into(),
            },
            // a large write whose content does not matter (the transaction will be abandoned)
            ["writezeros", id, len] => match self.txs.get_mut(&id.parse().unwrap()) {
                Some(t) => {
                    let mut left: usize = len.parse().unwrap();
                    let buf = vec![0u8; 1 << 20];
                    let mut ok = true;
                    while left > 0 && ok { let n = left.min(buf.len()); ok = t.write(&buf[..n]).is_ok(); left -= n; }
                    if ok { "ok".into() } else { "err write".into() }
                }
                None => "notx".into(),
            },
            ["finish", id] => match self.txs.remove(&id.parse().unwrap()) {
                Some(t) => match t.finish() { Ok(()) => "ok".into(), Err(e) => format!("err {}", classify(&e)) },
                None => "notx".into(),
            },
            ["abort", id] => match self.txs.remove(&id.parse().unwrap()) {
                Some(t) => { drop(t); "ok".into() }
                None => "notx".into(),
            },
            ["remove", k] => match cas!().remove(&key(k)) {
                Ok(b) => format!("{b}"),
                Err(e) => format!("err {}", classify(&e)),
            },
            ["rrange", lo, hi] => {
                let (lo, hi) = (kbound::<K>(parse_lo(lo).unwrap()), kbound::<K>(parse_hi(hi).unwrap()));
                match cas!().remove_range((lo, hi)) {
                    Ok(n) => format!("{n}"),
                    Err(e) => format!("err {}", classify(&e)),
                }
            }
            ["checkpoint"] => match cas!().checkpoint() { Ok(()) => "ok".into(), Err(e) => format!("err {}", classify(&e)) },
            ["get", k] => match cas!().get(&key(k)) {
                Ok(None) => "absent".into(),
                Ok(Some(b)) => format!("found {} {}", b.len(), hx(blake3::hash(&b).as_bytes())),
                Err(e) => format!("err {}", classify(&e)),
            },
            ["reader", k] => match cas!().get_reader(&key(k)) {
                Ok(None) => "absent".into(),
                Ok(Some(mut r)) => {
                    let mut b = Vec::new();
                    match r.read_to_end(&mut b) {
                        Ok(_) => format!("found {} {}", b.len(), hx(blake3::hash(&b).as_bytes())),
                        Err(_) => "err read".into(),
                    }
                }
                Err(e) => format!("err {}", classify(&e)),
            },
            ["size", k] => match cas!().get_size(&key(k)) {
                Ok(None) => "absent".into(),
                Ok(Some(n)) => format!("{n}"),
                Err(e) => format!("err {}", classify(&e)),
            },
            ["getrange", k, s, e] => match cas!().get_range(&key(k), s.parse().unwrap(), e.parse().unwrap()) {
                Ok(None) => "absent".into(),
                Ok(Some(b)) => format!("ok {}", hx(&b)),
                Err(e) => format!("err {}", classify(&e)),
            },
            ["iter"] => {
                let g = cas!().read_index_state();
                let v: Vec<String> = g.iter().map(|(k, i)| format!("{}:{}:{}", hx(&k.enc()), hx(i.blob_hash.as_bytes()), i.blob_size)).collect();
                if v.is_empty() { "_".into() } else { v.join(";") }
            }
            ["riter", lo, hi] => {
                let (lo, hi) = (kbound::<K>(parse_lo(lo).unwrap()), kbound::<K>(parse_hi(hi).unwrap()));
                let g = cas!().read_index_state();
                let v: Vec<String> = g.range::<K, _>((lo, hi)).map(|(k, i)| format!("{}:{}:{}", hx(&k.enc()), hx(i.blob_hash.as_bytes()), i.blob_size)).collect();
                if v.is_empty() { "_".into() } else { v.join(";") }
            }
            ["stats"] => {
                let s = cas!().stats();
                format!("{} {} {}", s.cas.unique_blobs, s.cas.total_bytes, s.index.serialized_size_bytes)
            }
            ["blobs"] => {
                let g = cas!().read_index_state();
                let mut v: Vec<(Vec<u8>, u32)> = g.known_blobs().map(|(h, c)| (h.as_bytes().to_vec(), *c)).collect();
                v.sort();
                if v.is_empty() { "_".into() } else { v.iter().map(|(h, c)| format!("{}:{}", hx(h), c)).collect::<Vec<_>>().join(",") }
            }
            ["len"] => format!("{}", cas!().read_index_state().len()),
            // file descriptors of this process that still refer to an UNLINKED staging file of the
            // database (a dropped transaction whose staging inode is kept alive). Only staging/:
            // in Async mode the background sync may briefly hold a blob that was just replaced.
            ["leaks"] => {
                let mut n = 0;
                if let Ok(rd) = std::fs::read_dir("/proc/self/fd") {
                    for e in rd.flatten() {
                        if let Ok(t) = std::fs::read_link(e.path()) {
                            let t = t.to_string_lossy().into_owned();
                            if t.ends_with(" (deleted)") && t.starts_with(&*self.dir.join("staging").to_string_lossy()) { n += 1; }
                        }
                    }
                }
                format!("{n}")
            }
            ["mem"] => {
                let c = cas!();
                format!("next={} persisted={} intents={} protected={}", c.verif_next_op_version(), c.verif_last_persisted_version(), c.verif_intents().len(), c.verif_protected().len())
            }
            ["conc", policy, progs @ ..] => {
                let cas = cas!();
                let programs: Vec<Vec<crate::conc::COp>> = progs.iter().map(|p| p.split(';').map(crate::conc::parse_cop).collect()).collect();
                let (sched, obs) = crate::conc::run(cas, self.stats.as_ref(), &self.dir, programs, policy);
                format!("sched={} {}", sched.iter().map(|t| t.to_string()).collect::<Vec<_>>().join(","), obs)
            }
            ["orphan_order"] => match self.stats.as_ref() {
                Some(s) => { let v: Vec<String> = s.orphaned_blobs.iter().map(|h| hx(h.as_bytes())).collect(); if v.is_empty() { "_".into() } else { v.join(",") } }
                None => "nostats".into(),
            },
            ["delete_orphans"] => match self.stats.as_ref() {
                Some(s) => match s.delete_orphans() {
                    Ok(r) => format!("deleted={} skipped={} invalid={} staging={} errors={}", r.orphans_deleted, r.orphans_skipped, r.invalid_files_removed, r.staging_files_removed, r.errors.len()),
                    Err(e) => format!("err {}", classify(&e)),
                },
                None => "nostats".into(),
            },
            ["delete_orphan", h] => match self.stats.as_ref() {
                Some(s) => match cassadilia::BlobHash::from_hex(h) {
                    Ok(hash) => match s.delete_orphan(&hash) { Ok(b) => format!("{b}"), Err(e) => format!("err {}", classify(&e)) },
                    Err(_) => "badhash".into(),
                },
                None => "nostats".into(),
            },
            ["quarantine"] => match self.stats.as_ref() {
                Some(s) => {
                    // outside the database directory: for the store the blobs are gone
                    let q = self.dir.with_extension("quarantine");
                    let r = match s.quarantine_orphans(&q) {
                        Ok(r) => format!("quarantined={} skipped={} errors={}", r.orphans_quarantined, r.orphans_skipped, r.errors.len()),
                        Err(e) => format!("err {}", classify(&e)),
                    };
                    let _ = std::fs::remove_dir_all(&q);
                    r
                }
                None => "nostats".into(),
            },
            ["idxq", k] => {
                let g = cas!().read_index_state();
                let kk = key(k);
                let it = g.get_item(&kk);
                let req = g.require_item(&kk);
                let item = match &req { Ok(i) => format!("{}:{}", hx(i.blob_hash.as_bytes()), i.blob_size), Err(_) => "notfound".into() };
                let known = it.as_ref().map(|i| g.contains_blob_hash(&i.blob_hash)).unwrap_or(false);
                format!("contains={} item={} empty={} len={} hashknown={} keys={}", g.contains_key(&kk), item, g.is_empty(), g.len(), known, g.keys_snapshot().len())
            }
            ["orphans"] => match self.stats.as_ref() {
                Some(s) => {
                    let mut o: Vec<String> = s.orphaned_blobs.iter().map(|h| hx(h.as_bytes())).collect(); o.sort();
                    let mut m: Vec<String> = s.missing_blobs.iter().map(|h| hx(h.as_bytes())).collect(); m.sort();
                    let mut c: Vec<String> = s.corrupted_blobs.iter().map(|h| hx(h.as_bytes())).collect(); c.sort();
                    let rel = |p: &PathBuf| p.strip_prefix(&self.dir).map(|r| r.to_string_lossy().into_owned()).unwrap_or_default();
                    let mut i: Vec<String> = s.invalid_files.iter().map(rel).collect(); i.sort();
                    let j = |v: Vec<String>| if v.is_empty() { "_".to_string() } else { v.join(",") };
                    format!("orphaned={} missing={} corrupted={} invalid={} staging={} total={}", j(o), j(m), j(c), j(i), s.staging_files.len(), s.total_blobs)
                }
                None => "nostats".into(),
            },
            _ => format!("bad-op {line}"),
        }
    }
}

fn run_session<K: HKey>(dir: PathBuf, cfgline: String, fsio: &Fsio, lines: &mut dyn Iterator<Item = String>, out: &mut dyn Write) -> Option<String> {
    let mut s: Session<K> = Session { dir, cfgline, cas: None, stats: None, txs: HashMap::new(), lk: Default::default() };
    let mut armed: Option<&'static str> = None;
    while let Some(line) = lines.next() {
        if line.starts_with("cfg ") || line.starts_with("dir ") {
            s.close();
            return Some(line);
        }
        let w: Vec<&str> = line.split(' ').collect();
        let resp = match w.as_slice() {
            ["crashnext", k] => {
                fsio.reset_counter();
                fsio.set_kill_at(k.parse::<i64>().unwrap() + 1);
                armed = Some("nocrash");
                "armed".to_string()
            }
            ["failnext", k] => {
                fsio.reset_counter();
                fsio.set_fail_at(k.parse::<i64>().unwrap() + 1);
                armed = Some("fault");
                "armed".to_string()
            }
            ["rawtrace"] => {
                let t = fsio.drain();
                let v: Vec<&str> = t.lines().collect();
                if v.is_empty() { "_".into() } else { v.join("\x1f") }
            }
            ["counter"] => format!("{}", fsio.counter()),
            ["exit"] => {
                // leave without running destructors (used to model a kill between operations)
                out.flush().ok();
                unsafe { libc::_exit(0) }
            }
            _ => {
                let r = catch_unwind(AssertUnwindSafe(|| s.exec(&line)));
                let r = match r { Ok(r) => r, Err(_) => "panic".to_string() };
                if let Some(tag) = armed.take() {
                    // the armed event index was not reached (or, for faults, was hit and handled)
                    let hit = fsio.counter();
                    fsio.set_kill_at(0);
                    fsio.set_fail_at(0);
                    // under an injected fault only the error/ok distinction is compared
                    let r = if tag == "fault" && r.starts_with("err") { "err".to_string() } else { r };
                    format!("{tag} events={hit} {r}")
                } else { r }
            }
        };
        writeln!(out, "{resp}").ok();
        out.flush().ok();
    }
    s.close();
    None
}

/// worker main: first line must be `dir <path>`, then `cfg ...` lines start sessions
pub fn main() {
    std::panic::set_hook(Box::new(|_| {}));
    crate::conc::install_point_callback();
    let fsio = Fsio::load();
    let stdin = std::io::stdin();
    let mut lines = stdin.lock().lines().map(|l| l.expect("stdin"));
    let stdout = std::io::stdout();
    let mut out = stdout.lock();
    let mut dir = PathBuf::new();
    let mut pending: Option<String> = None;
    loop {
        let line = match pending.take().or_else(|| lines.next()) { Some(l) => l, None => break };
        if let Some(d) = line.strip_prefix("dir ") {
            dir = PathBuf::from(d);
            fsio.set_root(d);
            writeln!(out, "ok").ok();
            out.flush().ok();
        } else if line.starts_with("cfg ") {
            let kind = line.split(' ').find_map(|t| t.strip_prefix("kind=")).unwrap_or("bytes").to_string();
            let sync = line.contains("sync=1");
            fsio.set_drop_staging_sync(!sync);
            writeln!(out, "ok").ok();
            out.flush().ok();
            let k: &str = &kind;
            pending = with_kind!(k, run_session(dir.clone(), line.clone(), &fsio, &mut lines, &mut out));
        } else {
            writeln!(out, "bad-op {line}").ok();
            out.flush().ok();
        }
    }
}
