//! Counting global allocator: live bytes, peak live bytes and largest single request,
//! used to check the "never allocates more than its input / than L" clauses (C16, C17).
use std::alloc::{GlobalAlloc, Layout, System};
use std::sync::atomic::{AtomicUsize, Ordering::Relaxed};

pub struct Counting;

static LIVE: AtomicUsize = AtomicUsize::new(0);
static PEAK: AtomicUsize = AtomicUsize::new(0);
static LARGEST: AtomicUsize = AtomicUsize::new(0);

unsafe impl GlobalAlloc for Counting {
    unsafe fn alloc(&self, l: Layout) -> *mut u8 {
        let p = System.alloc(l);
        if !p.is_null() {
            let live = LIVE.fetch_add(l.size(), Relaxed) + l.size();
            PEAK.fetch_max(live, Relaxed);
            LARGEST.fetch_max(l.size(), Relaxed);
        }
        p
    }
    unsafe fn alloc_zeroed(&self, l: Layout) -> *mut u8 {
        let p = System.alloc_zeroed(l);
        if !p.is_null() {
            let live = LIVE.fetch_add(l.size(), Relaxed) + l.size();
            PEAK.fetch_max(live, Relaxed);
            LARGEST.fetch_max(l.size(), Relaxed);
        }
        p
    }
    unsafe fn dealloc(&self, p: *mut u8, l: Layout) {
        LIVE.fetch_sub(l.size(), Relaxed);
        System.dealloc(p, l)
    }
    unsafe fn realloc(&self, p: *mut u8, l: Layout, new: usize) -> *mut u8 {
        let q = System.realloc(p, l, new);
        if !q.is_null() {
            if new >= l.size() {
                let live = LIVE.fetch_add(new - l.size(), Relaxed) + (new - l.size());
                PEAK.fetch_max(live, Relaxed);
            } else {
                LIVE.fetch_sub(l.size() - new, Relaxed);
            }
            LARGEST.fetch_max(new, Relaxed);
        }
        q
    }
}

/// run `f`, return (result, peak live bytes above the starting level, largest single request)
pub fn measure<T>(f: impl FnOnce() -> T) -> (T, usize, usize) {
    let base = LIVE.load(Relaxed);
    PEAK.store(base, Relaxed);
    LARGEST.store(0, Relaxed);
    let r = f();
    let peak = PEAK.load(Relaxed).saturating_sub(base);
    (r, peak, LARGEST.load(Relaxed))
}
